# triage script (not a check): RWA dynamics converted back vs laboratory frame for a time axis not starting at 0
# (Hamiltonian block diagonal with respect to the RWA blocks, so that the rotating frame is exact)
import numpy, quantarhei as qr
Hd = [[0.0, 0.0, 0.0], [0.0, 1.0, 0.1], [0.0, 0.1, 1.1]]
rd = numpy.array([[0.4, 0.2, 0.1j], [0.2, 0.3, 0.05], [-0.1j, 0.05, 0.3]])
for start in (0.0, 50.0):
    H1 = qr.Hamiltonian(data=Hd)
    H2 = qr.Hamiltonian(data=Hd)
    H2.set_rwa([0, 1])
    ta = qr.TimeAxis(start, 200, 0.1)
    r1 = qr.ReducedDensityMatrixPropagator(ta, H1).propagate(qr.ReducedDensityMatrix(data=rd.copy()))
    r2 = qr.ReducedDensityMatrixPropagator(ta, H2).propagate(qr.ReducedDensityMatrix(data=rd.copy()))
    r2.convert_from_RWA(H2)
    print("start", start, "max |lab - rwa converted back| =", numpy.max(numpy.abs(r1.data - r2.data)),
          " at t0:", numpy.max(numpy.abs(r1.data[0] - r2.data[0])))
