# C05: Manager.cu_energy / iu_energy convert wavelengths linearly, and cu_energy divides by the factor of the
# units of its argument instead of the current units
import sys, warnings
warnings.filterwarnings("ignore")
import quantarhei as qr
from quantarhei.core.managers import Manager
m = Manager()
bad = 0
with qr.energy_units("eV"):
    got = m.cu_energy(100.0, "1/cm"); exp = qr.convert(100.0, "1/cm", "eV")
    print("cu_energy(100 1/cm) under eV: %.6g, exact conversion %.6g" % (got, exp)); bad += abs(got - exp) > 1e-9*abs(exp)
got = m.iu_energy(800.0, "nm"); exp = qr.convert(800.0, "nm", "int")
print("iu_energy(800 nm): %.6g, exact conversion %.6g" % (got, exp)); bad += abs(got - exp) > 1e-9*abs(exp)
with qr.energy_units("1/cm"):
    got = m.cu_energy(800.0, "nm"); exp = qr.convert(800.0, "nm", "1/cm")
    print("cu_energy(800 nm) under 1/cm: %.6g, exact conversion %.6g" % (got, exp)); bad += abs(got - exp) > 1e-9*abs(exp)
sys.exit(1 if bad else 0)
