# triage script (not a check): propagation with pure dephasing only (no relaxation tensor)
import numpy, quantarhei as qr
with qr.energy_units("1/cm"):
    H = qr.Hamiltonian(data=[[0.0, 0.0],[0.0, 100.0]])
ta = qr.TimeAxis(0.0, 100, 1.0)
pd = qr.qm.PureDephasing(drates=numpy.array([[0.0, 0.01],[0.01, 0.0]]), dtype="Lorentzian")
pr = qr.ReducedDensityMatrixPropagator(ta, H, PDeph=pd)
r0 = qr.ReducedDensityMatrix(data=[[0.5, 0.5],[0.5, 0.5]])
try:
    rt = pr.propagate(r0)
    print("ok |rho01(100)| =", abs(rt.data[99,0,1]), "expected", 0.5*numpy.exp(-0.01*99))
except Exception as e:
    print(type(e).__name__, e)
