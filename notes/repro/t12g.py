# C12: the dephasing rate of the third interval is selected by testing the *width* of that interval
import sys, warnings, numpy
warnings.filterwarnings("ignore")
import quantarhei as qr
from quantarhei.spectroscopy.mocktwodcalculator import MockTwoDResponseCalculator
t1 = qr.TimeAxis(0.0, 40, 10.0); t3 = qr.TimeAxis(0.0, 40, 10.0); t2 = qr.TimeAxis(0.0, 1, 10.0)
calc = MockTwoDResponseCalculator(t1, t2, t3)
with qr.energy_units("1/cm"):
    calc.bootstrap(rwa=12000.0, shape="Lorentzian")
class P: pass
def pathway(widths, dephs):
    p = P(); p.pathway_type = "R"; p.order = 3; p.relax_order = 0; p.pref = 1.0
    with qr.energy_units("int"):
        w = calc.oa3.data[calc.oa3.length//2]
    p.frequency = numpy.array([-w, 0.0, w, 0.0]); p.widths = numpy.array(widths); p.dephs = numpy.array(dephs)
    return p
# a width is given for both intervals, dephasing rates are not (negative = use the calculator's)
d = calc.calculate_pathway(pathway([-1.0, 0.01, -1.0, 0.01], [-1.0, -1.0, -1.0, -1.0]), shape="Lorentzian")
ref = calc.calculate_pathway(pathway([-1.0, -1.0, -1.0, -1.0], [-1.0, -1.0, -1.0, -1.0]), shape="Lorentzian")
print("Lorentzian pathway, dephasing rates not given: peak value %.4e with widths given, %.4e without (same rates, same shape expected)"
      % (numpy.real(d).flat[numpy.argmax(numpy.abs(numpy.real(d)))], numpy.real(ref).flat[numpy.argmax(numpy.abs(numpy.real(ref)))]))
sys.exit(0 if numpy.allclose(d, ref) else 1)
