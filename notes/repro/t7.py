import numpy, warnings
warnings.filterwarnings("ignore")
import quantarhei as qr
from quantarhei.spectroscopy.twod2 import TwoDResponse
fa = qr.FrequencyAxis(0.0, 4, 1.0)
def mk():
    s = TwoDResponse(); s.set_axis_1(fa); s.set_axis_3(fa); return s
A = numpy.ones((4,4),dtype=complex); B = 2*numpy.ones((4,4),dtype=complex)
s = mk()
s._add_data(A, resolution="pathways", dtype="R1g", tag="a")
try:
    s._add_data(B, resolution="types", dtype="R1g")
    s.set_data_flag("R1g"); print("type view", s.d__data[0,0], "expected", (A+B)[0,0])
    s.set_data_flag(qr.signal_TOTL); print("total", s.d__data[0,0], "expected 3")
except Exception as e:
    print("EXC", repr(e))
s = mk()
s._add_data(A, resolution="pathways", dtype="R1g", tag="a")
try:
    s._add_data(B, resolution="pathways", dtype="R1g", tag="a")
    s.set_data_flag(["R1g","a"]); print("same tag twice ->", s.d__data[0,0])
except Exception as e:
    print("same tag EXC", repr(e))
s = mk()
s._add_data(A, resolution="pathways", dtype="R1g", tag="a")
s._add_data(B, resolution="pathways", dtype="R2g", tag="b")
s._add_data(B, resolution="pathways", dtype="R1fs", tag="c")
s.set_data_flag(qr.signal_TOTL); print("total", s.d__data[0,0], "exp 5")
s.set_data_flag(qr.signal_REPH); print("reph", s.d__data[0,0], "exp 4 (R2g,R1fs)")
s.set_data_flag(qr.signal_NONR); print("nonr", s.d__data[0,0], "exp 1")
for r in ("types","signals","off"):
    s.set_resolution(r); s.set_data_flag(qr.signal_TOTL); print(r, "total", s.d__data[0,0])
# C12
try:
    from quantarhei.spectroscopy.diagramatics import liouville_pathway
    with qr.energy_units("1/cm"):
        m1 = qr.Molecule([0.0, 10000.0]); m2 = qr.Molecule([0.0, 10300.0])
    m1.set_dipole(0,1,[1,0,0]); m2.set_dipole(0,1,[0,1,0])
    agg = qr.Aggregate([m1,m2]); agg.build(mult=2)
    lp = liouville_pathway("R", 0, aggregate=agg)
    print("pathway ok")
except Exception as e:
    print("C12 EXC", repr(e))
