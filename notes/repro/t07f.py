"""C07-L: propagation with an operator-form relaxation tensor and an external field returns None."""
import numpy
import quantarhei as qr

ta = qr.TimeAxis(0.0, 100, 1.0)
with qr.energy_units("1/cm"):
    H = qr.Hamiltonian(data=[[0.0, 0.0], [0.0, 12000.0]])
K = qr.qm.ProjectionOperator(0, 1, dim=2)
sbi = qr.qm.SystemBathInteraction([K], rates=[1.0 / 100.0])
D = qr.TransitionDipoleMoment(dim=2)   # zero dipoles: the field does nothing, the call has to work all the same
D.data[0, 1, 0] = 1.0; D.data[1, 0, 0] = 1.0
field = numpy.zeros(ta.length)
rho = qr.ReducedDensityMatrix(dim=2); rho.data[1, 1] = 1.0
res = {}
for form in (False, True):
    LF = qr.qm.LindbladForm(H, sbi, as_operators=form)
    prop = qr.ReducedDensityMatrixPropagator(ta, H, RTensor=LF, Efield=field, Trdip=D)
    try:
        r = prop.propagate(rho)
        res[form] = "None" if r is None else type(r).__name__
    except Exception as e:
        res[form] = "refused (%s)" % type(e).__name__
    print("as_operators=%s ->" % form, res[form])
if res[True] == "None":
    print("DEFECT: no evolution and no refusal in operator form"); raise SystemExit(1)
print("OK")
