# triage script (not a check): two operator-form Lindblad forms built from one SystemBathInteraction
import numpy, quantarhei as qr
from quantarhei.qm import LindbladForm, SystemBathInteraction, Operator
H = qr.Hamiltonian(data=[[0.0, 0.3, 0.1],[0.3, 1.0, 0.2],[0.1, 0.2, 1.5]])
K = Operator(data=[[0.0, 1.0, 0.0],[0.0, 0.0, 0.0],[0.0, 0.0, 0.0]])
sbi = SystemBathInteraction([K], rates=[0.05])
kk0 = numpy.array(sbi.KK)
L1 = LindbladForm(H, sbi); L2 = LindbladForm(H, sbi)
print("forms share the operator array with the system-bath interaction:", L1.Km is sbi.KK, L2.Km is sbi.KK)
rho = qr.ReducedDensityMatrix(data=[[0.2, 0.1, 0.0],[0.1, 0.5, 0.05],[0.0, 0.05, 0.3]])
with qr.eigenbasis_of(H):
    a = numpy.array(L1.apply(rho).data); b = numpy.array(L2.apply(rho).data)
    print("inside eigenbasis_of(H): |L1 rho - L2 rho| max =", numpy.max(numpy.abs(a-b)))
    print("sbi.KK changed inside the context by", numpy.max(numpy.abs(sbi.KK - kk0)))
print("sbi.KK after the context differs from the original by", numpy.max(numpy.abs(sbi.KK - kk0)))
