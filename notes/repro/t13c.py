# triage script (not a check): Fourier transform of a function on a FrequencyAxis inside a units context
import numpy, quantarhei as qr
from quantarhei import FrequencyAxis, DFunction
dw = qr.convert(5.0, "1/cm", "int")
w = FrequencyAxis(-50*dw, 100, dw)
F = DFunction(w, numpy.exp(-((w.data/(10*dw))**2)))
f0 = F.get_inverse_Fourier_transform()
g0 = F.get_Fourier_transform()
with qr.energy_units("1/cm"):
    f1 = F.get_inverse_Fourier_transform()
    g1 = F.get_Fourier_transform()
print("inverse FT: max |inside/outside| ratio", numpy.max(numpy.abs(f1.data))/numpy.max(numpy.abs(f0.data)))
print("forward FT: ratio", numpy.max(numpy.abs(g1.data))/numpy.max(numpy.abs(g0.data)))
