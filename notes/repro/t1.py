import numpy, warnings
warnings.filterwarnings("ignore")
import quantarhei as qr
from quantarhei import Manager
m = Manager()
# C05: build switches units
with qr.energy_units("1/cm"):
    m1 = qr.Molecule([0.0, 10000.0]); m2 = qr.Molecule([0.0, 10100.0])
    agg = qr.Aggregate([m1,m2]); agg.set_resonance_coupling(0,1,100.0)
    print("before build", m.get_current_units("energy"))
    agg.build()
    print("after build (inside 1/cm ctx)", m.get_current_units("energy"))
print("after ctx", m.get_current_units("energy"))
# C20
from quantarhei.core.parallel import _calculate_ranges
class C: pass
c=C(); c.size=3; c.rank=1
print("ranges start=5..10:", _calculate_ranges(c,5,10), c.ranges)
# C13 odd complete
from quantarhei import TimeAxis, DFunction
for N in (10,11):
    t = TimeAxis(-(N//2)*1.0, N, 1.0, atype="complete")
    y = numpy.exp(-(t.data-0.7)**2/4.0)*(1+0.3j*t.data)
    f = DFunction(t,y); F=f.get_Fourier_transform()
    w = F.axis.data
    direct = numpy.array([numpy.sum(y*numpy.exp(1j*ww*t.data))*t.step for ww in w])
    print(N, "FT vs direct sum maxdiff", numpy.max(numpy.abs(F.data-direct)))
    fb = F.get_inverse_Fourier_transform()
    print(N, "roundtrip", numpy.max(numpy.abs(fb.data-y)), numpy.max(numpy.abs(fb.axis.data-t.data)))
