# triage script (not a check): B777 / CP29 / Underdamped correlation functions
import numpy, quantarhei as qr, traceback
from quantarhei import CorrelationFunction
ta = qr.TimeAxis(0.0, 1000, 1.0)
for ftype, extra in (("B777", dict(alternative_form=False, gamma=0.01)), ("CP29", dict(gamma=0.01)),
                     ("Underdamped", dict(freq=500.0, gamma=30.0))):
    try:
        with qr.energy_units("1/cm"):
            cf = CorrelationFunction(ta, dict(ftype=ftype, reorg=50.0, T=300.0, **extra))
            print(ftype, "ok; reorg read back in 1/cm:", cf.get_reorganization_energy())
    except Exception as e:
        print(ftype, "FAILS:", type(e).__name__, str(e)[:100])
