# triage script (not a check): KTHierarchy constructed inside a units context
import numpy, quantarhei as qr
from quantarhei import TestAggregate
agg = TestAggregate("dimer-2-env"); agg.build()
ham = agg.get_Hamiltonian(); sbi = agg.get_SystemBathInteraction()
h0 = qr.KTHierarchy(ham, sbi, 2)
with qr.energy_units("1/cm"):
    h1 = qr.KTHierarchy(ham, sbi, 2)
print("lam outside:", h0.lam, " inside 1/cm context:", h1.lam)
print("gamma outside:", h0.gamma, " inside:", h1.gamma, " kBT:", h0.kBT, h1.kBT)
