# triage script (not a check): conversion of whole-number arrays in nm
import numpy, quantarhei as qr
m = qr.Manager()
with qr.energy_units("nm"):
    a = m.convert_energy_2_internal_u(numpy.array([500, 600]))
    b = m.convert_energy_2_internal_u(numpy.array([500.0, 600.0]))
    print("integer array:", a, " float array:", b)
    c = m.convert_energy_2_current_u(numpy.array([3, 4]))
    d = m.convert_energy_2_current_u(numpy.array([3.0, 4.0]))
    print("to nm: integer array:", c, " float array:", d)
