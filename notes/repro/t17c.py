# triage script (not a check): propagation matrix of a defective rate matrix (sequential chain with equal rates)
import numpy, scipy.linalg, quantarhei as qr
from quantarhei.qm.propagators.poppropagator import PopulationPropagator
k = 0.01
KK = numpy.array([[-k, 0.0, 0.0],[k, -k, 0.0],[0.0, k, 0.0]])
ta = qr.TimeAxis(0.0, 1000, 1.0); ts = qr.TimeAxis(0.0, 10, 100.0)
prop = PopulationPropagator(ta, rate_matrix=KK)
try:
    U = prop.get_PropagationMatrix(ts)
    ex = scipy.linalg.expm(KK*ts.step*3)
    print("U(t=300) column 0:", U[:,0,3], " exact:", ex[:,0], " max diff", numpy.max(numpy.abs(U[:,:,3]-ex)))
except Exception as e:
    print(type(e).__name__, e)
