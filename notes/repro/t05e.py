# triage script (not a check): calculators constructed / called inside a units context
import numpy, quantarhei as qr
from quantarhei import TestAggregate
from quantarhei.qm.liouvillespace.rates.foersterrates import FoersterRateMatrix
agg = TestAggregate("dimer-2-env"); agg.build()
ham = agg.get_Hamiltonian(); sbi = agg.get_SystemBathInteraction()
r0 = FoersterRateMatrix(ham, sbi).data
with qr.energy_units("1/cm"):
    r1 = FoersterRateMatrix(ham, sbi).data
print("Foerster rate matrix outside/inside 1/cm context:\n", r0, "\n", r1)
for ct in ("thermal", "thermal_excited_state"):
    for lim in ("weak_coupling", "strong_coupling"):
        a = TestAggregate("dimer-2-env"); a.build()
        d0 = a.get_DensityMatrix(condition_type=ct, relaxation_theory_limit=lim, temperature=300.0).data
        with qr.energy_units("1/cm"):
            d1 = a.get_DensityMatrix(condition_type=ct, relaxation_theory_limit=lim, temperature=300.0).data
        print(ct, lim, "max diff", numpy.max(numpy.abs(d0-d1)))
