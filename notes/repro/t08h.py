"""C08: evolution superoperator vs direct propagation when the Hamiltonian has RWA and the time axis does not start at zero."""
import numpy
import quantarhei as qr

with qr.energy_units("1/cm"):
    H = qr.Hamiltonian(data=[[0.0, 0.0, 0.0], [0.0, 12000.0, 100.0], [0.0, 100.0, 12200.0]])
H.set_rwa([0, 1])
K = qr.qm.ProjectionOperator(1, 2, dim=3)
sbi = qr.qm.SystemBathInteraction([K], rates=[1.0 / 200.0])
LF = qr.qm.LindbladForm(H, sbi)
for start in (0.0, 20.0):
    time = qr.TimeAxis(start, 11, 5.0)
    U = qr.qm.EvolutionSuperOperator(time, H, relt=LF)
    U.set_dense_dt(5)
    U.calculate(show_progress=False)
    prop = qr.ReducedDensityMatrixPropagator(time, H, RTensor=LF)
    rho = qr.ReducedDensityMatrix(dim=3)
    rho.data[:, :] = 0.0
    rho.data[1, 1] = 0.5; rho.data[2, 2] = 0.5; rho.data[1, 2] = 0.3; rho.data[2, 1] = 0.3; rho.data[0, 1] = 0.2; rho.data[1, 0] = 0.2
    r1 = prop.propagate(rho)
    r2 = U.apply(time, rho)
    d_rwa = numpy.max(numpy.abs(r1.data - r2.data))
    r1.convert_from_RWA(H); r2.convert_from_RWA(H)
    d_lab = numpy.max(numpy.abs(r1.data - r2.data))
    print("axis starting at %5.1f: max |propagate - U.apply| = %.3e (as returned), %.3e (both converted from RWA)" % (start, d_rwa, d_lab))

# the converted superoperator: identity at its first time, and its application equals the converted direct propagation
bad = False
for start in (0.0, 20.0):
    time = qr.TimeAxis(start, 11, 5.0)
    U = qr.qm.EvolutionSuperOperator(time, H, relt=LF); U.set_dense_dt(5); U.calculate(show_progress=False)
    prop = qr.ReducedDensityMatrixPropagator(time, H, RTensor=LF)
    r1 = prop.propagate(rho); r1.convert_from_RWA(H)
    r2 = U.apply(time, rho); r2.convert_from_RWA(H)
    U.convert_from_RWA()
    dim = 3
    ident = numpy.zeros((dim,)*4, dtype=complex)
    for a in range(dim):
        for b in range(dim):
            ident[a, b, a, b] = 1.0
    e0 = numpy.max(numpy.abs(U.data[0] - ident))
    r3 = U.apply(time, rho)
    d = numpy.max(numpy.abs(r3.data - r1.data)); d2 = numpy.max(numpy.abs(r2.data - r1.data))
    print("axis starting at %5.1f: |U_lab(t0) - 1| = %.3e, |U_lab.apply - propagate(lab)| = %.3e, |U_rwa.apply(converted) - propagate(lab)| = %.3e" % (start, e0, d, d2))
    bad = bad or e0 > 1e-12 or d > 1e-3 or d2 > 1e-3
if bad:
    print("DEFECT"); raise SystemExit(1)
print("OK")
