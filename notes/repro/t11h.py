"""C11-N: the absorption spectrum of a molecule with three levels has the 0->1 line only."""
import numpy
import quantarhei as qr

ta = qr.TimeAxis(0.0, 2000, 1.0)
with qr.energy_units("1/cm"):
    cf = qr.CorrelationFunction(ta, dict(ftype="OverdampedBrownian", reorg=20.0, cortime=100.0, T=300))
    m = qr.Molecule([0.0, 12000.0, 13000.0])
m.set_dipole((0, 1), [1.0, 0.0, 0.0]); m.set_dipole((0, 2), [0.0, 2.0, 0.0])
m.set_transition_environment((0, 1), cf); m.set_transition_environment((0, 2), cf)
calc = qr.AbsSpectrumCalculator(ta, system=m)
with qr.energy_units("1/cm"):
    calc.bootstrap(rwa=12500.0)
    sp = calc.calculate(raw=True)
    x = sp.axis.data; y = sp.data
    a1 = y[numpy.argmin(abs(x - 11980.0))]; a2 = y[numpy.argmin(abs(x - 12980.0))]
print("height near the 0->1 line %.4g, near the 0->2 line %.4g; ratio %.4g (|d|^2 ratio is 4)" % (a1, a2, a2 / a1))
if not (3.5 < a2 / a1 < 4.5):
    print("DEFECT: the 0->2 line is missing from the spectrum of the molecule"); raise SystemExit(1)
print("OK")
