# triage script (not a check): CP29 spectral density as a single component and after another one
import numpy, quantarhei as qr
from quantarhei.qm.corfunctions import SpectralDensity
ta = qr.TimeAxis(0.0, 1000, 1.0)
fa = ta.get_FrequencyAxis()
with qr.energy_units("1/cm"):
    p1 = dict(ftype="CP29", reorg=50.0, T=300.0)
    p2 = dict(ftype="OverdampedBrownian", reorg=20.0, cortime=100.0, T=300.0)
    a = SpectralDensity(fa, p1)
    b = SpectralDensity(fa, p2)
    c = SpectralDensity(fa, [p2, p1])
print("single lamb", a.lamb, "max", numpy.max(a.data), "measured", a.measure_reorganization_energy())
print("composite lamb", c.lamb, "expected", a.lamb + b.lamb)
print("composite data == sum:", numpy.allclose(c.data, a.data + b.data))
numpy.save("/tmp/cp29_single.npy", a.data)
