# C15: OQSStateVectorPropagator.propagate changes the initial state vector it is given
import sys, warnings, numpy
warnings.filterwarnings("ignore")
import quantarhei as qr
from quantarhei.qm.propagators.oqssvpropagator import OQSStateVectorPropagator
from quantarhei import OQSStateVector
ta = qr.TimeAxis(0.0, 5, 1.0)
KK = numpy.zeros((5, 2, 2)); KK[:, 0, 1] = 0.1; KK[:, 1, 0] = -0.1
psi = OQSStateVector(2); psi.data[0] = 1.0
prop = OQSStateVectorPropagator(timeaxis=ta, current_matrix=KK)
before = psi.data.copy()
e1 = prop.propagate(psi)
after = psi.data.copy()
e2 = prop.propagate(psi)
print("initial vector before the call %s, after it %s" % (before.tolist(), numpy.round(after, 4).tolist()))
print("second call with the same objects differs from the first by %.3e" % numpy.abs(e2.data - e1.data).max())
sys.exit(0 if numpy.allclose(before, after) and numpy.allclose(e1.data, e2.data) else 1)
