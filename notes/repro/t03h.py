"""C03-I (relay flag): Aggregate.rebuild() keeps the bath of the first build.

build() derives the matrix of correlation functions from the molecules' environments and then sets
_has_egcf_matrix = True - the flag that says 'the user supplied a matrix'.  clean()/rebuild() do not
reset it, so after the environments of the molecules were replaced the aggregate keeps the old bath.
"""
import numpy
import quantarhei as qr

ta = qr.TimeAxis(0.0, 500, 1.0)
def cf(reorg):
    with qr.energy_units("1/cm"):
        return qr.CorrelationFunction(ta, dict(ftype="OverdampedBrownian", reorg=reorg, cortime=100.0, T=300))
with qr.energy_units("1/cm"):
    m1 = qr.Molecule([0.0, 12000.0]); m2 = qr.Molecule([0.0, 12300.0])
m1.set_transition_environment((0, 1), cf(30.0)); m2.set_transition_environment((0, 1), cf(30.0))
agg = qr.Aggregate([m1, m2])
with qr.energy_units("1/cm"):
    agg.set_resonance_coupling(0, 1, 100.0)
agg.build()
l1 = agg.get_SystemBathInteraction().get_reorganization_energy(0)
for m in (m1, m2):
    m.unset_transition_environment((0, 1)); m.set_transition_environment((0, 1), cf(90.0))
agg.rebuild()
l2 = agg.get_SystemBathInteraction().get_reorganization_energy(0)
print("reorganisation energy of site 0: first build %.6g, after new environments and rebuild() %.6g (ratio %.3f, expected 3)" % (l1, l2, l2 / l1))
if abs(l2 / l1 - 3.0) > 1e-9:
    print("DEFECT: the rebuilt aggregate still has the bath of the first build"); raise SystemExit(1)
print("OK")
