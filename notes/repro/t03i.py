"""C03-L: an aggregate with a one-level molecule between two two-level molecules loses its resonance coupling."""
import numpy
import quantarhei as qr
with qr.energy_units("1/cm"):
    A = qr.Molecule([0.0, 12000.0]); S = qr.Molecule([0.0]); B = qr.Molecule([0.0, 12200.0])
    agg = qr.Aggregate([A, S, B])
    agg.set_resonance_coupling(0, 2, 100.0)
    agg.build()
    H = agg.get_Hamiltonian()
    print(numpy.round(H.data, 3))
    off = abs(H.data[1, 2])
if abs(off - 100.0) > 1e-6:
    print("DEFECT: the coupling between the two excited states is %.3f 1/cm, 100 was set" % off); raise SystemExit(1)
print("OK")
