# triage script (not a check): a mode with more than 20 vibrational levels in one electronic state
import numpy, quantarhei as qr
with qr.energy_units("1/cm"):
    m = qr.Molecule([0.0, 10000.0])
    md = qr.Mode(100.0); m.add_Mode(md)
    md.set_nmax(0, 3); md.set_nmax(1, 22); md.set_HR(1, 0.5)
    agg = qr.Aggregate([m])
try:
    agg.build()
    print("built, dimension", agg.get_Hamiltonian().dim, "expected", 3 + 22)
except Exception as e:
    print(type(e).__name__, e)
