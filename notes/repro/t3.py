import numpy, warnings
warnings.filterwarnings("ignore")
import quantarhei as qr
from quantarhei import Manager
m = Manager()
def herm_viol(R):
    return numpy.max(numpy.abs(numpy.conj(R) - numpy.transpose(R,(1,0,3,2))))
def trace_viol(R):
    return numpy.max(numpy.abs(numpy.einsum("aacd->cd",R)))
time = qr.TimeAxis(0.0, 1000, 1.0)
with qr.energy_units("1/cm"):
    m1 = qr.Molecule([0.0, 10000.0]); m2 = qr.Molecule([0.0, 10300.0]); m3=qr.Molecule([0.0,10150.0])
    cf = qr.CorrelationFunction(time, dict(ftype="OverdampedBrownian", reorg=30.0, cortime=60.0, T=300, matsubara=20))
    for mm in (m1,m2,m3): mm.set_transition_environment((0,1), cf)
    agg = qr.Aggregate([m1,m2,m3]); agg.set_resonance_coupling(0,1,80.0); agg.set_resonance_coupling(1,2,-40.0)
agg.build()
print("units now", m.get_current_units("energy"))
for th, kw in [("standard_Redfield",{}),("standard_Redfield",dict(time_dependent=True)),("standard_Foerster",{}),("standard_Foerster",dict(time_dependent=True)),("combined_RedfieldFoerster",dict(coupling_cutoff=0.01))]:
    try:
        RR, ham = agg.get_RelaxationTensor(time, relaxation_theory=th, **kw)
        d = RR.data
        if d.ndim==5:
            print(th, kw, "herm", max(herm_viol(d[k]) for k in (0,1,500,999)), "trace", max(trace_viol(d[k]) for k in (0,1,500,999)), "scale", numpy.max(numpy.abs(d)))
        else:
            print(th, kw, "herm", herm_viol(d), "trace", trace_viol(d), "scale", numpy.max(numpy.abs(d)))
    except Exception as e:
        import traceback; print(th, kw, "EXC", repr(e))
