# triage script (not a check): calculators built/used inside vs outside a units context
import numpy, quantarhei as qr, traceback
from quantarhei import TestAggregate
from quantarhei.qm.liouvillespace.rates.foersterrates import FoersterRateMatrix
from quantarhei.qm import RedfieldRateMatrix, RedfieldRelaxationTensor, TDRedfieldRelaxationTensor
from quantarhei.qm import FoersterRelaxationTensor, TDFoersterRelaxationTensor, RedfieldFoersterRelaxationTensor
from quantarhei.qm.liouvillespace.rates.tdredfieldrates import TDRedfieldRateMatrix
from quantarhei.qm.liouvillespace.liouvillian import Liouvillian
def mk():
    agg = TestAggregate("dimer-2-env")
    with qr.energy_units("1/cm"):
        agg.set_resonance_coupling(0, 1, 30.0)
    agg.build()
    return agg
def cmp(name, f):
    try:
        a = mk(); ham = a.get_Hamiltonian(); sbi = a.get_SystemBathInteraction()
        x0 = f(a, ham, sbi)
        a = mk(); ham = a.get_Hamiltonian(); sbi = a.get_SystemBathInteraction()
        with qr.energy_units("1/cm"):
            x1 = f(a, ham, sbi)
        print("%-40s max|outside|=%.3e  max|diff|=%.3e" % (name, numpy.max(numpy.abs(x0)), numpy.max(numpy.abs(x0-x1))))
    except Exception as e:
        print("%-40s EXC %s: %s" % (name, type(e).__name__, str(e)[:100]))
cmp("FoersterRateMatrix", lambda a,h,s: FoersterRateMatrix(h,s).data)
cmp("RedfieldRateMatrix", lambda a,h,s: RedfieldRateMatrix(h,s).data)
cmp("TDRedfieldRateMatrix", lambda a,h,s: TDRedfieldRateMatrix(h,s).data)
cmp("RedfieldRelaxationTensor", lambda a,h,s: RedfieldRelaxationTensor(h,s).data)
cmp("RedfieldRelaxationTensor ops", lambda a,h,s: (lambda r: (r.convert_2_tensor(), r.data)[1])(RedfieldRelaxationTensor(h,s,as_operators=True)))
cmp("TDRedfieldRelaxationTensor", lambda a,h,s: TDRedfieldRelaxationTensor(h,s).data)
cmp("FoersterRelaxationTensor", lambda a,h,s: FoersterRelaxationTensor(h,s).data)
cmp("TDFoersterRelaxationTensor", lambda a,h,s: TDFoersterRelaxationTensor(h,s).data)
cmp("RedfieldFoersterRelaxationTensor", lambda a,h,s: RedfieldFoersterRelaxationTensor(h,s,coupling_cutoff=0.001).data)
cmp("Liouvillian", lambda a,h,s: Liouvillian(h).data)
def rdmprop(a,h,s):
    ta = qr.TimeAxis(0.0, 100, 1.0)
    rt = RedfieldRelaxationTensor(h,s)
    p = qr.ReducedDensityMatrixPropagator(ta, h, rt)
    r0 = qr.ReducedDensityMatrix(dim=h.dim); r0.data[1,2]=0.5; r0.data[2,1]=0.5; r0.data[1,1]=0.5; r0.data[2,2]=0.5
    return p.propagate(r0).data
cmp("RDM propagator", rdmprop)
def svprop(a,h,s):
    ta = qr.TimeAxis(0.0, 100, 1.0)
    p = qr.StateVectorPropagator(ta, h)
    v = qr.StateVector(h.dim); v.data[1]=1.0
    return p.propagate(v).data
cmp("SV propagator", svprop)
def heom(a,h,s):
    ta = qr.TimeAxis(0.0, 50, 1.0)
    hy = qr.KTHierarchy(h, s, 2)
    p = qr.KTHierarchyPropagator(ta, hy)
    r0 = qr.ReducedDensityMatrix(dim=h.dim); r0.data[1,2]=0.5; r0.data[2,1]=0.5; r0.data[1,1]=0.5; r0.data[2,2]=0.5
    return p.propagate(r0).data
cmp("KTHierarchy propagation", heom)
def thermal(a,h,s):
    return a.get_thermal_ReducedDensityMatrix().data if hasattr(a,"get_thermal_ReducedDensityMatrix") else numpy.zeros(1)
cmp("thermal RDM", thermal)
def excit(a,h,s):
    return a.get_excited_density_matrix().data
cmp("excited density matrix", excit)
def evsup(a,h,s):
    ta = qr.TimeAxis(0.0, 5, 10.0)
    rt = RedfieldRelaxationTensor(h,s)
    e = qr.qm.EvolutionSuperOperator(ta, h, rt); e.set_dense_dt(10); e.calculate(show_progress=False)
    return e.data
cmp("EvolutionSuperOperator", evsup)
