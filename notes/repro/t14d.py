# triage script (not a check): strong-coupling thermal excited state of an aggregate with a vibrational mode
import numpy, quantarhei as qr
from quantarhei import TestAggregate
agg = TestAggregate("dimer-2-env")
with qr.energy_units("1/cm"):
    md = qr.Mode(300.0)
    agg.monomers[0].add_Mode(md)
    md.set_nmax(0, 2); md.set_nmax(1, 2); md.set_HR(1, 0.1)
agg.build()
print("states:", agg.Ntot, "bands:", agg.Nb)
try:
    r = agg.get_DensityMatrix(condition_type="thermal_excited_state", relaxation_theory_limit="strong_coupling", temperature=300.0)
    print("trace", numpy.trace(r.data).real)
except Exception as e:
    print(type(e).__name__, e)
