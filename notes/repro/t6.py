import numpy, warnings
warnings.filterwarnings("ignore")
import quantarhei as qr
# C11: monomer, no bath: line at transition energy
time = qr.TimeAxis(0.0, 1000, 1.0)
with qr.energy_units("1/cm"):
    mol = qr.Molecule([0.0, 10000.0])
    cf = qr.CorrelationFunction(time, dict(ftype="OverdampedBrownian", reorg=20.0, cortime=100.0, T=300, matsubara=20))
    mol.set_transition_environment((0,1), cf)
mol.set_dipole(0,1,[1.0,0.0,0.0])
mol.set_electronic_rwa([0,1])
absc = qr.AbsSpectrumCalculator(time, mol)
absc.bootstrap()
sp = absc.calculate(raw=True)
w = sp.axis.data; d = sp.data
# direct integral
from quantarhei.qm.corfunctions.correlationfunctions import c2g
gt = c2g(time, cf.data)
om = mol.elenergies[1]-mol.elenergies[0]
t = time.data
lt = mol.get_electronic_natural_lifetime(1)
def direct(ww):
    f = numpy.exp(-gt - 1j*(om-ww)*t - t/lt)
    # hermitian-extended integral = 2 Re int_0^inf
    return 2*numpy.real(numpy.sum(f)*time.step - 0.5*f[0]*time.step)
dd = numpy.array([direct(x) for x in w])
i1 = numpy.argmax(d); i2 = numpy.argmax(dd)
print("peak idx calc", i1, "direct", i2, "dw", w[1]-w[0], "len", len(w))
# best shift
best = min(range(-5,6), key=lambda s: numpy.max(numpy.abs(numpy.roll(d,s)[10:-10]-dd[10:-10])))
print("best roll", best, [ (s, float(numpy.max(numpy.abs(numpy.roll(d,s)[10:-10]-dd[10:-10])))) for s in range(-3,4)])
