# triage script (not a check): accessor pairs whose setter converts and whose getter does not
import numpy, quantarhei as qr
with qr.energy_units("1/cm"):
    m = qr.Molecule([0.0, 10000.0, 10500.0])
    m.set_transition_width((0,1), 150.0)
    print("transition width supplied 150 1/cm, read in 1/cm:", m.get_transition_width((0,1)))
    m.set_adiabatic_coupling(1, 2, 100.0)
    print("adiabatic coupling supplied 100 1/cm, read in 1/cm:", m.get_adiabatic_coupling(1, 2))
def ham(inside):
    with qr.energy_units("1/cm"):
        mol = qr.Molecule([0.0, 10000.0, 10500.0])
        mol.set_adiabatic_coupling(1, 2, 100.0)
    if inside:
        with qr.energy_units("1/cm"):
            H = mol.get_Hamiltonian()
    else:
        H = mol.get_Hamiltonian()
    return numpy.array(H._data)
h0, h1 = ham(False), ham(True)
print("Hamiltonian built outside / inside a 1/cm context, element [1,2] (internal units):", h0[1,2], h1[1,2], " expected", qr.convert(100.0, "1/cm", "int"))
