# C19: a refused first addition changes the resolution of the response
import sys, warnings, numpy
warnings.filterwarnings("ignore")
import quantarhei as qr
from quantarhei.spectroscopy.twod2 import TwoDResponse
r = TwoDResponse()
r.set_axis_1(qr.FrequencyAxis(0.0, 4, 1.0)); r.set_axis_3(qr.FrequencyAxis(0.0, 4, 1.0))
A = numpy.ones((4, 4))
before = (r.storage_resolution, r.storage_initialized)
try:
    r._add_data(A, resolution="signals", dtype="R1g")
    print("not refused")
except Exception as e:
    print("refused:", e)
after = (r.storage_resolution, r.storage_initialized)
print("resolution / initialised before the refused addition: %s, after: %s" % (before, after))
try:
    r._add_data(A, dtype="R1g", tag="a")
    ok = True; print("pathway addition (admissible before the refused call): accepted")
except Exception as e:
    ok = False; print("pathway addition (admissible before the refused call): refused -", e)
sys.exit(0 if (before == after and ok) else 1)
