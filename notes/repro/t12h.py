"""C12: the pathway generators call self.diagonalize() only when the aggregate is diagonalized already.
A user who does not call agg.diagonalize() gets ESA widths without their cross terms: an uncoupled dimer is not the sum
of its molecules.  Run: cd /tmp && PYTHONPATH=/repo /venv/bin/python /verif/notes/repro/t12h.py
"""
import sys, warnings
warnings.filterwarnings("ignore")
import numpy
import quantarhei as qr
from quantarhei.spectroscopy.mocktwodcalculator import MockTwoDResponseCalculator

X = [1.0, 0.0, 0.0]; Y = [0.0, 1.0, 0.0]

def build(energies, dipoles, widths, mult):
    mols = []
    with qr.energy_units("1/cm"):
        for e, w in zip(energies, widths):
            m = qr.Molecule([0.0, e])
            m.set_transition_width((0, 1), w)
            mols.append(m)
    for m, d in zip(mols, dipoles):
        m.set_dipole(0, 1, d)
    agg = qr.Aggregate(molecules=mols)     # no resonance coupling at all
    agg.build(mult=mult)
    return agg

def total_response(energies, dipoles, widths):
    agg = build(energies, dipoles, widths, 2)
    H1 = build(energies, dipoles, widths, 1).get_Hamiltonian()
    if DIAG:
        agg.diagonalize()
    t2 = qr.TimeAxis(0.0, 2, 10.0)
    calc = MockTwoDResponseCalculator(qr.TimeAxis(0.0, 60, 10.0), t2,
                                      qr.TimeAxis(0.0, 60, 10.0))
    with qr.energy_units("1/cm"):
        calc.bootstrap(rwa=12100.0)
    lab = qr.LabSetup()
    lab.set_pulse_polarizations(pulse_polarizations=(X, X, Y), detection_polarization=Y)
    # trivial (Lindblad, rate ~ 0) evolution superoperator of the one-exciton system
    K = qr.qm.ProjectionOperator(0, 1, dim=H1.dim)
    sbi = qr.qm.SystemBathInteraction(sys_operators=[K], rates=(1.0e-12,))
    eUt = qr.EvolutionSuperOperator(t2, H1, relt=qr.qm.LindbladForm(H1, sbi))
    eUt.set_dense_dt(2); eUt.calculate()
    tw = calc.calculate_one_system(0.0, agg, eUt, lab)
    tw.set_data_flag(qr.signal_TOTL)
    return numpy.array(tw.d__data), agg

dip = [[1.0, 0.2, 0.0], [0.3, 0.9, 0.4]]
wid = [100.0, 150.0]
en = [12000.0, 12300.0]
bad = False
for DIAG in (True, False):
    tri, agg = total_response(en, dip, wid)
    ref = sum(total_response(en[k:k+1], dip[k:k+1], wid[k:k+1])[0] for k in range(2))
    dev = numpy.max(numpy.abs(tri-ref))/numpy.max(numpy.abs(ref))
    print("agg.diagonalize() called by the user: %-5s  max|dimer - sum of monomers| / max|sum| = %.3e" % (DIAG, dev))
    if not (dev < 1.0e-10):
        bad = True
print("REQUIRED: for uncoupled molecules the response equals the sum of the responses of the molecules")
sys.exit(1 if bad else 0)
