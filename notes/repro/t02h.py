# triage script (not a check): rotating-frame flag of state vector evolutions
import numpy, quantarhei as qr
with qr.energy_units("1/cm"):
    H = qr.Hamiltonian(data=[[0.0, 0.0, 0.0],[0.0, 12000.0, 100.0],[0.0, 100.0, 12200.0]])
ta = qr.TimeAxis(0.0, 100, 1.0)
v = qr.StateVector(3); v.data[:] = 1.0/numpy.sqrt(3)
try:
    vt = qr.StateVectorPropagator(ta, H).propagate(v)
    vt.convert_from_RWA(H)
    print("no RWA: convert_from_RWA is a no-op, ok")
except Exception as e:
    print("no RWA: convert_from_RWA raises", type(e).__name__, e)
H.set_rwa([0, 1])
vt = qr.StateVectorPropagator(ta, H).propagate(v)
rt = vt.get_DensityMatrixEvolution()
print("state vector evolution in RWA:", vt.is_in_rwa, " density matrix evolution derived from it:", rt.is_in_rwa)
rt.convert_from_RWA(H)
with qr.energy_units("1/cm"):
    H2 = qr.Hamiltonian(data=[[0.0, 0.0, 0.0],[0.0, 12000.0, 100.0],[0.0, 100.0, 12200.0]])
r0 = qr.ReducedDensityMatrix(data=numpy.outer(v.data, v.data.conj()))
lab = qr.ReducedDensityMatrixPropagator(ta, H2).propagate(r0, Nref=20)
print("difference from laboratory-frame density matrix propagation:", numpy.max(numpy.abs(rt.data - lab.data)))
