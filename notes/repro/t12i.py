"""C12-O: a polarisation changed through a field object (or by writing a row of lab.e, as the doctests do) is not
followed by the averaging vector F4eM4: pathways keep the orientational prefactor of the old polarisations."""
import numpy
import quantarhei as qr
from quantarhei.spectroscopy.labsetup import LabSetup
X = numpy.array([1.0, 0.0, 0.0]); Y = numpy.array([0.0, 1.0, 0.0])
lab = LabSetup()
lab.set_pulse_polarizations(pulse_polarizations=(X, X, X), detection_polarization=X)
a = numpy.array(lab.F4eM4)
lab.get_labfield(2).set_polarization(Y)
b = numpy.array(lab.F4eM4)
ref = LabSetup(); ref.set_pulse_polarizations(pulse_polarizations=(X, X, Y), detection_polarization=X)
print("F4eM4 for XXXX", a, "| after pulse 3 -> Y", b, "| set-up created with XXYX", numpy.array(ref.F4eM4))
if not numpy.allclose(b, ref.F4eM4):
    print("DEFECT: the averaging vector did not follow the polarisation"); raise SystemExit(1)
print("OK")
