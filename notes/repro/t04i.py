"""C04-B16: Operator.is_diagonal() inside a basis context answers for the basis the storage was left in."""
import quantarhei as qr
H = qr.Hamiltonian(data=[[0.0, 0.3], [0.3, 1.0]])
with qr.eigenbasis_of(H):
    a = H.is_diagonal()           # first question inside the context, nothing read yet
    H.data
    b = H.is_diagonal()
print("inside eigenbasis_of(H): is_diagonal() before any read of H.data:", a, "| after:", b)
if a != b:
    print("DEFECT: the answer depends on whether the data were read before"); raise SystemExit(1)
print("OK")
