"""PureDephasing.convert_to("Gaussian") must convert a Lorentzian dephasing (FWHM-preserving), not silently do nothing.
run: cd /tmp && PYTHONPATH=/repo /venv/bin/python /verif/notes/repro/t02i.py"""
import numpy
from quantarhei.qm import PureDephasing
pd = PureDephasing(numpy.array([[0.0, 0.01], [0.01, 0.0]]), dtype="Lorentzian")
pd.convert_to("Gaussian")
print("dtype after convert_to('Gaussian'):", pd.dtype, " rate:", pd.data[0, 1])
raise SystemExit(0 if pd.dtype == "Gaussian" else 1)
