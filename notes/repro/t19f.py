# C19: trim_to() saves only the type half of the data flag.  A pathway view [type, tag] in force before the call
# reads the sum of all pathways of the type after it.
import sys, warnings, numpy
warnings.filterwarnings("ignore")
import quantarhei as qr
from quantarhei.spectroscopy.twod2 import TwoDResponse
r = TwoDResponse()
r.set_axis_1(qr.FrequencyAxis(0.0, 10, 1.0)); r.set_axis_3(qr.FrequencyAxis(0.0, 10, 1.0))
A = numpy.arange(100.).reshape(10, 10); B = 1000.0*numpy.ones((10, 10))
r._add_data(A, resolution="pathways", dtype="R1g", tag="a")
r._add_data(B, resolution="pathways", dtype="R1g", tag="b")
r.set_data_flag(["R1g", "a"])
before = numpy.real(r.d__data[3, 3])
r.trim_to(window=[3.0, 5.0, 3.0, 5.0])
after = numpy.real(r.d__data[0, 0])
flag_after = (r.current_dtype, r.current_tag)
r.set_data_flag(["R1g", "a"])
expected = numpy.real(r.d__data[0, 0])
print("pathway view R1g/a, first point of the trimmed window: read through the flag left by trim_to %.1f, pathway a holds %.1f; "
      "flag after trim_to: %s/%s" % (after, expected, flag_after[0], flag_after[1]))
print("PROPERTY: every view read back equals the sum of its additions")
sys.exit(0 if after == expected else 1)
