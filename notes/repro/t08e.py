# triage script (not a check): EvolutionSuperOperator.at / apply at a time that is a point of a 0.1 fs grid
import numpy, quantarhei as qr
from quantarhei import TestAggregate
agg = TestAggregate("dimer-2-env"); agg.build()
H = agg.get_Hamiltonian(); sbi = agg.get_SystemBathInteraction()
ta = qr.TimeAxis(0.0, 60, 0.1)
rt = qr.qm.RedfieldRelaxationTensor(H, sbi)
U = qr.qm.EvolutionSuperOperator(ta, H, rt); U.set_dense_dt(1); U.calculate(show_progress=False)
bad = [k for k in range(60) if numpy.max(numpy.abs(U.at(ta.data[k]).data - U.data[k])) > 1e-12]
print("grid times at which at(t_k) is not the stored U(t_k):", bad)
