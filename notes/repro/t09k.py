# C09: accessors of the component dictionaries; adding a function to itself through add_to_data
import sys, warnings, numpy, threading
warnings.filterwarnings("ignore")
import quantarhei as qr
ta = qr.TimeAxis(0.0, 500, 1.0)
bad = 0
with qr.energy_units("1/cm"):
    cf = qr.CorrelationFunction(ta, dict(ftype="OverdampedBrownian", reorg=20, cortime=100, T=300))
    sd = qr.SpectralDensity(ta, dict(ftype="OverdampedBrownian", reorg=20, cortime=100, T=300))
for what, call in (("CorrelationFunction.get_correlation_time()", cf.get_correlation_time),
                   ("CorrelationFunction.is_analytical()", cf.is_analytical), ("SpectralDensity.is_analytical()", sd.is_analytical)):
    try:
        print("%-45s -> %s" % (what, call()))
    except Exception as e:
        print("%-45s raises %s: %s" % (what, type(e).__name__, e)); bad += 1
for nm, f in (("CorrelationFunction", cf), ("SpectralDensity", sd)):
    d0 = f.data.copy(); l0 = f.lamb
    th = threading.Thread(target=f.add_to_data, args=(f,), daemon=True)
    th.start(); th.join(5.0)
    if th.is_alive():
        print("%s.add_to_data(itself) has not returned after 5 s (components: %d and growing)" % (nm, len(f.params))); bad += 1
    else:
        ok = numpy.allclose(f.data, 2*d0) and abs(f.lamb - 2*l0) < 1e-12 and len(f.params) == 2
        print("%s.add_to_data(itself): data doubled, reorganisation energy doubled, 2 components: %s" % (nm, ok)); bad += (not ok)
sys.stdout.flush()
import os; os._exit(1 if bad else 0)
