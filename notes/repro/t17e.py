# C17: RateMatrix.set_data (inherited from MatrixData) keeps the caller's array and its element type
import sys, warnings, numpy
warnings.filterwarnings("ignore")
from quantarhei.qm.liouvillespace.rates.ratematrix import RateMatrix
RM = RateMatrix(dim=2)
A = numpy.zeros((2, 2), dtype=int)
RM.set_data(A)
RM.set_rate((0, 1), 0.5)
print("after set_data(integer zeros) and set_rate((0,1), 0.5): data =", RM.data.tolist(), "; the caller's array:", A.tolist())
print("PROPERTY: a rate matrix keeps the assigned off-diagonal values and zero column sums")
sys.exit(0 if RM.data[0, 1] == 0.5 and RM.data[1, 1] == -0.5 and not A.any() else 1)
