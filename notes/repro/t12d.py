# triage script (not a check): line-shape look-ups for the 1 -> 2 exciton transition of an uncoupled dimer
import numpy, quantarhei as qr
with qr.energy_units("1/cm"):
    m1 = qr.Molecule([0.0, 12000.0]); m2 = qr.Molecule([0.0, 12300.0])
m1.set_transition_width((0, 1), 0.01); m2.set_transition_width((0, 1), 0.02)
m1.set_transition_dephasing((0, 1), 0.01); m2.set_transition_dephasing((0, 1), 0.03)
m1.set_dipole(0, 1, [1.0, 0, 0]); m2.set_dipole(0, 1, [0, 1.0, 0])
ag = qr.Aggregate([m1, m2]); ag.build(mult=2); ag.diagonalize()
# states: 0 = g, 1 = e1, 2 = e2, 3 = f (both excited)
for e in (1, 2):
    print("e=%d: width(f,e) = %.5f  dephasing(f,e) = %.5f   (other molecule: width %.5f, dephasing %.5f)" % (
        e, ag.get_transition_width((3, e)), ag.get_transition_dephasing((3, e)),
        ag.get_transition_width((3 - e, 0)), ag.get_transition_dephasing((3 - e, 0))))
