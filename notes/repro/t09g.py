# triage script (not a check): Fourier transform object of a composite correlation function
import numpy, quantarhei as qr
ta = qr.TimeAxis(0.0, 2000, 1.0)
with qr.energy_units("1/cm"):
    a = qr.CorrelationFunction(ta, dict(ftype="OverdampedBrownian", reorg=30.0, cortime=100.0, T=300, matsubara=20))
    b = qr.CorrelationFunction(ta, dict(ftype="OverdampedBrownian", reorg=50.0, cortime=50.0, T=300, matsubara=20))
    c = a + b
fa, fb, fc = a.get_FTCorrelationFunction(), b.get_FTCorrelationFunction(), c.get_FTCorrelationFunction()
print("FT(a+b) - (FT a + FT b): max", numpy.max(numpy.abs(fc.data - fa.data - fb.data)), "  FT(a+b) - FT b: max", numpy.max(numpy.abs(fc.data - fb.data)), " scale", numpy.max(numpy.abs(fa.data)))
oa, ob, oc = a.get_OddFTCorrelationFunction(), b.get_OddFTCorrelationFunction(), c.get_OddFTCorrelationFunction()
print("odd part: FT(a+b) - (FT a + FT b): max", numpy.max(numpy.abs(oc.data - oa.data - ob.data)))
