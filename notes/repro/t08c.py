# triage script (not a check): EvolutionSuperOperator.apply at times given as tuple / array / other TimeAxis
import numpy, quantarhei as qr
from quantarhei import TestAggregate
agg = TestAggregate("dimer-2-env"); agg.build()
H = agg.get_Hamiltonian(); sbi = agg.get_SystemBathInteraction()
ta = qr.TimeAxis(0.0, 11, 10.0)
rt = qr.qm.RedfieldRelaxationTensor(H, sbi)
U = qr.qm.EvolutionSuperOperator(ta, H, rt); U.set_dense_dt(10); U.calculate(show_progress=False)
rho = qr.ReducedDensityMatrix(dim=H.dim); rho.data[1,1] = 1.0
for name, t in (("list", [0.0, 10.0, 20.0]), ("tuple", (0.0, 10.0, 20.0)), ("ndarray", numpy.array([0.0, 10.0, 20.0])),
                ("TimeAxis", qr.TimeAxis(0.0, 3, 10.0))):
    try:
        r = U.apply(t, rho)
        print(name, "ok", r.data.shape)
    except Exception as e:
        print(name, type(e).__name__, str(e)[:80])
