# unsaved jit: convert_from_RWA at the current time agrees with the saved jit result
import numpy, quantarhei as qr
with qr.energy_units("1/cm"):
    H = qr.Hamiltonian(data=[[0.0,0,0],[0,12000.0,100.0],[0,100.0,12200.0]])
H.set_rwa([0,1])
ops=[qr.qm.ProjectionOperator(1,2,dim=3)]; rates=[1/200.0]
sbi = qr.qm.SystemBathInteraction(sys_operators=ops, rates=rates)
L = qr.qm.LindbladForm(H, sbi, as_operators=False)
t = qr.TimeAxis(0.0, 6, 10.0)
a = qr.qm.EvolutionSuperOperator(t, H, L, mode="jit"); a.set_dense_dt(10)
b = qr.qm.EvolutionSuperOperator(t, H, L, mode="jit"); b.set_dense_dt(10)
for k in range(3):
    a.calculate_next(save=True); b.calculate_next(save=False)
a.convert_from_RWA(); b.convert_from_RWA()
print("flags", a.is_in_rwa, b.is_in_rwa, "diff", numpy.max(numpy.abs(a.data[3]-b.data)))
