# triage script (not a check): the block recorded for later collection, serial path of block_distributed_range
import quantarhei as qr
from quantarhei.core.parallel import block_distributed_range, block_distributed_list
qr.start_parallel_region()
cfg = qr.Manager().get_DistributedConfiguration()
lst = block_distributed_list(list(range(7)))
r = block_distributed_range(2, 5)
print("block handed out:", list(r), " block recorded for collection:", getattr(cfg, "range", None))
qr.close_parallel_region()
