# triage script (not a check): result of SuperOperator.apply(copy=True) made inside a basis context
import numpy, quantarhei as qr
from quantarhei.qm import SuperOperator
H = qr.Hamiltonian(data=[[0.0, 0.3],[0.3, 1.0]])
S = SuperOperator(dim=2, real=False)
S.data = numpy.zeros((2,2,2,2), dtype=complex)
for a in range(2):
    for b in range(2):
        S.data[a,b,a,b] = 1.0        # identity map
with qr.eigenbasis_of(H):
    r = qr.ReducedDensityMatrix(data=[[0.7, 0.1],[0.1, 0.3]])
    r2 = S.apply(r)
try:
    print("copy read outside the context:", r2.data.tolist(), " original:", r.data.tolist())
except Exception as e:
    print("reading the copy outside the context:", type(e).__name__, e)
