# triage script (not a check): the hierarchy propagates in the rotating frame; is its result marked?
import numpy, quantarhei as qr
from quantarhei import TestAggregate
agg = TestAggregate("dimer-2-env")
with qr.energy_units("1/cm"):
    agg.set_resonance_coupling(0, 1, 50.0)
agg.build()
H = agg.get_Hamiltonian(); sbi = agg.get_SystemBathInteraction()
H.set_rwa([0, 1])
ta = qr.TimeAxis(0.0, 200, 1.0)
hy = qr.KTHierarchy(H, sbi, 2)
pr = qr.KTHierarchyPropagator(ta, hy)
r0 = qr.ReducedDensityMatrix(dim=H.dim); r0.data[:] = 1.0/3.0
rt = pr.propagate(r0)
print("result marked as being in the rotating frame:", rt.is_in_rwa)
before = numpy.array(rt.data[50, 0, 1])
rt.convert_from_RWA(H)
print("optical coherence rho[0,1](t=50) before / after convert_from_RWA:", before, rt.data[50, 0, 1])
