# triage script (not a check): Redfield tensor of a mult=2 aggregate against mult=1 and the rate matrix
import numpy, quantarhei as qr
from quantarhei import TestAggregate
from quantarhei.qm import RedfieldRelaxationTensor, TDRedfieldRelaxationTensor
res = {}
for mult in (1, 2):
    agg = TestAggregate("trimer-2-env"); agg.set_coupling_by_dipole_dipole(); agg.build(mult=mult)
    ham = agg.get_Hamiltonian(); sbi = agg.get_SystemBathInteraction()
    RT = RedfieldRelaxationTensor(ham, sbi); TD = TDRedfieldRelaxationTensor(ham, sbi)
    RM = agg.get_RedfieldRateMatrix()
    res[mult] = (numpy.array(RT.data), numpy.array(TD.data[-1]), numpy.array(RM.data), ham.dim)
n = res[1][3]
print("dims", res[1][3], res[2][3])
print("one-exciton block of the mult=2 tensor vs mult=1 tensor:", numpy.max(numpy.abs(res[2][0][:n,:n,:n,:n] - res[1][0])))
print("TD(last) vs TI, mult=2:", numpy.max(numpy.abs(res[2][1] - res[2][0])))
K = res[2][2]; R = res[2][0]
with qr.eigenbasis_of(ham):
    pass
pop = numpy.einsum("aabb->ab", numpy.real(R))
print("trace identity:", numpy.max(numpy.abs(numpy.einsum("aacd->cd", R))), " max |R| =", numpy.max(numpy.abs(R)))
