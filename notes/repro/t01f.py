# C01: initialize() does not clear is_secular: secularize() after a recalculation does nothing
import sys, warnings, numpy
warnings.filterwarnings("ignore")
import quantarhei as qr
from quantarhei.qm import RedfieldRelaxationTensor
ta = qr.TimeAxis(0.0, 1000, 1.0)
with qr.energy_units("1/cm"):
    m1 = qr.Molecule([0.0, 12000.0]); m2 = qr.Molecule([0.0, 12200.0])
    cf = qr.CorrelationFunction(ta, dict(ftype="OverdampedBrownian", reorg=30, cortime=100, T=300, matsubara=20))
    m1.set_transition_environment((0,1), cf); m2.set_transition_environment((0,1), cf)
    agg = qr.Aggregate([m1, m2]); agg.set_resonance_coupling(0, 1, 80.0)
agg.build()
ham = agg.get_Hamiltonian(); sbi = agg.get_SystemBathInteraction()
def nonsecular(R):
    d = R.data; N = d.shape[0]; mx = 0.0
    for a in range(N):
        for b in range(N):
            for c in range(N):
                for e in range(N):
                    if not ((a == b and c == e) or (a == c and b == e)):
                        mx = max(mx, abs(d[a,b,c,e]))
    return mx
R = RedfieldRelaxationTensor(ham, sbi)          # (built outside of any basis context)
with qr.eigenbasis_of(ham):
    before = nonsecular(R)
    R.secularize(legacy=False)
    first = nonsecular(R)
R.initialize()
with qr.eigenbasis_of(ham):
    R.secularize(legacy=False)
    second = nonsecular(R)
print("largest non-secular element of the tensor as calculated: %.2e" % before)
print("largest non-secular element after secularize(): %.2e; after initialize() and secularize() again: %.2e (is_secular = %s)"
      % (first, second, R.is_secular))
print("PROPERTY: secularization sets every element but R[a,a,b,b] and R[a,b,a,b] to zero")
sys.exit(0 if second == 0.0 else 1)
