# C04: TransitionDipoleMoment.get_component(n) inside a basis context returns an operator on a view of the stored array
import sys, warnings, numpy
warnings.filterwarnings("ignore")
import quantarhei as qr
from quantarhei.qm import TransitionDipoleMoment
H = qr.Hamiltonian(data=[[0.0, 0.3, 0.1], [0.3, 1.0, 0.2], [0.1, 0.2, 1.5]])
d = numpy.zeros((3, 3, 3)); d[0, 1, 0] = d[1, 0, 0] = 1.0; d[0, 2, 0] = d[2, 0, 0] = 0.5; d[1, 2, 1] = d[2, 1, 1] = 0.7
dm = TransitionDipoleMoment(data=d.copy())
with qr.eigenbasis_of(H):
    c = dm.get_component(0)
dev_c = numpy.abs(c.data - d[:, :, 0]).max(); dev_dm = numpy.abs(dm.data - d).max()
print("after the context: component created inside differs from the x component by %.3e; the dipole moment itself by %.3e" % (dev_c, dev_dm))
print("PROPERTY: after the context every object, including objects created inside, is back in its original representation")
sys.exit(0 if dev_c < 1e-12 and dev_dm < 1e-12 else 1)
