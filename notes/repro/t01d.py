# triage script (not a check): time-dependent combined Redfield-Foerster tensor with a coupling cut-off
import numpy, quantarhei as qr
from quantarhei import TestAggregate
agg = TestAggregate("trimer-2-env"); agg.set_coupling_by_dipole_dipole(); agg.build()
try:
    with qr.energy_units("1/cm"):
        RT, ham = agg.get_RelaxationTensor(agg.sbi.TimeAxis, relaxation_theory="combined_RedfieldFoerster",
                                           time_dependent=True, coupling_cutoff=20.0)
    d = RT.data
    tr = numpy.max(numpy.abs(numpy.einsum("taacd->tcd", d)))
    print("built", d.shape, "max |sum_a R[t,a,a,c,d]| =", tr)
except Exception as e:
    import traceback; traceback.print_exc()
