"""C01-K: RelaxationTensor.updateStructure() ('recalculates dephasing and depopulation rates') is not idempotent:
a second call doubles the depopulation rates and the tensor no longer preserves the trace."""
import numpy
import quantarhei as qr

ta = qr.TimeAxis(0.0, 1000, 1.0)
with qr.energy_units("1/cm"):
    cf = qr.CorrelationFunction(ta, dict(ftype="OverdampedBrownian", reorg=30.0, cortime=100.0, T=300))
    m1 = qr.Molecule([0.0, 12000.0]); m2 = qr.Molecule([0.0, 12200.0])
m1.set_transition_environment((0, 1), cf); m2.set_transition_environment((0, 1), cf)
agg = qr.Aggregate([m1, m2])
with qr.energy_units("1/cm"):
    agg.set_resonance_coupling(0, 1, 10.0)
agg.build()
RT, ham = agg.get_RelaxationTensor(ta, relaxation_theory="standard_Foerster")
def colsum(R):
    d = R._data
    return max(abs(sum(d[a, a, n, n] for a in range(d.shape[0]))) for n in range(d.shape[0]))
s0 = colsum(RT)
RT.updateStructure()
s1 = colsum(RT)
print("largest |sum_a R[a,a,n,n]|: as built %.3e, after one more updateStructure() %.3e" % (s0, s1))
if s1 > 1e-12:
    print("DEFECT: recalculating the structure breaks trace preservation"); raise SystemExit(1)
print("OK")
