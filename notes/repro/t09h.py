# triage script (not a check): getters that write into stored parameters / share them
import numpy, quantarhei as qr
ta = qr.TimeAxis(0.0, 1000, 1.0)
p300 = dict(ftype="OverdampedBrownian", reorg=30.0, cortime=100.0, T=300)
p100 = dict(ftype="OverdampedBrownian", reorg=20.0, cortime=50.0, T=100)
with qr.energy_units("1/cm"):
    s = qr.SpectralDensity(ta, dict(p300)) + qr.SpectralDensity(ta, dict(p100))
for k in (1, 2):
    try:
        c = s.get_CorrelationFunction()
        print("call", k, ": returned a correlation function at T =", c.temperature, " stored temperatures:", [p["T"] for p in s.params])
    except Exception as e:
        print("call", k, ": refused (", str(e)[:40], ") stored temperatures now:", [p["T"] for p in s.params])
with qr.energy_units("1/cm"):
    a = qr.CorrelationFunction(ta, dict(p300)); b = qr.CorrelationFunction(ta, dict(p300, reorg=50.0))
sd = a.get_SpectralDensity()
n0 = len(a.params)
sd += b.get_SpectralDensity()
print("components recorded on the correlation function before / after adding to ITS spectral density:", n0, len(a.params))
