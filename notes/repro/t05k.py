"""Hamiltonian.diagonalize() inside energy_units: the stored energies must stay the same physical values.
run: cd /tmp && PYTHONPATH=/repo /venv/bin/python /verif/notes/repro/t05k.py"""
import numpy, quantarhei as qr
bad = 0
with qr.energy_units("1/cm"):
    H1 = qr.Hamiltonian(data=[[0.0, 0.0, 0.0], [0.0, 12000.0, 100.0], [0.0, 100.0, 12200.0]])
    H2 = qr.Hamiltonian(data=[[0.0, 0.0, 0.0], [0.0, 12000.0, 100.0], [0.0, 100.0, 12200.0]])
H1.diagonalize()
with qr.energy_units("1/cm"):
    H2.diagonalize()
    e1 = numpy.diag(H1.data).copy(); e2 = numpy.diag(H2.data).copy()
print("eigenvalues [1/cm], diagonalized outside a units context:", e1)
print("eigenvalues [1/cm], diagonalized inside energy_units('1/cm'):", e2)
bad += not numpy.allclose(e1, e2)
with qr.energy_units("1/cm"):
    H3 = qr.Hamiltonian(data=[[0.0, 0.0, 0.0], [0.0, 12000.0, 100.0], [0.0, 100.0, 12200.0]])
    SS, JR = H3.diagonalize(coupling_cutoff=50.0)
    e3 = numpy.diag(H3.data).copy()
print("eigenvalues [1/cm], diagonalize(coupling_cutoff=50):", e3)
bad += not numpy.allclose(e1, e3)
print("VIOLATION" if bad else "ok")
raise SystemExit(1 if bad else 0)
