# triage script (not a check): ownership of arrays stored in / handed out by a TwoDResponse
import numpy, quantarhei as qr
from quantarhei.spectroscopy.twod2 import TwoDResponse
from quantarhei import signal_REPH, signal_NONR, signal_TOTL
x = qr.FrequencyAxis(0.0, 4, 1.0)
def fresh():
    r = TwoDResponse(); r.set_axis_1(x); r.set_axis_3(x); r.set_resolution("signals"); return r
# (1) the caller's array is stored by reference
r = fresh(); a = numpy.ones((4, 4), dtype=complex)
r._add_data(a, dtype=signal_REPH); r._add_data(a, dtype=signal_NONR)
r.set_data_flag(signal_TOTL); before = numpy.array(r.d__data)
a[:, :] = 5.0
r.set_data_flag(signal_TOTL); print("(1) total before/after the caller changes its array:", before[0, 0], r.d__data[0, 0])
# (2) devide_by with one array stored under two signals
r = fresh(); a = numpy.ones((4, 4), dtype=complex)*8.0
r._add_data(a, dtype=signal_REPH); r._add_data(a, dtype=signal_NONR)
r.devide_by(2.0); r.set_data_flag(signal_TOTL); print("(2) total after devide_by(2): expected 8, got", r.d__data[0, 0])
# (3) the spectrum handed out shares memory with the storage
r = fresh(); r._add_data(numpy.ones((4, 4), dtype=complex), dtype=signal_REPH)
sp = r.get_TwoDSpectrum(dtype=signal_REPH); sp.add_data(numpy.ones((4, 4), dtype=complex))
r.set_data_flag(signal_REPH); print("(3) stored rephasing after adding to the returned spectrum: expected 1, got", r.d__data[0, 0])
