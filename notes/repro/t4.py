import numpy, warnings
warnings.filterwarnings("ignore")
import quantarhei as qr
time = qr.TimeAxis(0.0, 1000, 1.0)
with qr.energy_units("1/cm"):
    a = qr.CorrelationFunction(time, dict(ftype="OverdampedBrownian", reorg=30.0, cortime=60.0, T=300, matsubara=20))
    b = qr.CorrelationFunction(time, dict(ftype="OverdampedBrownian-HighTemperature", reorg=20.0, cortime=100.0, T=300))
    c = qr.CorrelationFunction(time, dict(ftype="OverdampedBrownian", reorg=10.0, cortime=30.0, T=300, matsubara=20))
s = a.data+b.data+c.data
ab = a+b
print("a+b ok", numpy.max(numpy.abs(ab.data-(a.data+b.data))))
abc = (a+b)+c
print("(a+b)+c diff", numpy.max(numpy.abs(abc.data-s)), "scale", numpy.max(numpy.abs(s)))
abc2 = a+(b+c)
print("a+(b+c) diff", numpy.max(numpy.abs(abc2.data-s)))
print("lamb", abc.lamb, a.lamb+b.lamb+c.lamb)
# C14
with qr.energy_units("1/cm"):
    m1 = qr.Molecule([0.0, 10000.0]); m2 = qr.Molecule([0.0, 10300.0])
    for mm in (m1,m2): mm.set_transition_environment((0,1), a)
    agg = qr.Aggregate([m1,m2]); agg.set_resonance_coupling(0,1,80.0)
agg.build()
for T in (0.0, 1.0, 5.0, 20.0, 300.0):
    for lim in ("strong_coupling","weak_coupling"):
        try:
            r = agg.get_DensityMatrix(condition_type="thermal_excited_state", relaxation_theory_limit=lim, temperature=T)
            print(T, lim, numpy.diag(r.data).real, "finite", numpy.all(numpy.isfinite(r.data)))
        except Exception as e:
            print(T, lim, "EXC", repr(e))
# weak coupling inside vs outside context
H = agg.get_Hamiltonian()
r_out = agg.get_DensityMatrix(condition_type="thermal_excited_state", relaxation_theory_limit="weak_coupling", temperature=300.0)
d_out = r_out.data.copy()
with qr.eigenbasis_of(H):
    r_in = agg.get_DensityMatrix(condition_type="thermal_excited_state", relaxation_theory_limit="weak_coupling", temperature=300.0)
    d_in_inside = r_in.data.copy()
d_in = r_in.data.copy()
print("out-site", numpy.round(d_out.real,4))
print("in (seen inside)", numpy.round(d_in_inside.real,4))
print("in (seen outside)", numpy.round(d_in.real,4))
