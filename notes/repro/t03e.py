"""C03-I: diagonalize() after a rebuild must diagonalize the rebuilt (site basis) matrices.
run: cd /tmp && PYTHONPATH=/repo /venv/bin/python /verif/notes/repro/t03e.py"""
import numpy, quantarhei as qr
with qr.energy_units("1/cm"):
    m1 = qr.Molecule([0.0, 12000.0]); m2 = qr.Molecule([0.0, 12300.0])
    agg = qr.Aggregate([m1, m2]); agg.set_resonance_coupling(0, 1, 100.0)
agg.build(); agg.diagonalize()
with qr.energy_units("1/cm"):
    agg.set_resonance_coupling(0, 1, 300.0)
agg.build(); agg.diagonalize()
off = abs(agg.HH[1, 2])
print("after build -> diagonalize -> new coupling -> build -> diagonalize: off-diagonal element of HH = %.3e (required 0)" % off)
raise SystemExit(1 if off > 1e-12 else 0)
