# triage script (not a check): state-vector propagation in the rotating frame converted back
import numpy, quantarhei as qr
Hd = [[0.0, 0.0, 0.0], [0.0, 1.0, 0.1], [0.0, 0.1, 1.1]]
psi0 = numpy.array([0.6, 0.64, 0.48], dtype=complex)
for start in (0.0, 50.0):
    H1 = qr.Hamiltonian(data=Hd); H2 = qr.Hamiltonian(data=Hd); H2.set_rwa([0, 1])
    ta = qr.TimeAxis(start, 200, 0.1)
    p1 = qr.StateVectorPropagator(ta, H1).propagate(qr.StateVector(data=psi0.copy()))
    p2 = qr.StateVectorPropagator(ta, H2).propagate(qr.StateVector(data=psi0.copy()))
    print("is_in_rwa", getattr(p2, "is_in_rwa", None))
    p2.convert_from_RWA(H2)
    print("start", start, "max |lab - rwa converted back| =", numpy.max(numpy.abs(p1.data - p2.data)))
