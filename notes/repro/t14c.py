# triage script (not a check): strong-coupling thermal excited state inside / outside a basis context
import numpy, quantarhei as qr
from quantarhei import TestAggregate
agg = TestAggregate("trimer-2-env")
agg.build()
H = agg.get_Hamiltonian()
out = agg.get_DensityMatrix(condition_type="thermal_excited_state", relaxation_theory_limit="strong_coupling",
                            temperature=300.0)
d_out = numpy.array(out.data)
with qr.eigenbasis_of(H):
    ins = agg.get_DensityMatrix(condition_type="thermal_excited_state", relaxation_theory_limit="strong_coupling",
                                temperature=300.0)
d_in = numpy.array(ins.data)     # read in the site basis, after the context
print("max |inside - outside| =", numpy.max(numpy.abs(d_in - d_out)))
print(numpy.round(H.data[1:,1:], 4))
print(numpy.round(numpy.real(numpy.diag(d_out)), 4), numpy.round(numpy.real(numpy.diag(d_in)), 4))
print("offdiag out/in", numpy.max(numpy.abs(d_out - numpy.diag(numpy.diag(d_out)))), numpy.max(numpy.abs(d_in - numpy.diag(numpy.diag(d_in)))))
import quantarhei
m1 = qr.Molecule([0.0, 1.0]); m2 = qr.Molecule([0.0, 1.05]); m3 = qr.Molecule([0.0, 1.1])
ag = qr.Aggregate([m1, m2, m3]); ag.set_resonance_coupling(0, 1, 0.04); ag.set_resonance_coupling(1, 2, 0.03)
ag.build()
HH = ag.get_Hamiltonian()
a = numpy.array(ag.get_DensityMatrix(condition_type="thermal_excited_state", relaxation_theory_limit="strong_coupling",
                                     temperature=300.0, relaxation_hamiltonian=HH).data)
with qr.eigenbasis_of(HH):
    b_ = ag.get_DensityMatrix(condition_type="thermal_excited_state", relaxation_theory_limit="strong_coupling",
                             temperature=300.0, relaxation_hamiltonian=HH)
b = numpy.array(b_.data)
print("bare trimer: max |inside - outside| =", numpy.max(numpy.abs(a - b)))
