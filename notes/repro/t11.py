import numpy, warnings
warnings.filterwarnings("ignore")
import quantarhei as qr
time = qr.TimeAxis(0.0, 1000, 1.0)
with qr.energy_units("1/cm"):
    m1 = qr.Molecule([0.0, 10000.0]); m2 = qr.Molecule([0.0, 10100.0])
    cf = qr.CorrelationFunction(time, dict(ftype="OverdampedBrownian", reorg=20.0, cortime=100.0, T=300.0, matsubara=20))
    for m in (m1,m2): m.set_transition_environment((0,1), cf)
    agg = qr.Aggregate([m1,m2]); agg.set_resonance_coupling(0,1,50.0)
agg.build()
a = agg.get_DensityMatrix(condition_type="thermal_excited_state", relaxation_theory_limit="strong_coupling", temperature=300.0).data.copy()
with qr.energy_units("1/cm"):
    b = agg.get_DensityMatrix(condition_type="thermal_excited_state", relaxation_theory_limit="strong_coupling", temperature=300.0).data.copy()
print("outside ctx", numpy.diag(a).real, " inside 1/cm ctx", numpy.diag(b).real)
