# triage script (not a check): Foerster tensor with a cut-off time
import quantarhei as qr
from quantarhei.qm import FoersterRelaxationTensor
from quantarhei import TestAggregate
agg = TestAggregate("dimer-2-env")
agg.build()
ham = agg.get_Hamiltonian(); sbi = agg.get_SystemBathInteraction()
ham.protect_basis()
try:
    RT = FoersterRelaxationTensor(ham, sbi, cutoff_time=50.0)
    print("built; R[1,1,2,2] =", RT.data[1,1,2,2])
except Exception as e:
    print("FAILS:", type(e).__name__, e)
