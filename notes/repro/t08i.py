"""C08-P: step-by-step mode, value converted from the rotating frame between two steps."""
import numpy
import quantarhei as qr

with qr.energy_units("1/cm"):
    H = qr.Hamiltonian(data=[[0.0, 0.0, 0.0], [0.0, 12000.0, 100.0], [0.0, 100.0, 12200.0]])
H.set_rwa([0, 1])
K = qr.qm.ProjectionOperator(1, 2, dim=3)
sbi = qr.qm.SystemBathInteraction([K], rates=[1.0 / 200.0])
LF = qr.qm.LindbladForm(H, sbi)
time = qr.TimeAxis(0.0, 6, 5.0)
ref = qr.qm.EvolutionSuperOperator(time, H, relt=LF); ref.set_dense_dt(5); ref.calculate(show_progress=False); ref.convert_from_RWA()
worst = 0.0
for save in (False, True):
    U = qr.qm.EvolutionSuperOperator(time, H, relt=LF, mode="jit"); U.set_dense_dt(5)
    for k in range(1, 4):
        U.calculate_next(save=save)
        U.convert_from_RWA()                 # the user looks at the laboratory-frame value after every step
        val = U.data[k] if save else U.data
        d = numpy.max(numpy.abs(val - ref.data[k]))
        worst = max(worst, d)
        print("save=%s step %d: |U_step-by-step - U_all-at-once| = %.3e" % (save, k, d))
if worst > 1e-9:
    print("DEFECT: converting between steps changes the later values"); raise SystemExit(1)
print("OK")
