# C04: RelaxationTensor.__add__ / += adds the raw storages of the two tensors whatever bases they are in
import sys, warnings, numpy
warnings.filterwarnings("ignore")
import quantarhei as qr
from quantarhei.qm.liouvillespace.relaxationtensor import RelaxationTensor
rng = numpy.random.RandomState(1)
H = qr.Hamiltonian(data=[[0.0, 0.3, 0.1], [0.3, 1.0, 0.2], [0.1, 0.2, 1.5]])
A = rng.rand(3, 3, 3, 3) + 0j; B = rng.rand(3, 3, 3, 3) + 0j
def tensor(x):
    R = RelaxationTensor(); R.dim = 3; R.data = x.copy()
    return R
R1, R2 = tensor(A), tensor(B)
try:
    with qr.eigenbasis_of(H):
        _ = R1.data            # R1 is now in the eigenbasis, R2 has not been touched
        R1 += R2
    dev = numpy.abs(R1.data - (A + B)).max()
except Exception as e:
    print("raises", type(e).__name__, e); sys.exit(2)
print("after the context: R1 += R2 made inside differs from A + B by %.3e" % dev)
print("PROPERTY: basis-independent results are the same inside a context as outside")
sys.exit(0 if dev < 1e-12 else 1)
