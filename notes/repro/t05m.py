"""C05-U12 / C09-G: the interpolation splines of a function on a frequency axis are built in the units current at the
first spline call and kept: the same point asked for under other units gets another value."""
import numpy
import quantarhei as qr

with qr.energy_units("1/cm"):
    fa = qr.FrequencyAxis(10000.0, 200, 10.0)
    f = qr.DFunction(fa, numpy.cos((fa.data - 11000.0) / 300.0))
    a = f.at(11003.0, approx="spline")
x = qr.convert(11003.0, "1/cm", "int")
b = f.at(x, approx="spline")
print("value at 11003 1/cm: asked in 1/cm %.8f, asked in internal units %.8f" % (a, b))
if abs(a - b) > 1e-6:
    print("DEFECT: the value depends on the units in which the splines were first used"); raise SystemExit(1)
print("OK")
