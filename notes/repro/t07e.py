# triage script (not a check): deferred initialisation of a Redfield tensor inside a units context
import numpy, quantarhei as qr
from quantarhei import TestAggregate
from quantarhei.qm import RedfieldRelaxationTensor, TDRedfieldRelaxationTensor
def mk():
    agg = TestAggregate("dimer-2-env")
    with qr.energy_units("1/cm"):
        agg.set_resonance_coupling(0, 1, 30.0)
    agg.build()
    return agg.get_Hamiltonian(), agg.get_SystemBathInteraction()
for cls in (RedfieldRelaxationTensor, TDRedfieldRelaxationTensor):
    h, s = mk(); a = cls(h, s, initialize=False); a.initialize()
    h, s = mk(); b = cls(h, s, initialize=False)
    with qr.energy_units("1/cm"):
        b.initialize()
    print(cls.__name__, "max|data|", numpy.max(numpy.abs(a.data)), "max diff", numpy.max(numpy.abs(a.data - b.data)))
