"""C07-K: get_RelaxationTensor(..., relaxation_cutoff_time=T) - the time-independent Redfield tensor ignores the cut-off
that the time-dependent one honours: the last time index of the TD tensor is not the TI tensor 'built from the same inputs'."""
import numpy
import quantarhei as qr

ta = qr.TimeAxis(0.0, 1000, 1.0)
with qr.energy_units("1/cm"):
    cf = qr.CorrelationFunction(ta, dict(ftype="OverdampedBrownian", reorg=30.0, cortime=100.0, T=300))
    m1 = qr.Molecule([0.0, 12000.0]); m2 = qr.Molecule([0.0, 12200.0])
m1.set_transition_environment((0, 1), cf); m2.set_transition_environment((0, 1), cf)
agg = qr.Aggregate([m1, m2])
with qr.energy_units("1/cm"):
    agg.set_resonance_coupling(0, 1, 80.0)
agg.build()
out = {}
for cut in (None, 60.0):
    RT, ham = agg.get_RelaxationTensor(ta, relaxation_theory="standard_Redfield", time_dependent=False, relaxation_cutoff_time=cut)
    RD, ham2 = agg.get_RelaxationTensor(ta, relaxation_theory="standard_Redfield", time_dependent=True, relaxation_cutoff_time=cut)
    with qr.eigenbasis_of(ham):
        a = numpy.array(RT.data); b = numpy.array(RD.data[-1])
    out[cut] = numpy.max(numpy.abs(a - b)) / numpy.max(numpy.abs(a))
    print("cut-off %s: relative difference TD(last) vs TI = %.3e" % (cut, out[cut]))
if out[60.0] > 10 * max(out[None], 1e-12):
    print("DEFECT: with a cut-off time the time-independent tensor is not the limit of the time-dependent one"); raise SystemExit(1)
print("OK")
