"""C18-L(iii): data exported with their axis under energy_units("nm") come back on an axis whose step is garbage:
_set_axis_points hands the difference of two wavelengths to the units-managed setter of the step."""
import os, tempfile
import numpy
import quantarhei as qr
from quantarhei.spectroscopy.abs2 import AbsSpectrum

with qr.energy_units("1/cm"):
    ax = qr.FrequencyAxis(10000.0, 50, 10.0)
sp = AbsSpectrum(axis=ax, data=numpy.linspace(0.0, 1.0, 50))
d = tempfile.mkdtemp(); f = os.path.join(d, "a.dat")
step0 = ax.step
with qr.energy_units("nm"):
    sp.save_data(f)
    with qr.energy_units("1/cm"):
        ax2 = qr.FrequencyAxis(0.0, 50, 1.0)
    sp2 = AbsSpectrum(axis=ax2, data=numpy.zeros(50))
    sp2.load_data(f)
print("internal step before %.6g, after export and import under nm %.6g" % (step0, sp2.axis.step))
os.remove(f); os.rmdir(d)
if abs(sp2.axis.step - step0) > 1e-9 * abs(step0):
    print("DEFECT: the axis read back under 'nm' has another step"); raise SystemExit(1)
print("OK")
