"""C04-B15: a context that cannot be entered leaves the manager 'inside a basis context'."""
import numpy
import quantarhei as qr
from quantarhei.core.managers import Manager

m = Manager()
before = (m._in_eigenbasis_of_context, m.current_basis_operator, len(m.basis_stack))
A = qr.qm.Operator(data=[[0.0, 1.0], [0.0, 0.0]])      # not self-adjoint: no diagonalisation matrix
try:
    with qr.eigenbasis_of(A):
        pass
except Exception as e:
    print("refused:", type(e).__name__)
after = (m._in_eigenbasis_of_context, m.current_basis_operator, len(m.basis_stack))
print("manager before:", before); print("manager after :", after)
if before != after:
    print("DEFECT: the failed entry left the bookkeeping changed"); raise SystemExit(1)
print("OK")
