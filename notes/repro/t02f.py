# triage script (not a check): convert_from_RWA called inside a units context
import numpy, quantarhei as qr
def run(inside):
    with qr.energy_units("1/cm"):
        H = qr.Hamiltonian(data=[[0.0, 0.0, 0.0],[0.0, 12000.0, 100.0],[0.0, 100.0, 12200.0]])
    H.set_rwa([0, 1])
    ta = qr.TimeAxis(0.0, 200, 1.0)
    pr = qr.ReducedDensityMatrixPropagator(ta, H)
    r0 = qr.ReducedDensityMatrix(dim=3); r0.data[:] = 1.0/3
    rt = pr.propagate(r0)
    if inside:
        with qr.energy_units("1/cm"):
            rt.convert_from_RWA(H)
    else:
        rt.convert_from_RWA(H)
    return rt.data
a = run(False); b = run(True)
print("RDM evolution convert_from_RWA outside vs inside 1/cm: max diff", numpy.max(numpy.abs(a-b)))
def runsv(inside):
    with qr.energy_units("1/cm"):
        H = qr.Hamiltonian(data=[[0.0, 0.0, 0.0],[0.0, 12000.0, 100.0],[0.0, 100.0, 12200.0]])
    H.set_rwa([0, 1])
    ta = qr.TimeAxis(0.0, 200, 1.0)
    pr = qr.StateVectorPropagator(ta, H)
    v = qr.StateVector(3); v.data[:] = 1.0/numpy.sqrt(3)
    vt = pr.propagate(v)
    if inside:
        with qr.energy_units("1/cm"):
            vt.convert_from_RWA(H)
    else:
        vt.convert_from_RWA(H)
    return vt.data
a = runsv(False); b = runsv(True)
print("SV evolution convert_from_RWA outside vs inside 1/cm: max diff", numpy.max(numpy.abs(a-b)))
