import numpy, warnings
warnings.filterwarnings("ignore")
import quantarhei as qr
A = qr.qm.SelfAdjointOperator(data=[[0.0,1.0],[1.0,0.5]])
try:
    with qr.eigenbasis_of(A):
        v = qr.qm.StateVector(data=numpy.array([1.0,0.0]))
        print("inside", v.data)
    print("outside", v.data)
except Exception as e:
    print("StateVector in ctx EXC", repr(e))
print(qr.Manager().basis_stack, qr.Manager()._in_eigenbasis_of_context)
# DensityMatrixEvolution created inside
t = qr.TimeAxis(0.0,3,1.0)
rho = qr.ReducedDensityMatrix(data=[[1.0,0.0],[0.0,0.0]])
with qr.eigenbasis_of(A):
    r_in = rho.data.copy()
    ev = qr.qm.ReducedDensityMatrixEvolution(t, rho)
    print("ev basis", ev.get_current_basis(), numpy.allclose(ev.data[0], r_in))
print("after", numpy.allclose(ev.data[0], rho.data), ev.get_current_basis())
