import numpy, quantarhei as qr, scipy.linalg
H = numpy.array([[0.0, 0.1], [0.1, 1.0]])
H2 = qr.Hamiltonian(data=H.copy()); H2.set_rwa([0, 1])
print("rwa skeleton", H2.get_RWA_skeleton(), "rwa data", H2.get_RWA_data())
ta = qr.TimeAxis(0.0, 200, 0.1)
rho0 = numpy.array([[0.5, 0.3], [0.3, 0.5]], dtype=complex)
prop = qr.ReducedDensityMatrixPropagator(ta, H2)
r2 = prop.propagate(qr.ReducedDensityMatrix(data=rho0.copy()))
print("is_in_rwa after propagate:", r2.is_in_rwa)
raw = numpy.array(r2.data)
t = ta.data[-1]
U = scipy.linalg.expm(-1j*H*t); exact = U @ rho0 @ U.conj().T
print("exact vs returned data        ", numpy.max(numpy.abs(exact - raw[-1])))
r2.convert_from_RWA(H2)
print("exact vs converted            ", numpy.max(numpy.abs(exact - r2.data[-1])))
Om = numpy.diag(H2.get_RWA_skeleton())
Ur = scipy.linalg.expm(-1j*(H-Om)*t); rw = Ur @ rho0 @ Ur.conj().T
print("exact RWA-frame vs returned   ", numpy.max(numpy.abs(rw - raw[-1])))
