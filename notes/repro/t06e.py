# triage script (not a check): Foerster rate matrix built inside a units context
import numpy, quantarhei as qr
from quantarhei import TestAggregate
from quantarhei.qm.liouvillespace.rates.foersterrates import FoersterRateMatrix
agg = TestAggregate("dimer-2-env")
with qr.energy_units("1/cm"):
    agg.set_resonance_coupling(0, 1, 30.0)
agg.build()
ham = agg.get_Hamiltonian(); sbi = agg.get_SystemBathInteraction()
r0 = FoersterRateMatrix(ham, sbi).data
with qr.energy_units("1/cm"):
    r1 = FoersterRateMatrix(ham, sbi).data
numpy.set_printoptions(precision=6, suppress=False)
print("outside:\n", r0, "\ninside 1/cm context:\n", r1)
