# triage script (not a check): Underdamped / CP29 spectral densities given in 1/cm
import numpy, quantarhei as qr
from quantarhei.qm.corfunctions import SpectralDensity
ta = qr.TimeAxis(0.0, 1000, 1.0)
fa = ta.get_FrequencyAxis()
out = {}
for units in ("1/cm", "int"):
    with qr.energy_units(units):
        f = qr.convert(1.0, "1/cm", units) if units != "1/cm" else 1.0
        for ftype, extra in (("Underdamped", dict(freq=500.0*f, gamma=30.0*f)), ("CP29", {}),
                             ("OverdampedBrownian", dict(cortime=100.0))):
            p = dict(ftype=ftype, reorg=50.0*f, T=300.0, **extra)
            sd = SpectralDensity(fa, p)
            out[(ftype, units)] = (sd.lamb, numpy.array(sd.data))
for ftype in ("Underdamped", "CP29", "OverdampedBrownian"):
    a, b = out[(ftype, "1/cm")], out[(ftype, "int")]
    print(ftype, "stored reorg (1/cm input, int input):", a[0], b[0], "same data:", numpy.allclose(a[1], b[1]))
