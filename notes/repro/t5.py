import numpy, warnings, io, os, tempfile
warnings.filterwarnings("ignore")
import quantarhei as qr
# C15 HEOM
with qr.energy_units("1/cm"):
    m1 = qr.Molecule([0.0, 10000.0]); m2 = qr.Molecule([0.0, 10000.0])
agg = qr.Aggregate([m1, m2])
with qr.energy_units("1/cm"):
    agg.set_resonance_coupling(0,1,80.0)
agg.build()
ham = agg.get_Hamiltonian()
sbi = qr.qm.TestSystemBathInteraction("dimer-2-env")
from quantarhei.qm.liouvillespace.heom import KTHierarchy, KTHierarchyPropagator
Hy = KTHierarchy(ham, sbi, 3)
rhoi = qr.ReducedDensityMatrix(dim=ham.dim); rhoi.data[2,2] = 1.0
time = qr.TimeAxis(0.0, 200, 1.0)
kprop = KTHierarchyPropagator(time, Hy)
r1 = kprop.propagate(rhoi).data.copy()
r2 = kprop.propagate(rhoi).data.copy()
print("HEOM repeat diff", numpy.max(numpy.abs(r1-r2)))
print("HEOM trace dev", numpy.max(numpy.abs(numpy.trace(r1,axis1=1,axis2=2)-1)), "herm", numpy.max(numpy.abs(r1-numpy.conj(numpy.transpose(r1,(0,2,1))))))
# C15 Nref
HH = qr.Hamiltonian(data=[[0.0,0.1],[0.1,0.3]])
t = qr.TimeAxis(0.0,50,1.0)
pr = qr.ReducedDensityMatrixPropagator(t, HH)
rho = qr.ReducedDensityMatrix(data=[[1.0,0.0],[0.0,0.0]])
a = pr.propagate(rho).data.copy(); pr.propagate(rho, Nref=20); b = pr.propagate(rho).data.copy()
print("Nref history diff", numpy.max(numpy.abs(a-b)))
# C18 save in basis ctx
A = qr.qm.SelfAdjointOperator(data=[[0.0,1.0],[1.0,0.5]])
B = qr.qm.SelfAdjointOperator(data=[[1.0,0.2],[0.2,2.0]])
td = tempfile.mkdtemp()
with qr.eigenbasis_of(A):
    _ = B.data
    B.save(os.path.join(td,"b.qrp"))
B2 = qr.load_parcel(os.path.join(td,"b.qrp"))
try:
    print("loaded", B2.data, "orig", B.data)
except Exception as e:
    print("C18 load EXC", repr(e))
# C18 npz with axis
from quantarhei.spectroscopy.abs2 import AbsSpectrum
fa = qr.FrequencyAxis(0.0, 10, 0.1)
sp = AbsSpectrum(axis=fa, data=numpy.arange(10.0))
for ext in (".dat",".npy",".npz",".mat"):
    fn = os.path.join(td,"s"+ext)
    try:
        sp.save_data(fn, with_axis=fa)
        sp2 = AbsSpectrum(axis=qr.FrequencyAxis(0.0,10,0.1))
        sp2.load_data(fn, with_axis=sp2.axis)
        print(ext, "axis ok", numpy.allclose(sp2.data, sp.data), sp2.data.shape)
    except Exception as e:
        print(ext, "with axis EXC", repr(e))
    try:
        fn = os.path.join(td,"t"+ext)
        sp.save_data(fn)
        sp2 = AbsSpectrum(axis=qr.FrequencyAxis(0.0,10,0.1))
        sp2.load_data(fn)
        print(ext, "noaxis ok", numpy.allclose(numpy.squeeze(sp2.data), sp.data), sp2.data.shape)
    except Exception as e:
        print(ext, "no axis EXC", repr(e))
