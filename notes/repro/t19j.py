"""C19-K: the container of rephasing views says it holds the total signal."""
import numpy
import quantarhei as qr
from quantarhei.spectroscopy.twod2 import TwoDResponse
from quantarhei.spectroscopy.twodcontainer import TwoDResponseContainer

t2 = qr.TimeAxis(0.0, 2, 10.0)
cont = TwoDResponseContainer(t2axis=t2)
for t in t2.data:
    r = TwoDResponse()
    r.set_axis_1(qr.FrequencyAxis(0.0, 4, 1.0)); r.set_axis_3(qr.FrequencyAxis(0.0, 4, 1.0))
    r._add_data(numpy.ones((4, 4), dtype=complex), resolution="signals", dtype=qr.signal_REPH)
    r._add_data(2 * numpy.ones((4, 4), dtype=complex), resolution="signals", dtype=qr.signal_NONR)
    cont.set_spectrum(r, tag=t)
c2 = cont.get_TwoDSpectrumContainer(stype=qr.signal_REPH)
sp = c2.get_spectrum(0.0)
print("container says:", c2.dtype, "| its spectra say:", sp.dtype, "| value", sp.data[0, 0])
if c2.dtype != qr.signal_REPH:
    print("DEFECT: the container of rephasing views is labelled", c2.dtype); raise SystemExit(1)
print("OK")
