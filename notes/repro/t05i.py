# triage script (not a check): set_diabatic_coupling writes the converted value into the caller's list
import quantarhei as qr
with qr.energy_units("1/cm"):
    m = qr.Molecule([0.0, 10000.0, 10500.0])
    md = qr.Mode(300.0); m.add_Mode(md)
    fac = [100.0, [1]]
    m.set_diabatic_coupling((0, 1), fac)
    print("caller's list after the first call:", fac)
    m.set_diabatic_coupling((1, 2), fac)
    print("couplings read back in 1/cm:", m.get_diabatic_coupling((0, 1)), m.get_diabatic_coupling((1, 2)))
