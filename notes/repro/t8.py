import numpy, warnings
warnings.filterwarnings("ignore")
import quantarhei as qr
from quantarhei.qm.liouvillespace.superoperator import SuperOperator
rng = numpy.random.default_rng(1)
N=3
for cplx in (False, True):
    A = rng.normal(size=(N,N)) + (1j*rng.normal(size=(N,N)) if cplx else 0)
    A = A + A.conj().T
    op = qr.qm.SelfAdjointOperator(data=A)
    R = rng.normal(size=(N,N,N,N)) + 1j*rng.normal(size=(N,N,N,N))
    so = SuperOperator(data=R.copy())
    rho = qr.qm.Operator(data=(rng.normal(size=(N,N))+1j*rng.normal(size=(N,N))))
    out0 = so.apply(rho).data.copy()
    with qr.eigenbasis_of(op):
        diag = op.data.copy()
        res = so.apply(rho)       # created inside
        inside = res.data.copy()
    out1 = res.data.copy()
    print("complex" if cplx else "real", "diag ok", numpy.allclose(diag, numpy.diag(numpy.diag(diag))), "action same", numpy.allclose(out0, out1), "tensor restored", numpy.allclose(so.data, R), "rho restored")
