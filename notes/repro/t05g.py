# triage script (not a check): integro-differential propagator created and run inside a units context
import quantarhei as qr, numpy
from quantarhei.qm.liouvillespace.integrodiff.integrodiff import IntegrodiffPropagator
def run(inside, **kw):
    with qr.energy_units('1/cm'):
        H = qr.Hamiltonian(data=[[0.0, 30.0],[30.0, 100.0]])
    ta = qr.TimeAxis(0.0, 200, 1.0)
    r0 = qr.ReducedDensityMatrix(data=[[1.0,0.0],[0.0,0.0]])
    if inside:
        with qr.energy_units('1/cm'):
            ip = IntegrodiffPropagator(ta, H, **kw)
            return ip.propagate(r0).data
    ip = IntegrodiffPropagator(ta, H, **kw)
    return ip.propagate(r0).data
for kw in (dict(fft=True, timefac=3, decay_fraction=2.0), dict(fft=False)):
    try:
        a = run(False, **kw); b = run(True, **kw)
        print(kw, 'max diff', numpy.max(numpy.abs(a-b)))
    except Exception as e:
        print(kw, "EXC", type(e).__name__, e)
