# triage script (not a check): linear and 2D spectra calculated inside vs outside a units context
import numpy, quantarhei as qr
from quantarhei import TestAggregate
def mk(name="dimer-2-env"):
    agg = TestAggregate(name)
    with qr.energy_units("1/cm"):
        agg.set_resonance_coupling(0, 1, 100.0)
    agg.build()
    return agg
def absspec(inside):
    agg = mk()
    ta = qr.TimeAxis(0.0, 1000, 1.0)
    def go():
        ac = qr.AbsSpectrumCalculator(ta, system=agg)
        ac.bootstrap(rwa=qr.convert(12200.0, "1/cm", "int") if not inside else 12200.0)
        sp = ac.calculate()
        with qr.energy_units("int"):
            return numpy.array(sp.axis.data), numpy.array(sp.data)
    if inside:
        with qr.energy_units("1/cm"):
            return go()
    return go()
try:
    x0, y0 = absspec(False); x1, y1 = absspec(True)
    print("abs: axis diff", numpy.max(numpy.abs(x0-x1)), "data diff", numpy.max(numpy.abs(y0-y1)), "max", numpy.max(numpy.abs(y0)))
except Exception as e:
    import traceback; traceback.print_exc()
def mock(inside):
    agg = mk("dimer-2")
    agg2 = TestAggregate("dimer-2")
    with qr.energy_units("1/cm"):
        agg2.set_resonance_coupling(0, 1, 100.0)
    agg2.build(mult=2)
    agg2.diagonalize()
    t1 = qr.TimeAxis(0.0, 50, 10.0); t2 = qr.TimeAxis(0.0, 2, 50.0); t3 = qr.TimeAxis(0.0, 50, 10.0)
    from quantarhei.spectroscopy.mocktwodcalculator import MockTwoDResponseCalculator
    def go():
        mc = MockTwoDResponseCalculator(t1, t2, t3)
        with qr.energy_units("1/cm"):
            mc.bootstrap(rwa=12100.0, shape="Gaussian")
        from quantarhei.utils.vectors import X; lab = qr.LabSetup(); lab.set_pulse_polarizations(pulse_polarizations=(X, X, X), detection_polarization=X)
        with qr.energy_units("1/cm"):
            pws = agg2.liouville_pathways_3(ptype=("R1g","R2g","R3g","R4g","R1f*","R2f*"), lab=lab, dtol=0.0, ptol=0.0)
            mc.set_width(150.0)
        for pw in pws:
            pw.widths[:] = -1.0; pw.dephs[:] = -1.0
        mc.set_pathways(pws)
        tw = mc.calculate_next()
        return numpy.array(tw.d__data if hasattr(tw, "d__data") else tw.data)
    if inside:
        with qr.energy_units("1/cm"):
            return go()
    return go()
try:
    a = mock(False); b = mock(True)
    print("mock 2D: diff", numpy.max(numpy.abs(a-b)), "max", numpy.max(numpy.abs(a)))
except Exception as e:
    import traceback; traceback.print_exc()
