"""C19-M (absence restored): a refused FIRST addition must leave an empty response empty.

After repair a6147cc the roll-back wrote `self._d__data = None` where no attribute existed before;
an empty response then failed differently from a fresh one: set_resolution() raised TypeError
("'NoneType' ...") instead of working on / refusing an empty storage the way a new object does.
"""
import numpy
import quantarhei as qr
from quantarhei.spectroscopy.twod2 import TwoDResponse

def fresh():
    r = TwoDResponse()
    r.set_axis_1(qr.FrequencyAxis(0.0, 4, 1.0)); r.set_axis_3(qr.FrequencyAxis(0.0, 4, 1.0))
    return r

def behaviour(r):
    out = []
    for what in (lambda: r.set_resolution("signals"), lambda: r.d__data):
        try:
            what(); out.append("ok")
        except Exception as e:
            out.append(type(e).__name__)
    out.append(hasattr(r, "_d__data"))
    return out

a = fresh()
ref = behaviour(fresh())
try:
    a._add_data(numpy.zeros((4, 4), dtype=complex), resolution="types", dtype="no-such-type")
except Exception as e:
    print("refused:", type(e).__name__)
got = behaviour(a)
print("fresh object      :", ref)
print("after refused add :", got)
if ref != got:
    print("DEFECT: a refused first addition changed the response"); raise SystemExit(1)
print("OK")
