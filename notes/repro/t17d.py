# triage script (not a check): RateMatrix created from a whole-number array / from a shared template
import numpy
from quantarhei.qm.liouvillespace.rates.ratematrix import RateMatrix
rm = RateMatrix(data=numpy.array([[-1, 2, 0],[1, -3, 0],[0, 1, 0]]))
rm.set_rate((0, 1), 0.5); rm.set_rate((2, 0), 0.25)
print("assigned 0.5 and 0.25, stored:", rm.data[0, 1], rm.data[2, 0], " column sums", rm.data.sum(axis=0))
tpl = numpy.zeros((2, 2))
slow, fast = RateMatrix(data=tpl), RateMatrix(data=tpl)
slow.set_rate((1, 0), 0.001); fast.set_rate((1, 0), 0.1)
print("two matrices from one template: slow rate", slow.data[1, 0], " template changed:", bool(tpl.any()))
