"""LindbladForm without a system-bath interaction: the tensor form must exist as the operator form does.
run: cd /tmp && PYTHONPATH=/repo /venv/bin/python /verif/notes/repro/t01e.py"""
import numpy, quantarhei as qr
from quantarhei.qm import LindbladForm
H = qr.Hamiltonian(data=[[0.0, 0.1, 0.0], [0.1, 1.0, 0.2], [0.0, 0.2, 1.1]])
bad = 0
for kw in (dict(as_operators=True), dict(as_operators=False)):
    try:
        L = LindbladForm(H, None, **kw)
        if kw["as_operators"]:
            L.convert_2_tensor()
        print(kw, "tensor form: max|R| =", numpy.max(numpy.abs(L.data)))
    except Exception as e:
        print(kw, "raised", repr(e)); bad += 1
raise SystemExit(1 if bad else 0)
