# triage script (not a check): Secular.secularize(use_data=False) and the trace identity
import numpy, quantarhei as qr
from quantarhei import TestAggregate
from quantarhei.qm import RedfieldRelaxationTensor
agg = TestAggregate("trimer-2-env"); agg.set_coupling_by_dipole_dipole(); agg.build()
ham = agg.get_Hamiltonian(); sbi = agg.get_SystemBathInteraction()
RT = RedfieldRelaxationTensor(ham, sbi)
before = numpy.array(RT.data)
print("trace defect before:", numpy.max(numpy.abs(numpy.einsum("aacd->cd", RT.data))))
with qr.eigenbasis_of(ham):
    RT.secularize(legacy=False) if False else None
    from quantarhei.qm.liouvillespace.secular import Secular
    Secular.secularize(RT, use_data=False)
print("data changed by secularize(use_data=False):", numpy.max(numpy.abs(RT.data - before)))
print("trace defect after :", numpy.max(numpy.abs(numpy.einsum("aacd->cd", RT.data))))
