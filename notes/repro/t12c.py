# triage script (not a check): AggregateSpectroscopy.liouville_pathways_3
import quantarhei as qr
from quantarhei import TestAggregate
agg = TestAggregate("dimer-2-env"); agg.build(mult=2); agg.diagonalize()
try:
    lps = agg.liouville_pathways_3(ptype="R2g")
    print("pathways:", len(lps))
except Exception as e:
    print("FAILS:", type(e).__name__, e)
