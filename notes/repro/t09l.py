"""C09-N: the even / odd Fourier parts accept components at different temperatures."""
import quantarhei as qr
from quantarhei.qm.corfunctions.correlationfunctions import EvenFTCorrelationFunction, OddFTCorrelationFunction
t = qr.TimeAxis(0.0, 1000, 1.0)
p300 = dict(ftype="OverdampedBrownian", reorg=30, cortime=100, T=300)
p100 = dict(ftype="OverdampedBrownian", reorg=30, cortime=100, T=100)
out = {}
with qr.energy_units("1/cm"):
    for cls in (qr.CorrelationFunction, EvenFTCorrelationFunction, OddFTCorrelationFunction):
        try:
            cls(t, [dict(p300), dict(p100)]); out[cls.__name__] = "accepted"
        except Exception as e:
            out[cls.__name__] = "refused"
        try:
            cls(t, [dict(p300), dict(p300)]); same = "accepted"
        except Exception as e:
            same = "refused"
        print("%-28s T=300+100: %s   T=300+300: %s" % (cls.__name__, out[cls.__name__], same))
if "accepted" in (out["EvenFTCorrelationFunction"], out["OddFTCorrelationFunction"]):
    print("DEFECT: components at different temperatures are accepted"); raise SystemExit(1)
print("OK")
