# triage script (not a check): the operator that defines the current basis, under nesting
import quantarhei as qr
A = qr.Hamiltonian(data=[[0.0, 0.3],[0.3, 1.0]]); B = qr.Hamiltonian(data=[[0.0, 0.1],[0.1, 2.0]])
m = qr.Manager()
with qr.eigenbasis_of(A):
    with qr.eigenbasis_of(B):
        pass
    print("back in the context of A; operator of the current basis is A:", m.current_basis_operator is A, "(", type(m.current_basis_operator).__name__, ")")
c1 = qr.eigenbasis_of(A); c2 = qr.eigenbasis_of(B)
with c1:
    print("context objects created ahead: inside the context of A the operator is A:", m.current_basis_operator is A)
print("outside any context the operator is None:", m.current_basis_operator is None)
