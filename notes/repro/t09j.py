# C09: CorrelationFunctionMatrix.where = [[]]*(nof+1): one list shared by all functions
import sys, warnings, numpy
warnings.filterwarnings("ignore")
import quantarhei as qr
from quantarhei.qm.corfunctions.cfmatrix import CorrelationFunctionMatrix
ta = qr.TimeAxis(0.0, 1000, 1.0)
with qr.energy_units("1/cm"):
    cf1 = qr.CorrelationFunction(ta, dict(ftype="OverdampedBrownian", reorg=20, cortime=100, T=300))
    cf2 = qr.CorrelationFunction(ta, dict(ftype="OverdampedBrownian", reorg=50, cortime=60, T=300))
cm = CorrelationFunctionMatrix(ta, 2, nof=2)
cm.set_correlation_function(cf1, [(0,0)], iof=1)
cm.set_correlation_function(cf2, [(1,1)], iof=2)
i0 = cm.get_index_by_where((0,0)); i1 = cm.get_index_by_where((1,1))
print("places recorded per function:", cm.where)
print("function found for place (0,0): %d (set as 1); for place (1,1): %d (set as 2)" % (i0, i1))
print("PROPERTY (C09, consistent parameters): the function recorded for a place is the one set there")
sys.exit(0 if (i0, i1) == (1, 2) else 1)
