# triage script (not a check): number of Liouville pathways under a common dipole factor
import numpy, quantarhei as qr
def npaths(s, dtol):
    with qr.energy_units("1/cm"):
        m1 = qr.Molecule([0.0, 12000.0]); m2 = qr.Molecule([0.0, 12300.0])
    m1.set_dipole(0, 1, [1.0*s, 0, 0]); m2.set_dipole(0, 1, [0, 0.007*s, 0])
    ag = qr.Aggregate([m1, m2]); ag.build(mult=2); ag.diagonalize()
    return len(ag.liouville_pathways_3T(ptype=("R1g", "R2g", "R3g", "R4g", "R1f*", "R2f*"), eUt=qr.qm.SOpUnity(dim=4),
                                        ham=ag.get_Hamiltonian(), dtol=dtol))
for dtol in (1e-4, 1e-2):
    print("dtol", dtol, "pathways for dipole factor 1, 10, 0.1:", npaths(1.0, dtol), npaths(10.0, dtol), npaths(0.1, dtol))
