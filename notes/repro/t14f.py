"""C14-N: an aggregate whose molecules have baths at different temperatures gets the zero-temperature state silently."""
import numpy
import quantarhei as qr
ta = qr.TimeAxis(0.0, 500, 1.0)
def cf(T):
    with qr.energy_units("1/cm"):
        return qr.CorrelationFunction(ta, dict(ftype="OverdampedBrownian", reorg=30.0, cortime=100.0, T=T))
with qr.energy_units("1/cm"):
    m1 = qr.Molecule([0.0, 12000.0]); m2 = qr.Molecule([0.0, 12100.0])
m1.set_transition_environment((0, 1), cf(300)); m2.set_transition_environment((0, 1), cf(100))
agg = qr.Aggregate([m1, m2])
with qr.energy_units("1/cm"):
    agg.set_resonance_coupling(0, 1, 50.0)
agg.build()
try:
    T = agg.get_temperature()
    rho = agg.get_DensityMatrix(condition_type="thermal_excited_state")
    print("temperature reported:", T, "| excited-state populations:", numpy.real(numpy.diag(rho.data))[1:])
    print("DEFECT: baths at 300 K and 100 K, and the builder answers with the T = %g state" % T); raise SystemExit(1)
except SystemExit:
    raise
except Exception as e:
    print("refused:", e); print("OK")
