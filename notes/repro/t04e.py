"""C04-B9: objects built from SystemBathInteraction.KK inside eigenbasis_of(H) differ from those built outside.
run: cd /tmp && PYTHONPATH=/repo /venv/bin/python /verif/notes/repro/t04e.py"""
import numpy, quantarhei as qr
from quantarhei.qm.liouvillespace.rates.redfieldrates import RedfieldRateMatrix
from quantarhei.qm.liouvillespace.rates.tdredfieldrates import TDRedfieldRateMatrix
from quantarhei.qm import (RedfieldRelaxationTensor, TDRedfieldRelaxationTensor, LindbladForm, SystemBathInteraction,
                           ProjectionOperator)
from quantarhei.qm.liouvillespace.heom import KTHierarchy, KTHierarchyPropagator

def system():
    ta = qr.TimeAxis(0.0, 200, 1.0)
    with qr.energy_units("1/cm"):
        m1 = qr.Molecule([0.0, 12100.0]); m2 = qr.Molecule([0.0, 12300.0])
        cf = qr.CorrelationFunction(ta, dict(ftype="OverdampedBrownian", reorg=30.0, cortime=60.0, T=300, matsubara=20))
        m1.set_transition_environment((0, 1), cf); m2.set_transition_environment((0, 1), cf)
        agg = qr.Aggregate([m1, m2]); agg.set_resonance_coupling(0, 1, 100.0)
    agg.build()
    return ta, agg.get_Hamiltonian(), agg.get_SystemBathInteraction()

def inside_outside(make, value):
    ta, H, sbi = system()
    out = value(make(ta, H, sbi))
    ta, H, sbi = system()
    with qr.eigenbasis_of(H):
        obj = make(ta, H, sbi)
    return numpy.max(numpy.abs(value(obj) - out)), numpy.max(numpy.abs(out))

rows = [
 ("RedfieldRelaxationTensor._implementation", lambda ta, H, s: RedfieldRelaxationTensor(H, s), lambda o: o.data),
 ("TDRedfieldRelaxationTensor._implementation", lambda ta, H, s: TDRedfieldRelaxationTensor(H, s), lambda o: o.data[-1]),
 ("RedfieldRateMatrix._set_rates", lambda ta, H, s: (H.data, RedfieldRateMatrix(H, s))[1], lambda o: o.data),
 ("TDRedfieldRateMatrix._set_rates", lambda ta, H, s: TDRedfieldRateMatrix(H, s), lambda o: o.data[-1]),
]
bad = 0
for name, make, value in rows:
    d, m = inside_outside(make, value)
    print("%-48s max|inside - outside| = %.3e (largest element %.3e)" % (name, d, m))
    bad += d > 1e-8 * m

# Lindblad form (and the electronic Lindblad form, which feeds it) and HEOM: dynamics
def lind(ta, H, s):
    ops = [ProjectionOperator(1, 2, dim=3)]
    sb = SystemBathInteraction(sys_operators=ops, rates=[1.0/100.0])
    return sb
ta, H, sbi = system()
sb = lind(ta, H, sbi)
rho0 = qr.ReducedDensityMatrix(dim=3); rho0.data[2, 2] = 1.0
L = LindbladForm(H, sb, as_operators=False)
out = qr.ReducedDensityMatrixPropagator(ta, H, L).propagate(rho0).data[-1]
ta, H, sbi = system()
rho0 = qr.ReducedDensityMatrix(dim=3); rho0.data[2, 2] = 1.0
with qr.eigenbasis_of(H):
    L = LindbladForm(H, sb, as_operators=False)
ins = qr.ReducedDensityMatrixPropagator(ta, H, L).propagate(rho0).data[-1]
d = numpy.max(numpy.abs(ins - out))
print("%-48s max|rho_inside(t_end) - rho_outside(t_end)| = %.3e" % ("LindbladForm._implementation", d)); bad += d > 1e-8

print("VIOLATION" if bad else "ok")
raise SystemExit(1 if bad else 0)
