# triage script (not a check): SpectralDensity.copy() inside a units context
import numpy, quantarhei as qr
ta = qr.TimeAxis(0.0, 1000, 1.0)
with qr.energy_units("1/cm"):
    sd = qr.SpectralDensity(ta, dict(ftype="OverdampedBrownian", reorg=30.0, cortime=100.0, T=300))
    c1 = sd.copy()
c0 = sd.copy()
with qr.energy_units("1/cm"):
    print("reorg: original", sd.get_reorganization_energy(), " copy made outside", c0.get_reorganization_energy(),
          " copy made inside 1/cm", c1.get_reorganization_energy())
print("max data diff (copy inside vs original):", numpy.max(numpy.abs(c1.data - sd.data)), " max |data|", numpy.max(numpy.abs(sd.data)))
