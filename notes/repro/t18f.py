# C18: text files lose singleton dimensions; importing with an axis leaves the axis object inconsistent
import sys, os, tempfile, warnings, numpy
warnings.filterwarnings("ignore")
import quantarhei as qr
from quantarhei.core.matrixdata import MatrixData
bad = 0
d = tempfile.mkdtemp()
for shape in ((1, 3), (3, 1), (1, 1), (3,), (2, 3)):
    for ext in (".dat", ".npy"):
        A = numpy.arange(1.0, 1.0 + int(numpy.prod(shape))).reshape(shape)
        m = MatrixData(data=A); fn = os.path.join(d, "m" + ext); m.save_data(fn)
        m2 = MatrixData(data=numpy.zeros(1)); m2.load_data(fn)
        ok = numpy.shape(m2.data) == shape and numpy.allclose(m2.data, A)
        if not ok:
            print("MatrixData of shape %-6s through %s comes back with shape %s" % (shape, ext, numpy.shape(m2.data))); bad += 1
# with an axis
x = qr.ValueAxis(10.0, 5, 2.0); f = qr.DFunction(x, numpy.arange(5.0))
fn = os.path.join(d, "f.dat"); f.save_data(fn, with_axis=x)
y = qr.ValueAxis(0.0, 5, 1.0); g = qr.DFunction(y, numpy.zeros(5))
import io, contextlib
with contextlib.redirect_stdout(io.StringIO()):
    g.load_data(fn, with_axis=y)
print("axis after import: data %s, start %s, step %s, length %s" % (y.data.tolist(), y.start, y.step, y.length))
if not (y.start == 10.0 and y.step == 2.0 and y.length == 5): bad += 1
try:
    print("value of the imported function at 12.0: %s (exported: 1.0)" % g.at(12.0))
except Exception as e:
    print("value of the imported function at 12.0: raises %s" % e); bad += 1
sys.exit(1 if bad else 0)
