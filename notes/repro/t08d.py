# triage script (not a check): EvolutionSuperOperator.at(t) inside a basis context
import numpy, quantarhei as qr
from quantarhei import TestAggregate
agg = TestAggregate("dimer-2-env")
with qr.energy_units("1/cm"):
    agg.set_resonance_coupling(0, 1, 100.0)
agg.build()
H = agg.get_Hamiltonian(); sbi = agg.get_SystemBathInteraction()
ta = qr.TimeAxis(0.0, 6, 10.0)
rt = qr.qm.RedfieldRelaxationTensor(H, sbi)
U = qr.qm.EvolutionSuperOperator(ta, H, rt); U.set_dense_dt(10); U.calculate(show_progress=False)
d0 = numpy.array(U.data)
with qr.eigenbasis_of(H):
    s = U.at(20.0)
d1 = numpy.array(U.data)
print("change of the stored superoperator after at(20.0) inside a context, per time index:", [float(numpy.max(numpy.abs(d1[k]-d0[k]))) for k in range(6)])
