# triage script (not a check): standard Redfield tensor for an aggregate built with two-exciton states
import numpy, quantarhei as qr
from quantarhei import TestAggregate
from quantarhei.qm import RedfieldRelaxationTensor, TDRedfieldRelaxationTensor
for mult in (1, 2):
    agg = TestAggregate("dimer-2-env"); agg.set_coupling_by_dipole_dipole(); agg.build(mult=mult)
    ham = agg.get_Hamiltonian(); sbi = agg.get_SystemBathInteraction()
    RT = RedfieldRelaxationTensor(ham, sbi)
    TD = TDRedfieldRelaxationTensor(ham, sbi)
    print("mult", mult, "max |R| =", numpy.max(numpy.abs(RT.data)), " max |R_TD(last)| =", numpy.max(numpy.abs(TD.data[-1])))
agg = TestAggregate("dimer-2-env"); agg.set_coupling_by_dipole_dipole(); agg.build(mult=2)
RT, ham = agg.get_RelaxationTensor(agg.sbi.TimeAxis, relaxation_theory="standard_Redfield")
print("via get_RelaxationTensor, mult 2: max |R| =", numpy.max(numpy.abs(RT.data)))
RM = agg.get_RedfieldRateMatrix()
print("rate matrix, mult 2: max |K| =", numpy.max(numpy.abs(RM.data)))
