# C18: fluorescence, CD and LD spectra cannot import the data they export
import sys, os, tempfile, warnings, numpy
warnings.filterwarnings("ignore")
import quantarhei as qr
from quantarhei.spectroscopy.fluorescence import FluorSpectrumBase
from quantarhei.spectroscopy.circular_dichroism import CircDichSpectrumBase
from quantarhei.spectroscopy.linear_dichroism import LinDichSpectrumBase
bad = 0
d = tempfile.mkdtemp()
for cls in (FluorSpectrumBase, CircDichSpectrumBase, LinDichSpectrumBase):
    with qr.energy_units("1/cm"):
        ax = qr.FrequencyAxis(10000.0, 50, 10.0)
        sp = cls(axis=ax, data=numpy.linspace(0.0, 1.0, 50))
    fn = os.path.join(d, cls.__name__ + ".dat")
    try:
        sp.save_data(fn)
        with qr.energy_units("1/cm"):
            sp2 = cls(axis=qr.FrequencyAxis(10000.0, 50, 10.0), data=numpy.zeros(50))
        sp2.load_data(fn)
        ok = numpy.allclose(sp2.data, sp.data)
        print("%s: exported and imported, same values: %s" % (cls.__name__, ok)); bad += (not ok)
    except Exception as e:
        print("%s: export/import raises %s: %s" % (cls.__name__, type(e).__name__, e)); bad += 1
sys.exit(1 if bad else 0)
