"""C09-H: Even/Odd FT correlation functions must keep their own copies of the parameter dictionaries.
run: cd /tmp && PYTHONPATH=/repo /venv/bin/python /verif/notes/repro/t09i.py"""
import quantarhei as qr
from quantarhei.qm.corfunctions.correlationfunctions import EvenFTCorrelationFunction, OddFTCorrelationFunction
ta = qr.TimeAxis(0.0, 1000, 1.0)
bad = 0
for cls in (EvenFTCorrelationFunction, OddFTCorrelationFunction):
    with qr.energy_units("1/cm"):
        p = dict(ftype="OverdampedBrownian", reorg=30.0, cortime=100.0, T=300, matsubara=20)
        f = cls(ta, p)
    p["T"] = 77
    p["reorg"] = 300.0
    print(cls.__name__, "recorded component after the caller changed the dictionary:", {k: f.params[0][k] for k in ("reorg", "T")})
    bad += f.params[0]["T"] != 300 or f.params[0]["reorg"] != 30.0
print("VIOLATION" if bad else "ok")
raise SystemExit(1 if bad else 0)
