# triage script (not a check): inverse transform of a function of time, then forward transform
import numpy, quantarhei as qr
from quantarhei.core.dfunction import DFunction
for atype, N in (("upper-half", 8), ("upper-half", 9), ("complete", 8), ("complete", 9)):
    ta = qr.TimeAxis(0.0 if atype == "upper-half" else -(N//2)*0.5, N, 0.5, atype=atype)
    y = numpy.exp(-0.3*numpy.abs(ta.data)) * (1.0 + 0.0j)
    f = DFunction(ta, y)
    try:
        g = f.get_inverse_Fourier_transform().get_Fourier_transform()
        print(atype, N, "inverse then forward / original:", numpy.round((g.data/y).real, 6)[:4])
    except Exception as e:
        print(atype, N, type(e).__name__, e)
    try:
        g = f.get_Fourier_transform().get_inverse_Fourier_transform()
        print(atype, N, "forward then inverse / original:", numpy.round((g.data/y).real, 6)[:4])
    except Exception as e:
        print(atype, N, type(e).__name__, e)
