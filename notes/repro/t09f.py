# triage script (not a check): a refused in-place addition must leave the left operand as it was
import numpy, quantarhei as qr
ta = qr.TimeAxis(0.0, 1000, 1.0)
with qr.energy_units("1/cm"):
    a = qr.CorrelationFunction(ta, dict(ftype="OverdampedBrownian", reorg=30.0, cortime=100.0, T=300, matsubara=20))
    b = qr.CorrelationFunction(ta, dict(ftype="OverdampedBrownian", reorg=50.0, cortime=50.0, T=77, matsubara=20))
    d0 = a.data.copy(); l0 = a.get_reorganization_energy()
    try:
        a += b
        print("not refused")
    except Exception as e:
        print("refused:", e)
    print("left operand after the refusal: data changed by", numpy.max(numpy.abs(a.data - d0)),
          " reorganisation energy", l0, "->", a.get_reorganization_energy(), " components", len(a.params))
