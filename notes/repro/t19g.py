# C19: a second addition to a cell accepts an array that does not have the shape of the axes (broadcast by the sum)
import sys, warnings, numpy
warnings.filterwarnings("ignore")
import quantarhei as qr
from quantarhei.spectroscopy.twod2 import TwoDResponse
bad = 0
for second in (numpy.ones(4), numpy.ones((4, 1)), numpy.ones((1, 1))):
    r = TwoDResponse()
    r.set_axis_1(qr.FrequencyAxis(0.0, 4, 1.0)); r.set_axis_3(qr.FrequencyAxis(0.0, 4, 1.0))
    A = numpy.arange(16.).reshape(4, 4)
    r.set_resolution("types")
    r._add_data(A, dtype="R1g")
    try:
        r._add_data(second, dtype="R1g")
        r.set_data_flag("R1g")
        print("second addition of shape %-6s accepted; stored R1g changed by %s" % (second.shape, numpy.real(r.d__data - A).max()))
        bad += 1
    except Exception as e:
        print("second addition of shape %-6s refused: %s" % (second.shape, e))
    r2 = TwoDResponse()
    r2.set_axis_1(qr.FrequencyAxis(0.0, 4, 1.0)); r2.set_axis_3(qr.FrequencyAxis(0.0, 4, 1.0))
    r2.set_resolution("types")
    try:
        r2._add_data(second, dtype="R1g"); print("   (as a first addition: accepted)")
    except Exception as e:
        print("   (as a first addition: refused: %s)" % e)
print("PROPERTY: inadmissible operations are refused without changing the stored data")
sys.exit(1 if bad else 0)
