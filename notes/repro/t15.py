# triage only (not a check): C15-E3 open findings reproduced against the real code
import numpy, quantarhei as qr
agg = qr.TestAggregate(name="dimer-2-env")
agg.set_coupling_by_dipole_dipole()
agg.build(mult=2)
H = agg.get_Hamiltonian()
print("rwa before", H.rwa_indices)
try:
    agg.get_KTHierarchy(depth=1)
except Exception as e:
    print("hierarchy construction raised", type(e).__name__, e)
print("rwa after ", agg.get_Hamiltonian().rwa_indices)
