# C08/C02: apply() of an evolution superoperator that is in the rotating frame returns an evolution marked as laboratory frame
import sys
import warnings; warnings.filterwarnings("ignore")
import numpy as np
import quantarhei as qr
from quantarhei.qm import EvolutionSuperOperator, LindbladForm, Operator, SystemBathInteraction
with qr.energy_units("1/cm"):
    H = qr.Hamiltonian(data=[[0.0, 0.0, 0.0], [0.0, 10000.0, 150.0], [0.0, 150.0, 10200.0]])
H.set_rwa([0, 1])
K1 = Operator(dim=3, real=True); K1.data[1, 2] = 1.0
sbi = SystemBathInteraction([K1], rates=(1.0/100.0,))
L = LindbladForm(H, sbi, as_operators=False)
time = qr.TimeAxis(0.0, 9, 5.0)
U = EvolutionSuperOperator(time, H, L); U.set_dense_dt(20); U.calculate()
rho = qr.ReducedDensityMatrix(data=[[0.2, 0.1j, 0.05], [-0.1j, 0.5, 0.2+0.1j], [0.05, 0.2-0.1j, 0.3]])
prop = qr.ReducedDensityMatrixPropagator(time, H, RTensor=L); prop.setDtRefinement(20)
direct = prop.propagate(rho)
bad = 0
for how, arg in (("'all'", "all"), ("the time axis", time)):
    applied = U.apply(arg, rho)
    d0 = np.abs(applied.data - direct.data).max()
    f1, f2 = applied.is_in_rwa, direct.is_in_rwa
    a2 = U.apply(arg, rho); a2.convert_from_RWA(H)
    d2 = qr.ReducedDensityMatrixPropagator(time, H, RTensor=L); d2.setDtRefinement(20)
    dl = d2.propagate(rho); dl.convert_from_RWA(H)
    d1 = np.abs(a2.data - dl.data).max()
    print("apply(%s): same values as direct propagation (%.1e); marked as rotating frame: applied %s, propagated %s; "
          "after convert_from_RWA(H) on both they differ by %.3e" % (how, d0, f1, f2, d1))
    if d1 > 1e-8: bad += 1
sys.exit(1 if bad else 0)
