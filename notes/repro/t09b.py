# triage only: SpectralDensity addition depends on the active energy units (before the fix)
import numpy, quantarhei as qr
with qr.energy_units("1/cm"):
    fa = qr.FrequencyAxis(-2000.0, 400, 10.0)
    p1 = dict(ftype="OverdampedBrownian", reorg=30.0, cortime=100.0, T=300)
    p2 = dict(ftype="OverdampedBrownian", reorg=50.0, cortime=50.0, T=300)
    a = qr.SpectralDensity(fa, p1); b = qr.SpectralDensity(fa, p2)
s_out = a + b
with qr.energy_units("1/cm"):
    s_in = a + b
print("max data difference:", numpy.abs(s_out.data - s_in.data).max(), " scale:", numpy.abs(s_out.data).max())
print("lamb:", s_out.lamb, s_in.lamb)
