# triage script (not a check): propagation with a time-dependent Redfield tensor built with a cut-off time
import numpy, quantarhei as qr, traceback
from quantarhei import TestAggregate
from quantarhei.qm import TDRedfieldRelaxationTensor
agg = TestAggregate("dimer-2-env"); agg.build()
ham = agg.get_Hamiltonian(); sbi = agg.get_SystemBathInteraction()
ta = sbi.TimeAxis
for asop in (False, True):
    RT = TDRedfieldRelaxationTensor(ham, sbi, cutoff_time=100.0, as_operators=asop)
    prop = qr.ReducedDensityMatrixPropagator(ta, ham, RT)
    rho = qr.ReducedDensityMatrix(dim=ham.dim); rho.data[1, 1] = 1.0
    try:
        r = prop.propagate(rho)
        print("as_operators=%s: propagated, final population" % asop, numpy.real(r.data[-1, 1, 1]))
    except Exception as e:
        print("as_operators=%s: FAILS %s: %s" % (asop, type(e).__name__, e))
