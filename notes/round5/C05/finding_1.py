# C05 finding 1: get_RelaxationTensor(..., relaxation_theory="standard_Foerster")
# called inside an energy_units context returns a propagation Hamiltonian
# whose stored energies are converted twice.
import warnings; warnings.filterwarnings("ignore")
import sys
import numpy as np
import quantarhei as qr

def make_agg():
    ta = qr.TimeAxis(0.0, 500, 1.0)
    with qr.energy_units("1/cm"):
        m1 = qr.Molecule([0.0, 12000.0]); m2 = qr.Molecule([0.0, 12300.0])
        cf = qr.CorrelationFunction(ta, dict(ftype="OverdampedBrownian",
                                    reorg=30.0, cortime=80.0, T=300))
    m1.set_transition_environment((0,1), cf)
    m2.set_transition_environment((0,1), cf)
    agg = qr.Aggregate([m1, m2])
    with qr.energy_units("1/cm"):
        agg.set_resonance_coupling(0, 1, 100.0)
    agg.build()
    return agg, ta

# reference: call made with default (internal) units
agg, ta = make_agg()
RT0, ham0 = agg.get_RelaxationTensor(ta, relaxation_theory="standard_Foerster")

# same call made by a user who works in 1/cm
agg, ta = make_agg()
with qr.energy_units("1/cm"):
    RT1, ham1 = agg.get_RelaxationTensor(ta, relaxation_theory="standard_Foerster")

with qr.energy_units("1/cm"):
    e0 = np.diag(ham0.data); e1 = np.diag(ham1.data)
print("site energies of returned Hamiltonian [1/cm], call outside context:", e0)
print("site energies of returned Hamiltonian [1/cm], call inside  context:", e1)
print("required: identical (12000, 12300 1/cm); the stored value must not depend"
      " on the units active when the library call was made")
if not np.allclose(e0, e1):
    print("VIOLATION: ratio =", e1[1:]/e0[1:])
    sys.exit(1)
print("no violation")
