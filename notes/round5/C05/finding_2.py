# C05 finding 2: Hamiltonian.diagonalize() inside an energy_units context
# stores the eigenvalues (expressed in current units) as if they were internal.
import warnings; warnings.filterwarnings("ignore")
import sys
import numpy as np
import quantarhei as qr

with qr.energy_units("1/cm"):
    H = qr.Hamiltonian(data=[[0.0, 100.0], [100.0, 1000.0]])
    expected = np.linalg.eigvalsh(H.data)
    H.diagonalize()
    got = np.diag(H.data).copy()
print("eigenvalues required [1/cm]:", expected)
print("H.data diagonal after H.diagonalize() inside the context [1/cm]:", got)
print("ratio:", got/expected, "(= 1/conversion factor of 1/cm)")
if not np.allclose(got, expected):
    print("VIOLATION: stored energies were corrupted by the units context")
    sys.exit(1)
print("no violation")
