# C05 finding 6: frequency units: "Hz"/"SI" have a conversion factor which is
# wrong by 1e15, "nm" is converted linearly, the frequency_units context
# rejects the supported unit "Hz" and does not affect frequency conversion.
import warnings; warnings.filterwarnings("ignore")
import sys
import numpy as np
import quantarhei as qr
from quantarhei.core.managers import Manager
m = Manager()
bad = False
print("supported frequency units:", m.units["frequency"])

m.set_current_units("frequency", "THz"); a = m.convert_frequency_2_internal_u(1.0)
m.set_current_units("frequency", "Hz");  b = m.convert_frequency_2_internal_u(1.0e12)
m.set_current_units("frequency", "nm");  c = m.convert_frequency_2_internal_u(800.0)
m.set_current_units("frequency", "1/fs")
with qr.energy_units("nm"):
    c_en = m.convert_energy_2_internal_u(800.0)
print("1 THz    ->", a, "1/fs")
print("1e12 Hz  ->", b, "1/fs   required:", a)
print("800 nm   ->", c, "1/fs (frequency)   required:", c_en, "(energy conversion)")
if not np.isclose(a, b) or not np.isclose(c, c_en): bad = True

try:
    with qr.frequency_units("Hz"):
        pass
    print("frequency_units('Hz') accepted")
except Exception as e:
    print("frequency_units('Hz') raises:", e, "  required: accepted, 'Hz' is a supported frequency unit")
    bad = True

with qr.frequency_units("1/cm"):
    fr = m.convert_frequency_2_internal_u(1.0)
    en = m.convert_energy_2_internal_u(1.0)
print("inside frequency_units('1/cm'): convert_frequency_2_internal_u(1.0) =", fr,
      "  required:", en)
if not np.isclose(fr, en): bad = True
print("units after all contexts:", m.current_units)
if bad:
    print("VIOLATION")
    sys.exit(1)
print("no violation")
