# C05 finding 5: DFunction caches its interpolation spline in the units which
# were active at the first spline evaluation; later reads under other units
# feed arguments in the new units to the old spline.
import warnings; warnings.filterwarnings("ignore")
import sys
import numpy as np
import quantarhei as qr
from quantarhei.core.units import cm2int

wa = qr.FrequencyAxis(0.0, 100, 0.01)
f = qr.DFunction(wa, np.sin(wa.data*10))
v_int = f.at(0.305, approx="spline")        # spline initialized in 1/fs
with qr.energy_units("1/cm"):
    x = 0.305/cm2int                         # the same point in 1/cm
    v_lin = f.at(x, approx="linear")
    v_spl = f.at(x)                          # default is now the spline
print("value at 0.305 1/fs, read under 1/fs (spline):", v_int)
print("same point read under 1/cm, linear           :", v_lin)
print("same point read under 1/cm, spline (default) :", v_spl)
print("required: the same value (up to interpolation error ~1e-4)")
if abs(v_spl - v_int) > 1e-3:
    print("VIOLATION")
    sys.exit(1)
print("no violation")
