# C05 finding 3: FTCorrelationFunction does not convert the energy parameter
# "gamma" (nor fcp, g_FWHM, l_FWHM, freq1, freq2) from the current units.
import warnings; warnings.filterwarnings("ignore")
import sys
import numpy as np
import quantarhei as qr
from quantarhei.qm.corfunctions.correlationfunctions import FTCorrelationFunction

ta = qr.TimeAxis(0.0, 2000, 1.0)
p = dict(ftype="UnderdampedBrownian", reorg=20.0, freq=500.0, gamma=50.0, T=300)
with qr.energy_units("1/cm"):
    cf  = qr.CorrelationFunction(ta, dict(p))
    ft_ref = cf.get_FTCorrelationFunction()        # via the correlation function
    ft_dir = FTCorrelationFunction(ta, dict(p))    # same parameters, same context
print("gamma stored by CorrelationFunction   :", cf.params[0]["gamma"], "(internal, = 50 1/cm)")
print("gamma stored by FTCorrelationFunction :", ft_dir.params[0]["gamma"], "(50 1/cm taken as 50 1/fs)")
rel = np.max(np.abs(ft_ref.data-ft_dir.data))/np.max(np.abs(ft_ref.data))
print("max relative difference of the two Fourier transforms:", rel)
print("required: both objects describe the same function (difference ~ 0)")
if rel > 1e-6:
    print("VIOLATION")
    sys.exit(1)
print("no violation")
