# C05 finding 4: AbsSpectrumBase.set_by_interpolation called inside an
# energy_units context builds a frequency axis that is converted twice.
import warnings; warnings.filterwarnings("ignore")
import sys
import numpy as np
import quantarhei as qr
from quantarhei.spectroscopy.absbase import AbsSpectrumBase

x = np.array([10000.0 + 10.0*ii for ii in range(100)])   # 1/cm
y = np.exp(-(x-10500.0)**2/(100.0**2))
a = AbsSpectrumBase()
with qr.energy_units("1/cm"):
    a.set_by_interpolation(x, y, xaxis="frequency")
    amin, amax = a.axis.min, a.axis.max
print("frequency branch : axis min/max read in 1/cm:", amin, amax,
      " required: 10000.0, ~10990")

xw = np.array([600.0 + 5.0*ii for ii in range(100)])      # nm
b = AbsSpectrumBase()
with qr.energy_units("1/cm"):
    b.set_by_interpolation(xw, np.exp(-(xw-800.0)**2/(50**2)), xaxis="wavelength")
    bmin, bmax = b.axis.min, b.axis.max
print("wavelength branch: axis min/max read in 1/cm:", bmin, bmax,
      " required: 9132.420, 16591.324 (value of the doctest)")
if not (np.isclose(amin, 10000.0) and np.isclose(bmin, 9132.420, atol=1e-2)):
    print("VIOLATION: stored axis depends on the context of the call")
    sys.exit(1)
print("no violation")
