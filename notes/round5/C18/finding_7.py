"""C18 finding 7: text export of a density-matrix evolution keeps only the upper triangle.

DensityMatrixEvolution._exportDataToText writes Re(diagonal) and the elements
above the diagonal; _importDataFromText rebuilds the lower triangle as the
complex conjugate.  An evolution that is not Hermitian - e.g. the optical
coherence rho_eg(t) that the propagators produce from a one-sided initial
condition - comes back changed, here as all zeros.  .npy/.npz are exact.
"""
import warnings; warnings.filterwarnings("ignore")
import os, sys, tempfile
import numpy
import quantarhei as qr

td = tempfile.mkdtemp()
t = qr.TimeAxis(0.0, 50, 1.0)
with qr.energy_units("1/cm"):
    H = qr.Hamiltonian(data=[[0.0, 0.0], [0.0, 500.0]])
rhoi = qr.ReducedDensityMatrix(dim=2)
rhoi.data[1, 0] = 1.0                      # |e><g| : optical coherence after one interaction
prop = qr.ReducedDensityMatrixPropagator(t, H)
ev = prop.propagate(rhoi)
print("propagated |rho_eg(t)| max:", numpy.abs(ev.data[:, 1, 0]).max())

bad = 0
for ext in (".npy", ".npz", ".dat"):
    fn = os.path.join(td, "ev" + ext)
    ev.save_data(fn)
    ev2 = prop.propagate(rhoi)             # same class, same time axis
    ev2.data[:, :, :] = 0.0
    ev2.load_data(fn)
    diff = numpy.abs(ev2.data - ev.data).max()
    print("%-4s max |imported - exported| = %.3e   max |imported| = %.3e -> %s"
          % (ext, diff, numpy.abs(ev2.data).max(), "OK" if diff < 1e-12 else "WRONG"))
    bad += diff > 1e-12
print()
print("REQUIRED: export to text and import returns the same (complex) values")
print("OBSERVED: elements below the diagonal and Im(diagonal) are not stored; the coherence is lost")
sys.exit(1 if bad else 0)
