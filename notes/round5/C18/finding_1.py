"""C18 finding 1: export WITH an axis casts the axis to the dtype of the data.

DataSaveable._data_with_axis builds the stacked array with dtype=self.data.dtype,
so for whole-number data the axis values are truncated to integers (silently),
and for complex data the axis comes back complex.  All four formats are affected.
"""
import warnings; warnings.filterwarnings("ignore")
import io, os, sys, tempfile, contextlib
import numpy
import quantarhei as qr
from quantarhei.spectroscopy.absbase import AbsSpectrumBase

td = tempfile.mkdtemp()
bad = 0

# (a) absorption spectrum holding whole-number data (e.g. counts), default units
with qr.energy_units("1/cm"):
    w = qr.FrequencyAxis(10000.0, 5, 100.0)
counts = numpy.array([0, 3, 7, 3, 1])             # whole numbers, dtype int64
a = AbsSpectrumBase(axis=w, data=counts)
for ext in (".dat", ".npy", ".npz", ".mat"):
    fn = os.path.join(td, "abs" + ext)
    b = AbsSpectrumBase(axis=w.copy(), data=numpy.zeros(5))
    with contextlib.redirect_stdout(io.StringIO()):   # the loader prints
        a.save_data(fn)
        b.load_data(fn)
    ok = numpy.allclose(b.axis.data, a.axis.data)
    print("AbsSpectrumBase %-4s data ok: %s   axis saved : %s" %
          (ext, numpy.allclose(b.data, a.data), a.axis.data))
    print("                                  axis loaded: %s  -> %s" %
          (b.axis.data, "OK" if ok else "WRONG"))
    bad += (not ok)

# (b) DFunction with whole-number values on a time axis with a fractional step
t = qr.TimeAxis(0.25, 4, 0.5)
f = qr.DFunction(t, numpy.array([1, 2, 3, 4]))
fn = os.path.join(td, "f.npy")
f.save_data(fn, with_axis=t)
t2 = qr.TimeAxis(0.25, 4, 0.5)
g = qr.DFunction(t2, numpy.zeros(4))
with contextlib.redirect_stdout(io.StringIO()):
    g.load_data(fn, with_axis=t2)
ok = numpy.allclose(t2.data, t.data)
print("DFunction .npy  time axis saved", t.data, "loaded", t2.data, "->", "OK" if ok else "WRONG")
bad += (not ok)

# (c) complex data: the (real) axis comes back complex
h = qr.DFunction(t, numpy.exp(1j*t.data))
fn = os.path.join(td, "h.dat")
h.save_data(fn, with_axis=t)
t3 = qr.TimeAxis(0.25, 4, 0.5)
k = qr.DFunction(t3, numpy.zeros(4, dtype=complex))
with contextlib.redirect_stdout(io.StringIO()):
    k.load_data(fn, with_axis=t3)
ok = (t3.data.dtype == t.data.dtype)
print("complex data    axis dtype saved", t.data.dtype, "loaded", t3.data.dtype, "->", "OK" if ok else "WRONG")
bad += (not ok)

print()
print("REQUIRED: export + import with an accompanying axis returns the same axis values")
print("OBSERVED: %d of 6 round trips changed the axis" % bad)
sys.exit(1 if bad else 0)
