"""C18 finding 6: Saveable.savedir() with the default tag overwrites an existing entry.

The automatic tag is `last inserted key + 1`, not `largest key + 1`.  After
explicit tags given in non-increasing order the automatic tag collides with an
existing one: the earlier object disappears from the directory index.
(With a string tag present the automatic tag raises TypeError.)
"""
import warnings; warnings.filterwarnings("ignore")
import os, sys, tempfile
import numpy
import quantarhei as qr

td = tempfile.mkdtemp()
with qr.energy_units("1/cm"):
    H1 = qr.Hamiltonian(data=[[0.0, 100.0], [100.0, 10000.0]])
    H2 = qr.Hamiltonian(data=[[0.0, 200.0], [200.0, 11000.0]])
    H3 = qr.Hamiltonian(data=[[0.0, 300.0], [300.0, 12000.0]])
d = os.path.join(td, "hams")
H1.savedir(d, tag=2)
H2.savedir(d, tag=1)
H3.savedir(d)              # automatic tag
out = H1.loaddir(d)
print("objects saved: 3   objects loaded:", len(out), "  tags:", sorted(out.keys()))
with qr.energy_units("1/cm"):
    for k in sorted(out):
        print("  tag", k, "-> E1 =", out[k].data[1, 1])
    found = sorted(round(out[k].data[1, 1]) for k in out)
ok = found == [10000, 11000, 12000]
print()
print("REQUIRED: every object saved into the directory is loaded back (10000, 11000, 12000)")
print("OBSERVED:", found, "- the Hamiltonian saved under tag 2 was replaced")
sys.exit(0 if ok else 1)
