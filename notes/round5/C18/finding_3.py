"""C18 finding 3: DFunction.load_data leaves the interpolation state of the OLD data.

load_data replaces self.data but neither resets _splines_initialized nor
re-evaluates _has_imag (DFunction does not implement the set_data_protected()
hook offered by DataSaveable).  After import, at() returns values of the
function that was there before, or drops the imaginary part of imported data.
"""
import warnings; warnings.filterwarnings("ignore")
import os, sys, tempfile
import numpy
import quantarhei as qr

td = tempfile.mkdtemp()
t = qr.TimeAxis(0.0, 20, 1.0)
bad = 0

# (a) splines of the old data survive the import
src = qr.DFunction(t, numpy.sin(t.data/3.0))
fn = os.path.join(td, "sin.npy"); src.save_data(fn)
f = qr.DFunction(t, numpy.cos(t.data/3.0))
f.at(3.3, approx="spline")              # splines in use (they become the default)
f.load_data(fn)
print("(a) data imported correctly:", numpy.allclose(f.data, src.data))
print("    at(3.3) of imported function: %.6f   required (sin): %.6f   old function (cos): %.6f"
      % (f.at(3.3), numpy.sin(1.1), numpy.cos(1.1)))
bad += abs(f.at(3.3) - numpy.sin(1.1)) > 1e-3

# (b) complex data imported into a function that held real data
csrc = qr.DFunction(t, numpy.exp(1j*t.data/3.0))
fn = os.path.join(td, "cplx.dat"); csrc.save_data(fn)
g = qr.DFunction(t, numpy.zeros(20))
g.load_data(fn)
v = g.at(3.3, approx="spline"); r = csrc.at(3.3, approx="spline")
print("(b) data imported correctly:", numpy.allclose(g.data, csrc.data), " _has_imag =", g._has_imag)
print("    at(3.3, 'spline') imported:", v, "  required:", r)
bad += abs(v - r) > 1e-3

print()
print("REQUIRED: an imported function has the same values as the exported one")
print("OBSERVED: at() answers from stale splines / without the imaginary part")
sys.exit(1 if bad else 0)
