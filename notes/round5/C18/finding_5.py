"""C18 finding 5: import WITH an axis overwrites axis.data only.

DataSaveable._extract_data_with_axis does `axis.data = data[:,0]`; start, step
and length of the axis object keep the values it had before.  The axis is then
inconsistent: locate()/min/at() use the stale start and step and silently
address the wrong points.
"""
import warnings; warnings.filterwarnings("ignore")
import io, os, sys, tempfile, contextlib
import numpy
import quantarhei as qr
from quantarhei.spectroscopy.absbase import AbsSpectrumBase

td = tempfile.mkdtemp()
with qr.energy_units("1/cm"):
    w = qr.FrequencyAxis(10000.0, 6, 100.0)
    a = AbsSpectrumBase(axis=w, data=numpy.array([0.0, 1.0, 2.0, 1.0, 0.5, 0.25]))
    fn = os.path.join(td, "a.dat")
    # AbsSpectrumBase.load_data demands that some axis exists; it is replaced by the file
    w2 = qr.FrequencyAxis(10000.0, 6, 50.0)
    b = AbsSpectrumBase(axis=w2, data=numpy.zeros(6))
    with contextlib.redirect_stdout(io.StringIO()):
        a.save_data(fn)
        b.load_data(fn)
    print("exported axis : data", a.axis.data, "start", a.axis.start, "step", a.axis.step)
    print("imported axis : data", b.axis.data, "start", b.axis.start, "step", b.axis.step)
    va, vb = a.at(10120.0), b.at(10120.0)
    print("value at 10120 1/cm: exported %.4f   imported %.4f" % (va, vb))
    ok = (b.axis.step == a.axis.step) and abs(va - vb) < 1e-12
print()
print("REQUIRED: the imported spectrum and its axis equal the exported ones")
print("OBSERVED: axis.data comes from the file, start/step/length stay stale; at() is wrong")
sys.exit(0 if ok else 1)
