"""C18 finding 2: the Matlab (.mat) format turns one-dimensional data into a (1,N) matrix.

scipy.io.savemat stores a 1-D array as a row vector and loadmat returns it as
shape (1,N); DataSaveable._loadMatlab assigns it unchanged.  Every DFunction
(1-D data) exported to .mat and imported back is broken.
"""
import warnings; warnings.filterwarnings("ignore")
import os, sys, tempfile
import numpy
import quantarhei as qr

td = tempfile.mkdtemp()
t = qr.TimeAxis(0.0, 10, 1.0)
f = qr.DFunction(t, numpy.cos(t.data/3.0))
bad = 0
for ext in (".dat", ".npy", ".npz", ".mat"):
    fn = os.path.join(td, "f" + ext)
    f.save_data(fn)
    g = qr.DFunction(t, numpy.zeros(10))
    g.load_data(fn)
    try:
        val = g.at(3.5)
    except Exception as e:
        val = "%s: %s" % (type(e).__name__, e)
    ok = g.data.shape == f.data.shape
    print("%-4s saved shape %s loaded shape %-8s at(3.5): saved %.6f loaded %s -> %s"
          % (ext, f.data.shape, g.data.shape, f.at(3.5), val, "OK" if ok else "WRONG"))
    bad += (not ok)
print()
print("REQUIRED: the imported array equals the exported one in every format")
print("OBSERVED: .mat returns shape (1,N) for (N,) data; at() fails/indexes the wrong axis")
sys.exit(1 if bad else 0)
