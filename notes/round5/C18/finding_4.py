"""C18 finding 4: the text format drops dimensions of length one.

numpy.loadtxt squeezes its result: a function with ONE point comes back as a
0-d array, a 1x1 operator as a 0-d array, an (N,1) or (1,M) array as 1-D.
Both DataSaveable._importDataFromText and MatrixData._importDataFromText
assign the squeezed array.  The binary formats are fine.
"""
import warnings; warnings.filterwarnings("ignore")
import os, sys, tempfile
import numpy
import quantarhei as qr
from quantarhei.spectroscopy.twod2 import TwoDResponse

td = tempfile.mkdtemp()
bad = 0

# (a) a function on an axis of length 1
t = qr.TimeAxis(0.0, 1, 1.0)
f = qr.DFunction(t, numpy.array([2.5]))
for ext in (".npy", ".dat"):
    fn = os.path.join(td, "f" + ext); f.save_data(fn)
    g = qr.DFunction(t, numpy.zeros(1)); g.load_data(fn)
    ok = g.data.shape == f.data.shape
    print("DFunction of length 1   %-4s saved %s loaded %s -> %s" % (ext, f.data.shape, g.data.shape, "OK" if ok else "WRONG"))
    bad += (not ok)
try:
    g.data[0]
except Exception as e:
    print("   g.data[0] ->", type(e).__name__, e)

# (b) a density matrix of a one-level system (MatrixData)
r = qr.ReducedDensityMatrix(data=numpy.array([[1.0]]))
for ext in (".npy", ".dat"):
    fn = os.path.join(td, "r" + ext); r.save_data(fn)
    s = qr.ReducedDensityMatrix(dim=1); s.load_data(fn)
    ok = s.data.shape == r.data.shape
    print("1x1 ReducedDensityMatrix %-4s saved %s loaded %s -> %s" % (ext, r.data.shape, s.data.shape, "OK" if ok else "WRONG"))
    bad += (not ok)

# (c) 2D response with a single point on the omega_3 axis
with qr.energy_units("1/cm"):
    xa = qr.FrequencyAxis(10000.0, 4, 100.0); ya = qr.FrequencyAxis(11000.0, 1, 50.0)
d = (numpy.arange(4.0)+1j).reshape(4, 1)
for ext in (".npy", ".dat"):
    tw = TwoDResponse(); tw.set_axis_1(xa); tw.set_axis_3(ya)
    tw._add_data(d, resolution="off", dtype=qr.signal_TOTL)
    fn = os.path.join(td, "tw" + ext); tw.save_data(fn)
    tv = TwoDResponse(); tv.set_axis_1(xa); tv.set_axis_3(ya); tv.load_data(fn)
    ok = tv.data.shape == tw.data.shape
    print("TwoDResponse (4,1)       %-4s saved %s loaded %s -> %s" % (ext, tw.data.shape, tv.data.shape, "OK" if ok else "WRONG"))
    bad += (not ok)

print()
print("REQUIRED: text export + import returns the same array (also for length-1 dimensions)")
print("OBSERVED: %d text round trips changed the shape" % bad)
sys.exit(1 if bad else 0)
