# C15 (borderline, result access): the state returned by
# ReducedDensityMatrixEvolution.at() is a view of the propagation result
import sys, warnings
warnings.filterwarnings("ignore")
import numpy as np
import quantarhei as qr

agg = qr.TestAggregate("dimer-2-env")
agg.set_coupling_by_dipole_dipole()
agg.build()
time = qr.TimeAxis(0.0, 200, 1.0)
RR, HH = agg.get_RelaxationTensor(time, relaxation_theory="stR")
prop = qr.ReducedDensityMatrixPropagator(time, HH, RR)
rho = qr.ReducedDensityMatrix(dim=3)
rho.data[2, 2] = 1.0
rhot = prop.propagate(rho)
ref = rhot._data.copy()

r_out = rhot.at(50.0)
with qr.eigenbasis_of(HH):
    r_in = rhot.at(50.0)
d1 = np.max(np.abs(r_out._data - ref[50]))
d2 = np.max(np.abs(r_in._data - ref[50]))
print("state at 50 fs taken outside a context  : max diff to stored result %.2e" % d1)
print("state at 50 fs taken inside eigenbasis_of: max diff to stored result %.2e"
      "  (compared after the context was left)" % d2)

r2 = rhot.at(100.0)
r2.data[1, 1] = 0.0
d3 = np.max(np.abs(rhot._data - ref))
print("after writing into the state returned by at(100.0) the propagation result"
      " changed by %.2e" % d3)
print()
print("REQUIRED: 0 in all three cases")
if max(d1, d2, d3) > 1e-10:
    sys.exit(1)
