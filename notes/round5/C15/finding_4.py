# C15 finding 4: KTHierarchyPropagator.propagate() gives a different result when
# it is called inside `with qr.eigenbasis_of(H)`
import sys, io, contextlib, warnings
warnings.filterwarnings("ignore")
import numpy as np
import quantarhei as qr
from quantarhei.qm.liouvillespace.heom import KTHierarchy, KTHierarchyPropagator

agg = qr.TestAggregate("dimer-2-env")
agg.set_coupling_by_dipole_dipole()
agg.build()
H = agg.get_Hamiltonian()
sbi = agg.get_SystemBathInteraction()
with contextlib.redirect_stdout(io.StringIO()):
    hy = KTHierarchy(H, sbi, 2)
time = qr.TimeAxis(0.0, 200, 1.0)
kprop = KTHierarchyPropagator(time, hy)

rho = qr.ReducedDensityMatrix(dim=3)
rho.data[2, 2] = 1.0

r_out = kprop.propagate(rho)
with qr.eigenbasis_of(H):
    r_in = kprop.propagate(rho)
r_out2 = kprop.propagate(rho)

# for comparison: the density matrix propagator under the same conditions
RR, HH = agg.get_RelaxationTensor(time, relaxation_theory="stR")
prop = qr.ReducedDensityMatrixPropagator(time, HH, RR)
q_out = prop.propagate(rho)
with qr.eigenbasis_of(H):
    q_in = prop.propagate(rho)

d_heom = np.max(np.abs(r_in._data - r_out._data))
d_rep = np.max(np.abs(r_out2._data - r_out._data))
d_rdm = np.max(np.abs(q_in._data - q_out._data))
print("all results compared outside the context (site basis)")
print("HEOM  : max|rho_t(inside eigenbasis_of(H)) - rho_t(outside)| = %.2e"
      "   (repeat outside: %.2e)" % (d_heom, d_rep))
print("        site populations at t=199 fs: outside %s   inside %s"
      % (np.array2string(np.real(np.diag(r_out._data[-1])), precision=4),
         np.array2string(np.real(np.diag(r_in._data[-1])), precision=4)))
print("Redfield density-matrix propagator, same test: %.2e" % d_rdm)
print()
print("REQUIRED: same hierarchy, propagator and initial state -> same rho(t),"
      " inside or outside a basis context")
if d_heom > 1e-8:
    print("OBSERVED: inside the context the hierarchy couples the eigenbasis"
          " Hamiltonian with site-basis system-bath operators (hy.Vs = sbi.KK)")
    sys.exit(1)
print("OBSERVED: no difference")
