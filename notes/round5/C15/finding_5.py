# C15 finding 5: propagate() with the non-equilibrium Foerster tensor
# (relaxation_theory="neF", time_dependent=True) gives a different result when
# it is called inside `with qr.eigenbasis_of(H)`
import sys, warnings
warnings.filterwarnings("ignore")
import numpy as np
import quantarhei as qr

agg = qr.TestAggregate("dimer-2-env")
agg.set_coupling_by_dipole_dipole()
agg.build()
H = agg.get_Hamiltonian()
time = qr.TimeAxis(0.0, 200, 1.0)

rho = qr.ReducedDensityMatrix(dim=3)
rho.data[2, 2] = 0.7
rho.data[1, 1] = 0.3
rho.data[1, 2] = 0.2 + 0.1j
rho.data[2, 1] = 0.2 - 0.1j

out = {}
for name, kw in (("stF  (time dependent)", dict(relaxation_theory="stF",
                                                 time_dependent=True)),
                 ("neF  (time dependent)", dict(relaxation_theory="neF",
                                                 time_dependent=True))):
    RR, H0 = agg.get_RelaxationTensor(time, **kw)
    prop = qr.ReducedDensityMatrixPropagator(time, H0, RR)
    T0 = RR._data.copy()
    r_out = prop.propagate(rho)
    with qr.eigenbasis_of(H):
        r_in = prop.propagate(rho)
    r_out2 = prop.propagate(rho)
    d_in = np.max(np.abs(r_in._data - r_out._data))
    d_rep = np.max(np.abs(r_out2._data - r_out._data))
    out[name] = d_in
    print("%s max|rho_t(inside eigenbasis_of(H)) - rho_t(outside)| = %.2e"
          "   repeat outside: %.2e   tensor data changed by %.1e"
          % (name, d_in, d_rep, np.max(np.abs(T0 - RR._data))))
    print("      site populations at t_end: outside %s  inside %s"
          % (np.array2string(np.real(np.diag(r_out._data[-1])), precision=4),
             np.array2string(np.real(np.diag(r_in._data[-1])), precision=4)))

print()
print("REQUIRED: same propagator, tensor and initial state -> same rho(t) inside"
      " and outside a basis context (as for the time-dependent standard"
      " Foerster tensor, ~1e-15)")
if out["neF  (time dependent)"] > 1e-8:
    print("OBSERVED: with the non-equilibrium Foerster tensor the result inside"
          " the context is different: the inhomogeneous term is built from"
          " site-basis quantities (RR.II) and the eigenbasis rho, and is added"
          " untransformed")
    sys.exit(1)
print("OBSERVED: no difference")
