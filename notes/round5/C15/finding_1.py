# C15 finding 1: Foerster-type theories return a wrong propagation Hamiltonian
# when get_RelaxationTensor() is called inside `with qr.energy_units(...)`
import sys, warnings
warnings.filterwarnings("ignore")
import numpy as np
import quantarhei as qr


def build():
    agg = qr.TestAggregate("dimer-2-env")
    agg.set_coupling_by_dipole_dipole()
    agg.build()
    return agg


def rho0(dim):
    r = qr.ReducedDensityMatrix(dim=dim)
    r.data[2, 2] = 0.7
    r.data[1, 1] = 0.3
    r.data[1, 2] = 0.2 + 0.1j
    r.data[2, 1] = 0.2 - 0.1j
    return r


time = qr.TimeAxis(0.0, 200, 1.0)
bad = False
for kw in (dict(relaxation_theory="stF"),
           dict(relaxation_theory="stF", time_dependent=True),
           dict(relaxation_theory="neF")):

    # reference: default (internal) units
    agg = build()
    RR, H0 = agg.get_RelaxationTensor(time, **kw)
    rho = rho0(H0.dim)
    ref = qr.ReducedDensityMatrixPropagator(time, H0, RR).propagate(rho)

    # the same calls, same inputs, but inside an energy units context
    agg = build()
    with qr.energy_units("1/cm"):
        RRu, H0u = agg.get_RelaxationTensor(time, **kw)
        res = qr.ReducedDensityMatrixPropagator(time, H0u, RRu).propagate(rho)

    dT = np.max(np.abs(RR._data - RRu._data))
    dH = np.max(np.abs(H0._data - H0u._data))
    dR = np.max(np.abs(ref._data - res._data))
    print(kw)
    print("   site energies of returned Hamiltonian (internal units):")
    print("      outside context :", np.diag(H0._data))
    print("      inside  1/cm ctx:", np.diag(H0u._data))
    print("   max|tensor diff| = %.2e   max|H diff| = %.2e   max|rho(t) diff| = %.2e"
          % (dT, dH, dR))
    if dH > 1e-10 or dR > 1e-10:
        bad = True

print()
print("REQUIRED: tensor, Hamiltonian and rho(t) do not depend on the energy units"
      " that are current when the calls are made (diffs = 0)")
if bad:
    print("OBSERVED: the Hamiltonian returned with the Foerster tensors is rescaled"
          " by 1.88e-4 (internal values re-read as 1/cm) and rho(t) differs")
    sys.exit(1)
print("OBSERVED: no difference")
