# C15 finding 3: propagate() with a time-dependent Redfield tensor in operator
# form (time_dependent=True, as_operators=True) gives a different result when
# it is called inside `with qr.eigenbasis_of(H)`
import sys, warnings
warnings.filterwarnings("ignore")
import numpy as np
import quantarhei as qr

agg = qr.TestAggregate("dimer-2-env")
agg.set_coupling_by_dipole_dipole()
agg.build()
time = qr.TimeAxis(0.0, 200, 1.0)

rho = qr.ReducedDensityMatrix(dim=3)
rho.data[2, 2] = 0.7
rho.data[1, 1] = 0.3
rho.data[1, 2] = 0.2 + 0.1j
rho.data[2, 1] = 0.2 - 0.1j

res = {}
for name, kw in (("TD tensor form   ", dict(time_dependent=True)),
                 ("const. oper. form", dict(as_operators=True)),
                 ("TD operator form ", dict(time_dependent=True,
                                            as_operators=True))):
    RR, HH = agg.get_RelaxationTensor(time, relaxation_theory="stR", **kw)
    prop = qr.ReducedDensityMatrixPropagator(time, HH, RR)
    r_out = prop.propagate(rho)
    with qr.eigenbasis_of(HH):
        r_in = prop.propagate(rho)
    r_out2 = prop.propagate(rho)
    # all compared outside the context, i.e. in the site basis
    d_in = np.max(np.abs(r_in._data - r_out._data))
    d_rep = np.max(np.abs(r_out2._data - r_out._data))
    res[name] = d_in
    print("%s  max|rho_t(in eigenbasis_of) - rho_t(outside)| = %.2e ;"
          "  repeat outside: %.2e ;  populations at t_end: outside %s inside %s"
          % (name, d_in, d_rep,
             np.array2string(np.real(np.diag(r_out._data[-1])), precision=4),
             np.array2string(np.real(np.diag(r_in._data[-1])), precision=4)))

print()
print("REQUIRED: the same propagator, tensor and initial state give the same"
      " rho(t) inside and outside a basis context (diff ~ 1e-15, as for the"
      " other two forms)")
if res["TD operator form "] > 1e-8:
    print("OBSERVED: with the time-dependent operator form the result inside the"
          " context is wrong (Km, Lm, Ld stay in the site basis while H and rho"
          " are in the eigenbasis)")
    sys.exit(1)
print("OBSERVED: no difference")
