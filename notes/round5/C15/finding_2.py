# C15 finding 2: Redfield tensor / rate matrix built inside `with eigenbasis_of(H)`
# depends on whether H.data happened to be read earlier in the block, and
# differs from the one built outside the block
import sys, warnings
warnings.filterwarnings("ignore")
import numpy as np
import quantarhei as qr


def build():
    agg = qr.TestAggregate("trimer-2-env")
    agg.set_coupling_by_dipole_dipole()
    agg.build()
    return agg


time = qr.TimeAxis(0.0, 200, 1.0)

# ---------------------------------------------------------------- rate matrix
agg = build()
H = agg.get_Hamiltonian()
K_out = agg.get_RedfieldRateMatrix().data.copy()
with qr.eigenbasis_of(H):
    K_in1 = agg.get_RedfieldRateMatrix().data.copy()
    _ = H.data                        # a read access, nothing else
    K_in2 = agg.get_RedfieldRateMatrix().data.copy()
K_after = agg.get_RedfieldRateMatrix().data.copy()

d1 = np.max(np.abs(K_out - K_in1))
d2 = np.max(np.abs(K_out - K_in2))
d3 = np.max(np.abs(K_out - K_after))
print("get_RedfieldRateMatrix(), same aggregate, same arguments:")
print("   outside context                      K[1,2] = %.6e" % K_out[1, 2])
print("   inside eigenbasis_of(H), 1st call    K[1,2] = %.6e   max diff %.2e"
      % (K_in1[1, 2], d1))
print("   inside, after reading H.data         K[1,2] = %.6e   max diff %.2e"
      % (K_in2[1, 2], d2))
print("   outside again                        K[1,2] = %.6e   max diff %.2e"
      % (K_after[1, 2], d3))

# -------------------------------------------------------------------- tensor
def tensor(mode):
    agg = build()
    H = agg.get_Hamiltonian()
    if mode == "outside":
        RR, HH = agg.get_RelaxationTensor(time, relaxation_theory="stR")
    else:
        with qr.eigenbasis_of(H):
            if mode == "inside, H read before":
                _ = H.data
            RR, HH = agg.get_RelaxationTensor(time, relaxation_theory="stR")
    rho = qr.ReducedDensityMatrix(dim=HH.dim)
    rho.data[3, 3] = 1.0
    rhot = qr.ReducedDensityMatrixPropagator(time, HH, RR).propagate(rho)
    # everything is compared outside of all contexts, i.e. in the site basis
    return RR._data.copy(), rhot._data.copy()

print()
print("get_RelaxationTensor(relaxation_theory='stR') + propagate():")
T0, R0 = tensor("outside")
dd = []
for mode in ("inside, H not read", "inside, H read before"):
    T, R = tensor(mode)
    dT = np.max(np.abs(T - T0)); dR = np.max(np.abs(R - R0))
    dd.append(dR)
    print("   %-24s max|tensor - outside| = %.2e   max|rho(t) - outside| = %.2e"
          "   populations(t_end) = %s" % (mode, dT, dR,
          np.array2string(np.real(np.diag(R[-1])), precision=4)))
print("   %-24s populations(t_end) = %s" % ("outside",
      np.array2string(np.real(np.diag(R0[-1])), precision=4)))

print()
print("REQUIRED: the same call with the same system returns the same rates/tensor,"
      " whatever was read or computed before (all diffs ~ 1e-15)")
if max(d1, d2, d3, *dd) > 1e-8:
    print("OBSERVED: results depend on a previous read of H.data and on the"
          " enclosing basis context")
    sys.exit(1)
print("OBSERVED: no difference")
