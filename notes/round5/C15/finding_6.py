# C15 finding 6: EvolutionSuperOperator.calculate() with Gaussian pure dephasing
# and a Hamiltonian with RWA (the default for aggregates) crashes; the cause is
# that propagate() on a time axis that does not start at zero rebuilds the
# initial state as a ReducedDensityMatrix, which refuses non-Hermitian data
import sys, warnings, traceback
warnings.filterwarnings("ignore")
import numpy as np
import quantarhei as qr

agg = qr.TestAggregate("dimer-2-env")
agg.set_coupling_by_dipole_dipole()
agg.build()
tsb = agg.get_SystemBathInteraction().TimeAxis
RR, HH = agg.get_RelaxationTensor(tsb, relaxation_theory="stR")
print("Hamiltonian has RWA:", HH.has_rwa)

time = qr.TimeAxis(0.0, 11, 10.0)
dr = np.array([[0, 1e-4, 1e-4], [1e-4, 0, 2e-5], [1e-4, 2e-5, 0]])
failed = False
for dtype in ("Lorentzian", "Gaussian"):
    pd = qr.qm.PureDephasing(drates=dr, dtype=dtype)
    eso = qr.qm.EvolutionSuperOperator(time, HH, RR, pdeph=pd)
    eso.set_dense_dt(10)
    try:
        eso.calculate()
        print("%-10s pure dephasing: calculate() finished, |U(100 fs)[1,2,1,2]| = %.4f"
              % (dtype, abs(eso.data[10, 1, 2, 1, 2])))
    except Exception as e:
        failed = True
        print("%-10s pure dephasing: calculate() raised %s: %s"
              % (dtype, type(e).__name__, e))
        tb = traceback.extract_tb(sys.exc_info()[2])
        for fr in tb[-4:]:
            print("      %s:%d in %s" % (fr.filename.split("quantarhei/")[-1],
                                         fr.lineno, fr.name))

# the same thing directly with the propagator
print()
rho = qr.ReducedDensityMatrix(dim=3)
rho.data[1, 2] = 1.0     # an element |1><2|, as used by the superoperator
for start in (0.0, 10.0):
    ta = qr.TimeAxis(start, 11, 1.0)
    prop = qr.ReducedDensityMatrixPropagator(ta, HH, RR)
    try:
        rt = prop.propagate(rho)
        print("propagate(|1><2|) on axis starting at %5.1f fs: ok, |rho12(end)| = %.4f"
              % (start, abs(rt._data[-1, 1, 2])))
    except Exception as e:
        failed = True
        print("propagate(|1><2|) on axis starting at %5.1f fs: raised %s" % (start, e))

print()
print("REQUIRED: the evolution superoperator is computed for both kinds of pure"
      " dephasing; propagate() accepts the same initial state whatever the start"
      " of the time axis")
if failed:
    print("OBSERVED: exception for Gaussian dephasing / non-zero start of the axis")
    sys.exit(1)
print("OBSERVED: all calls finished")
