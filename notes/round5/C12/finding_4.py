"""C12 finding 4: no pathway can be generated from a thermally populated
ground-state level other than state 0.  liouville_pathway.__init__ sets
self.current[0] twice and never self.current[1], so the bra side of the diagram
starts in state 0 whatever `sinit` is, and the first interaction from the right
is refused.
Run:  cd /tmp && PYTHONPATH=/tmp/w5_C12 /venv/bin/python /tmp/w5_C12/finding_4.py
"""
import sys, warnings, traceback
warnings.filterwarnings("ignore")
import numpy
import quantarhei as qr
from quantarhei.spectroscopy.diagramatics import liouville_pathway

X = [1.0, 0.0, 0.0]
with qr.energy_units("1/cm"):
    m1 = qr.Molecule([0.0, 12000.0]); m1.set_transition_width((0, 1), 100.0)
    mod = qr.Mode(frequency=100.0); m1.add_Mode(mod)
    mod.set_nmax(0, 2); mod.set_nmax(1, 2); mod.set_HR(1, 0.1)
    m2 = qr.Molecule([0.0, 12300.0]); m2.set_transition_width((0, 1), 100.0)
m1.set_dipole(0, 1, [1.0, 0.0, 0.0]); m2.set_dipole(0, 1, [0.0, 1.0, 0.0])
agg = qr.Aggregate(molecules=[m1, m2])
agg.build(mult=2)
agg.diagonalize()
agg.get_DensityMatrix(condition_type="thermal", temperature=300.0)
print("ground-state populations at 300 K:", numpy.real(numpy.diag(agg.rho0))[:2])

lp = liouville_pathway("R", 1, aggregate=agg, order=3, pname="R3g")
print("liouville_pathway('R', sinit=1): sinit =", lp.sinit, " current =", lp.current,
      "  (required: current == [1 1])")

H = agg.get_Hamiltonian()
lab = qr.LabSetup()
lab.set_pulse_polarizations(pulse_polarizations=(X, X, X), detection_polarization=X)
try:
    pws = agg.liouville_pathways_3T(ptype=("R1g", "R2g", "R3g", "R4g"),
                                    eUt=qr.qm.SOpUnity(dim=H.dim), ham=H, lab=lab)
    starts = sorted(set(int(p.sinit[0]) for p in pws))
    print("pathways:", len(pws), " starting states:", starts)
    ok = (1 in starts)
except Exception as e:
    traceback.print_exc(limit=1)
    print("liouville_pathways_3T raised:", repr(e))
    ok = False
print("REQUIRED: pathways starting in ground-state level 1, weighted by its population 0.38")
if not ok:
    print("VIOLATION observed"); sys.exit(1)
print("no violation"); sys.exit(0)
