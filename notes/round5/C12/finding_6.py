"""C12 finding 6: the two 2D line-shape functions fill the array in different
orientations.  voigt2D/gaussian2D writes data[i_w3, i_w1] (the convention of
TwoDResponse: d__data[iy, ix]) but indexes the second dimension with an index
that runs over w1, so it fails as soon as the t1 and t3 axes differ in length;
lorentzian2D writes data[i_w1, i_w3], so with shape="Lorentzian" the whole
response is the transpose of what TwoDResponse expects (w1 and w3 exchanged).
Run:  cd /tmp && PYTHONPATH=/tmp/w5_C12 /venv/bin/python /tmp/w5_C12/finding_6.py
"""
import sys, warnings
warnings.filterwarnings("ignore")
import numpy
import quantarhei as qr
from quantarhei.spectroscopy.mocktwodcalculator import MockTwoDResponseCalculator
from quantarhei.spectroscopy.lineshapes import gaussian2D, lorentzian2D

bad = False
o = numpy.linspace(-10.0, 10.0, 41)
G = gaussian2D(o, -5.0, 1.0, o, 4.0, 1.0)
L = lorentzian2D(o, -5.0, 0.5, o, 4.0, 0.5)
ig = numpy.unravel_index(numpy.argmax(numpy.abs(G)), G.shape)
il = numpy.unravel_index(numpy.argmax(numpy.abs(L)), L.shape)
print("peak centred at (omega1, omega2) = (-5, 4)")
print("  gaussian2D  : max at [%d,%d] -> first index is omega =" % ig, o[ig[0]],
      ", second index is omega =", o[ig[1]])
print("  lorentzian2D: max at [%d,%d] -> first index is omega =" % il, o[il[0]],
      ", second index is omega =", o[il[1]])
if ig != il:
    bad = True

X = [1.0, 0.0, 0.0]
def response(shape, N1, N3):
    with qr.energy_units("1/cm"):
        m = qr.Molecule([0.0, 12000.0]); m.set_transition_width((0, 1), 100.0)
    m.set_transition_dephasing((0, 1), 1.0/100.0)
    m.set_dipole(0, 1, [1.0, 0.0, 0.0])
    agg = qr.Aggregate(molecules=[m]); agg.build(mult=1); agg.diagonalize()
    H = agg.get_Hamiltonian()
    t2 = qr.TimeAxis(0.0, 2, 10.0)
    calc = MockTwoDResponseCalculator(qr.TimeAxis(0.0, N1, 10.0), t2,
                                      qr.TimeAxis(0.0, N3, 10.0))
    with qr.energy_units("1/cm"):
        calc.bootstrap(rwa=12000.0, shape=shape)
    lab = qr.LabSetup()
    lab.set_pulse_polarizations(pulse_polarizations=(X, X, X), detection_polarization=X)
    K = qr.qm.ProjectionOperator(0, 1, dim=H.dim)
    sbi = qr.qm.SystemBathInteraction(sys_operators=[K], rates=(1.0e-12,))
    eUt = qr.EvolutionSuperOperator(t2, H, relt=qr.qm.LindbladForm(H, sbi))
    eUt.set_dense_dt(2); eUt.calculate()
    tw = calc.calculate_one_system(0.0, agg, eUt, lab)
    tw.set_data_flag(qr.signal_TOTL)
    return tw

for shape in ("Gaussian", "Lorentzian"):
    try:
        tw = response(shape, 60, 40)
        shp = tw.d__data.shape
        print("t1 axis 60 points, t3 axis 40 points, shape=%s: data shape %s,"
              % (shape, str(shp)), "required (len(yaxis), len(xaxis)) =",
              (tw.yaxis.length, tw.xaxis.length))
        if shp != (tw.yaxis.length, tw.xaxis.length):
            bad = True
    except Exception as e:
        print("t1 axis 60 points, t3 axis 40 points, shape=%s: raised %r" % (shape, e))
        bad = True
print("REQUIRED: a response array d__data[i_w3, i_w1] for both line shapes and any axis lengths")
if bad:
    print("VIOLATION observed"); sys.exit(1)
print("no violation"); sys.exit(0)
