"""C12 finding 2: the orientational prefactor is computed with polarisations
the LabSetup no longer has.  LabSetup.F4eM4 is evaluated once in
set_pulse_polarizations(); changing a polarisation afterwards through the
documented LabField interface (set_polarization / .pol) or through lab.e
changes lab.e and get_pulse_polarizations(), but not F4eM4, which
liouville_pathway.orientational_averaging() uses.
Run:  cd /tmp && PYTHONPATH=/tmp/w5_C12 /venv/bin/python /tmp/w5_C12/finding_2.py
"""
import sys, warnings
warnings.filterwarnings("ignore")
import numpy
import quantarhei as qr

X = [1.0, 0.0, 0.0]; Y = [0.0, 1.0, 0.0]

def exact_average(es, ds):
    """<prod_k e_k . (R d_k)> over all rotations R, by exact quadrature"""
    na = 8
    al = 2*numpy.pi*numpy.arange(na)/na
    xg, wg = numpy.polynomial.legendre.leggauss(8)
    tot = 0.0; wt = 0.0
    c = numpy.cos; s = numpy.sin
    for a in al:
        Ra = numpy.array([[c(a), -s(a), 0], [s(a), c(a), 0], [0, 0, 1]])
        for g in al:
            Rg = numpy.array([[c(g), -s(g), 0], [s(g), c(g), 0], [0, 0, 1]])
            for x, w in zip(xg, wg):
                b = numpy.arccos(x)
                Rb = numpy.array([[c(b), 0, s(b)], [0, 1, 0], [-s(b), 0, c(b)]])
                R = Ra @ Rb @ Rg
                p = 1.0
                for e, d in zip(es, ds):
                    p *= numpy.dot(e, R @ d)
                tot += w*p; wt += w
    return tot/wt

with qr.energy_units("1/cm"):
    m1 = qr.Molecule([0.0, 12000.0]); m1.set_transition_width((0, 1), 100.0)
    m2 = qr.Molecule([0.0, 12300.0]); m2.set_transition_width((0, 1), 100.0)
m1.set_dipole(0, 1, [1.0, 0.2, 0.0]); m2.set_dipole(0, 1, [0.3, 0.9, 0.4])
agg = qr.Aggregate(molecules=[m1, m2])
with qr.energy_units("1/cm"):
    agg.set_resonance_coupling(0, 1, 80.0)
agg.build(mult=2)
agg.diagonalize()
H = agg.get_Hamiltonian()

lab = qr.LabSetup()
lab.set_pulse_polarizations(pulse_polarizations=(X, X, X), detection_polarization=X)
# now turn pulses 2 and 3 to Y through the LabField objects of the lab
lab.get_labfield(1).set_polarization(Y)
lab.get_labfield(2).pol = Y
es = list(lab.get_pulse_polarizations()) + [lab.get_detection_polarization()]
print("polarisations reported by the lab:", [list(e) for e in es])

pws = agg.liouville_pathways_3T(ptype=("R1g", "R2g", "R3g", "R4g", "R1f*", "R2f*"),
                                eUt=qr.qm.SOpUnity(dim=H.dim), ham=H, lab=lab)
worst = 0.0
for k, p in enumerate(pws):
    req = p.sign*exact_average(es, p.dmoments)*numpy.real(p.evolfac)
    worst = max(worst, abs(req - numpy.real(p.pref)))
    if k < 4:
        print("pathway %-4s states %s : prefactor %.6f   exact average %.6f"
              % (p.pathway_name, str(p.get_states()[1:4]), numpy.real(p.pref), req))
print("number of pathways", len(pws), "; largest |prefactor - exact average| =", worst)
print("REQUIRED: prefactor == exact orientational average for the polarisations "
      "of the lab (difference ~1e-16)")
if worst > 1.0e-10:
    print("VIOLATION observed"); sys.exit(1)
print("no violation"); sys.exit(0)
