"""C12 finding 3: excited-state absorption is silently left out when the
evolution superoperator has the dimension of the aggregate it is used with.
MockTwoDResponseCalculator.calculate_one_system() decides on ESA by
`H1.dim == eUt.dim`; with an aggregate built with mult=2 and the evolution
superoperator made from *its own* Hamiltonian, no R1f*/R2f* pathway is made and
the cross peaks of uncoupled molecules do not cancel.
Run:  cd /tmp && PYTHONPATH=/tmp/w5_C12 /venv/bin/python /tmp/w5_C12/finding_3.py
"""
import sys, warnings
warnings.filterwarnings("ignore")
import numpy
import quantarhei as qr
from quantarhei.spectroscopy.mocktwodcalculator import MockTwoDResponseCalculator

X = [1.0, 0.0, 0.0]

def build(energies, dipoles, mult):
    mols = []
    with qr.energy_units("1/cm"):
        for e in energies:
            m = qr.Molecule([0.0, e]); m.set_transition_width((0, 1), 100.0)
            mols.append(m)
    for m, d in zip(mols, dipoles):
        m.set_dipole(0, 1, d)
    agg = qr.Aggregate(molecules=mols)       # uncoupled
    agg.build(mult=mult)
    return agg

def response(energies, dipoles, own_hamiltonian):
    agg = build(energies, dipoles, 2)
    if own_hamiltonian:
        H = agg.get_Hamiltonian()                       # dimension 4 for a dimer
    else:
        H = build(energies, dipoles, 1).get_Hamiltonian()   # dimension 3
    agg.diagonalize()
    t2 = qr.TimeAxis(0.0, 2, 10.0)
    calc = MockTwoDResponseCalculator(qr.TimeAxis(0.0, 60, 10.0), t2,
                                      qr.TimeAxis(0.0, 60, 10.0))
    with qr.energy_units("1/cm"):
        calc.bootstrap(rwa=12100.0)
    lab = qr.LabSetup()
    lab.set_pulse_polarizations(pulse_polarizations=(X, X, X), detection_polarization=X)
    K = qr.qm.ProjectionOperator(0, 1, dim=H.dim)
    sbi = qr.qm.SystemBathInteraction(sys_operators=[K], rates=(1.0e-12,))
    eUt = qr.EvolutionSuperOperator(t2, H, relt=qr.qm.LindbladForm(H, sbi))
    eUt.set_dense_dt(2); eUt.calculate()
    pw = dict()
    tw = calc.calculate_one_system(0.0, agg, eUt, lab, pways=pw)
    names = sorted(set(p.pathway_name for p in pw["0.0"]))
    tw.set_data_flag(qr.signal_TOTL)
    return numpy.array(tw.d__data), names, tw

en = [12000.0, 12400.0]; dip = [[1.0, 0.2, 0.0], [0.8, 0.5, 0.3]]
mono = response(en[:1], dip[:1], False)[0] + response(en[1:], dip[1:], False)[0]
bad = False
for own in (False, True):
    dim, names, tw = response(en, dip, own)
    dev = numpy.max(numpy.abs(dim-mono))/numpy.max(numpy.abs(mono))
    with qr.energy_units("1/cm"):
        cross = tw.get_value_at(12000.0, 12400.0)
    print("evolution superoperator from the",
          "aggregate's own (mult=2) Hamiltonian:" if own else "one-exciton Hamiltonian:           ")
    print("    pathway types used:", names)
    print("    cross peak (w1=12000, w3=12400 1/cm):", numpy.real(cross),
          "   max|dimer - sum of monomers|/max|sum| =", dev)
    if dev > 1.0e-10:
        bad = True
print("REQUIRED: uncoupled molecules -> no cross peaks, response = sum of the monomer responses")
if bad:
    print("VIOLATION observed"); sys.exit(1)
print("no violation"); sys.exit(0)
