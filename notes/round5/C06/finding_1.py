# finding_1: RedfieldRelaxationTensor created inside `with qr.eigenbasis_of(H)`
# (Hamiltonian not basis-protected) has no population transfer at all: all
# elements R[a,a,b,b] are ~1e-32 instead of the golden-rule rates.
import sys, warnings
warnings.filterwarnings("ignore")
import numpy as np
import quantarhei as qr
from quantarhei.qm.corfunctions import CorrelationFunctionMatrix, SpectralDensity
from quantarhei.qm import SystemBathInteraction, Operator, RedfieldRelaxationTensor
from quantarhei.core.units import kB_intK

T = 300.0
time = qr.TimeAxis(0.0, 2000, 1.0)
params = dict(ftype="OverdampedBrownian", reorg=30.0, T=T, cortime=100.0)

def system():
    with qr.energy_units("1/cm"):
        cf = qr.CorrelationFunction(time, params)
        H = qr.Hamiltonian(data=[[0.0, 0.0, 0.0, 0.0],
                                 [0.0, 12000.0, 50.0, 20.0],
                                 [0.0, 50.0, 12100.0, -30.0],
                                 [0.0, 20.0, -30.0, 12300.0]])
    cm = CorrelationFunctionMatrix(time, 3, 1)
    cm.set_correlation_function(cf, [(0, 0), (1, 1), (2, 2)])
    ops = []
    for i in range(3):
        K = np.zeros((4, 4)); K[i+1, i+1] = 1.0
        ops.append(Operator(data=K))
    return H, SystemBathInteraction(ops, cm)

def pop_rates(RT):
    return np.real(np.einsum("iijj->ij", RT.data)).copy()

# golden rule
H, sbi = system()
hD, SS = np.linalg.eigh(H._data)
with qr.energy_units("1/cm"):
    sd = SpectralDensity(time, params)
def golden(a, b):   # rate a <- b
    w = hD[b] - hD[a]
    Jw = sd.at(abs(w), approx="spline")
    n = 1.0/(np.exp(abs(w)/(kB_intK*T)) - 1.0)
    ov = sum(SS[n_, a]**2*SS[n_, b]**2 for n_ in range(1, 4))
    return ov*2.0*Jw*(n + 1.0 if w > 0 else n)

# reference: tensor created outside of any context (data are in the eigenstate basis)
Kref = pop_rates(RedfieldRelaxationTensor(H, sbi))

# the same call inside the eigenbasis context
H, sbi = system()
with qr.eigenbasis_of(H):
    RT = RedfieldRelaxationTensor(H, sbi)
    Kin = pop_rates(RT)
with qr.eigenbasis_of(H):
    Kafter = pop_rates(RT)

np.set_printoptions(precision=4, linewidth=150)
print("downhill rate 1<-2 [1/fs]: golden rule %.4e, tensor created outside context %.4e" % (golden(1, 2), Kref[1, 2]))
print("tensor created inside `with eigenbasis_of(H)`, read in that context:")
print(Kin[1:, 1:])
print("   -> downhill rate 1<-2 = %.3e  (required %.4e)" % (Kin[1, 2], golden(1, 2)))
print("the same tensor object read in a later `with eigenbasis_of(H)` block:")
print(Kafter[1:, 1:])
req = np.exp(-(hD[1]-hD[2])/(kB_intK*T))
print("   -> downhill rate 1<-2 = %.3e, uphill 2<-1 = %.3e; required ratio exp(-(E1-E2)/kT) = %.4f"
      % (Kafter[1, 2], Kafter[2, 1], req))

bad = (abs(Kin[1, 2]/golden(1, 2) - 1.0) > 0.05) or (abs(Kafter[1, 2]/golden(1, 2) - 1.0) > 0.05)
if bad:
    print("VIOLATION: tensor built inside an eigenbasis_of context does not give the golden-rule rates / detailed balance")
    sys.exit(1)
print("ok")
