# finding_2: for a complex Hermitian Hamiltonian the Redfield rates (rate matrix,
# tensor, time-dependent rates) drop the imaginary parts of the eigenvector
# coefficients and miss the golden-rule value; Foerster rates use J**2 instead
# of |J|**2 and become negative.
import sys, warnings
warnings.filterwarnings("ignore")
import numpy as np
import quantarhei as qr
from quantarhei.qm.corfunctions import CorrelationFunctionMatrix, SpectralDensity
from quantarhei.qm import SystemBathInteraction, Operator
from quantarhei.qm import RedfieldRateMatrix, RedfieldRelaxationTensor
from quantarhei.qm.liouvillespace.rates.tdredfieldrates import TDRedfieldRateMatrix
from quantarhei.qm.liouvillespace.rates.foersterrates import FoersterRateMatrix
from quantarhei.core.units import kB_intK

T = 300.0
time = qr.TimeAxis(0.0, 2000, 1.0)
params = dict(ftype="OverdampedBrownian", reorg=30.0, T=T, cortime=100.0)

def system(phases):
    p12, p23, p13 = phases
    h = np.zeros((4, 4), dtype=complex)
    h[1, 1], h[2, 2], h[3, 3] = 12000.0, 12100.0, 12300.0
    h[1, 2] = 50.0*np.exp(1j*p12);  h[2, 1] = np.conj(h[1, 2])
    h[2, 3] = -30.0*np.exp(1j*p23); h[3, 2] = np.conj(h[2, 3])
    h[1, 3] = 20.0*np.exp(1j*p13);  h[3, 1] = np.conj(h[1, 3])
    with qr.energy_units("1/cm"):
        cf = qr.CorrelationFunction(time, params)
        H = qr.Hamiltonian(data=h)
    cm = CorrelationFunctionMatrix(time, 3, 1)
    cm.set_correlation_function(cf, [(0, 0), (1, 1), (2, 2)])
    ops = []
    for i in range(3):
        K = np.zeros((4, 4)); K[i+1, i+1] = 1.0
        ops.append(Operator(data=K))
    return H, SystemBathInteraction(ops, cm)

with qr.energy_units("1/cm"):
    sd = SpectralDensity(time, params)

def golden_matrix(H):
    hD, SS = np.linalg.eigh(H._data)
    G = np.zeros((4, 4))
    for a in range(1, 4):
        for b in range(1, 4):
            if a != b:
                w = hD[b] - hD[a]
                Jw = sd.at(abs(w), approx="spline")
                n = 1.0/(np.exp(abs(w)/(kB_intK*T)) - 1.0)
                ov = sum(abs(SS[k, a])**2*abs(SS[k, b])**2 for k in range(1, 4))
                G[a, b] = ov*2.0*Jw*(n + 1.0 if w > 0 else n)
    return G

def maxdev(R, G):
    m = ~np.eye(4, dtype=bool)
    return np.max(np.abs(R - G)[m])/np.max(G[m])

bad = False
for label, phases in (("real couplings", (0.0, 0.0, 0.0)),
                      ("complex couplings (same moduli)", (0.7, -0.3, 1.1))):
    H, sbi = system(phases)
    G = golden_matrix(H)
    R = RedfieldRateMatrix(H, sbi).data
    RT = RedfieldRelaxationTensor(H, sbi)
    KT = np.real(np.einsum("iijj->ij", RT.data)).copy()
    TD = TDRedfieldRateMatrix(H, sbi).data[-1]
    F = FoersterRateMatrix(H, sbi).data
    print("%s:" % label)
    print("   downhill 1<-2: golden %.4e | rate matrix %.4e | tensor %.4e | TD rates (t_max) %.4e"
          % (G[1, 2], R[1, 2], KT[1, 2], TD[1, 2]))
    print("   downhill 2<-3: golden %.4e | rate matrix %.4e | tensor %.4e | TD rates (t_max) %.4e"
          % (G[2, 3], R[2, 3], KT[2, 3], TD[2, 3]))
    print("   max deviation from golden rule / max rate: rate matrix %.3f, tensor %.3f, TD %.3f"
          % (maxdev(R, G), maxdev(KT, G), maxdev(TD, G)))
    print("   Foerster rates 1<-3 = %.4e, 3<-1 = %.4e (|J13| = 20 1/cm in both cases)" % (F[1, 3], F[3, 1]))
    if label.startswith("complex"):
        if max(maxdev(R, G), maxdev(KT, G), maxdev(TD, G)) > 0.02 or F[1, 3] < 0:
            bad = True

if bad:
    print("VIOLATION: with a complex Hermitian Hamiltonian the Redfield rates differ from "
          "sum_n |c_na|^2 |c_nb|^2 (1+coth) J(w) by several per cent (real case: 0.2 %), "
          "and a Foerster rate is negative")
    sys.exit(1)
print("ok")
