# finding_6: RedfieldRateMatrix and TDRedfieldRateMatrix silently set every rate
# with a transition frequency above a hard-wired 3000 1/cm to zero, although the
# time axis (dt = 1 fs, window +-16678 1/cm) resolves it and the Redfield tensor
# gives the golden-rule value.
import sys, warnings
warnings.filterwarnings("ignore")
import numpy as np
import quantarhei as qr
from quantarhei.qm.corfunctions import CorrelationFunctionMatrix, SpectralDensity
from quantarhei.qm import SystemBathInteraction, Operator
from quantarhei.qm import RedfieldRateMatrix, RedfieldRelaxationTensor
from quantarhei.qm.liouvillespace.rates.tdredfieldrates import TDRedfieldRateMatrix
from quantarhei.core.units import kB_intK, cm2int

T = 300.0
time = qr.TimeAxis(0.0, 2000, 1.0)
params = dict(ftype="OverdampedBrownian", reorg=100.0, T=T, cortime=20.0)

def rates(E2):
    with qr.energy_units("1/cm"):
        cf = qr.CorrelationFunction(time, params)
        sd = SpectralDensity(time, params)
        H = qr.Hamiltonian(data=[[0.0, 0.0, 0.0],
                                 [0.0, 12000.0, 400.0],
                                 [0.0, 400.0, E2]])
    cm = CorrelationFunctionMatrix(time, 2, 1)
    cm.set_correlation_function(cf, [(0, 0), (1, 1)])
    ops = []
    for i in range(2):
        K = np.zeros((3, 3)); K[i+1, i+1] = 1.0
        ops.append(Operator(data=K))
    sbi = SystemBathInteraction(ops, cm)
    hD, SS = np.linalg.eigh(H._data)
    w = hD[2] - hD[1]
    gold = sum(SS[n, 1]**2*SS[n, 2]**2 for n in (1, 2)) \
           *(1.0 + 1.0/np.tanh(w/(2.0*kB_intK*T)))*sd.at(w, approx="spline")
    R = RedfieldRateMatrix(H, sbi).data[1, 2]
    TD = TDRedfieldRateMatrix(H, sbi).data[-1][1, 2]
    KT = np.real(RedfieldRelaxationTensor(H, sbi).data[1, 1, 2, 2])
    return w/cm2int, gold, R, TD, KT

bad = False
print(" gap[1/cm]   golden rule    RedfieldRateMatrix   TDRedfieldRateMatrix   Redfield tensor   (downhill rate, 1/fs)")
for E2 in (14800.0, 14900.0, 15000.0, 15300.0):
    w, gold, R, TD, KT = rates(E2)
    print("  %7.1f   %.4e     %.4e          %.4e           %.4e" % (w, gold, R, TD, KT))
    if abs(R/gold - 1) > 0.2 or abs(TD/gold - 1) > 0.2:
        bad = True
if bad:
    print("VIOLATION: downhill rates of the rate matrices are exactly zero above 3000 1/cm "
          "(golden-rule value ~1/(6 ps)); the tensor of the same system is right")
    sys.exit(1)
print("ok")
