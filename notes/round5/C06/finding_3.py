# finding_3: RedfieldRateMatrix and TDRedfieldRateMatrix evaluated inside
# `with qr.eigenbasis_of(H)` return vanishing rates (all population transfer lost)
# as soon as the Hamiltonian has been represented in that basis.
import sys, warnings
warnings.filterwarnings("ignore")
import numpy as np
import quantarhei as qr
from quantarhei.qm.corfunctions import CorrelationFunctionMatrix, SpectralDensity
from quantarhei.qm import SystemBathInteraction, Operator, RedfieldRateMatrix
from quantarhei.qm.liouvillespace.rates.tdredfieldrates import TDRedfieldRateMatrix
from quantarhei.core.units import kB_intK

T = 300.0
time = qr.TimeAxis(0.0, 2000, 1.0)
params = dict(ftype="OverdampedBrownian", reorg=30.0, T=T, cortime=100.0)

def system():
    with qr.energy_units("1/cm"):
        cf = qr.CorrelationFunction(time, params)
        H = qr.Hamiltonian(data=[[0.0, 0.0, 0.0, 0.0],
                                 [0.0, 12000.0, 50.0, 20.0],
                                 [0.0, 50.0, 12100.0, -30.0],
                                 [0.0, 20.0, -30.0, 12300.0]])
    cm = CorrelationFunctionMatrix(time, 3, 1)
    cm.set_correlation_function(cf, [(0, 0), (1, 1), (2, 2)])
    ops = []
    for i in range(3):
        K = np.zeros((4, 4)); K[i+1, i+1] = 1.0
        ops.append(Operator(data=K))
    return H, SystemBathInteraction(ops, cm)

H, sbi = system()
hD, SS = np.linalg.eigh(H._data)
with qr.energy_units("1/cm"):
    sd = SpectralDensity(time, params)
w = hD[2] - hD[1]
gold = sum(SS[n, 1]**2*SS[n, 2]**2 for n in range(1, 4)) \
       *(1.0 + 1.0/np.tanh(w/(2.0*kB_intK*T)))*sd.at(w, approx="spline")

R_out = RedfieldRateMatrix(H, sbi).data
TD_out = TDRedfieldRateMatrix(H, sbi).data[-1]

H, sbi = system()
with qr.eigenbasis_of(H):
    eigenenergies = np.diag(H.data).copy()      # e.g. the user looks at the energies
    R_in = RedfieldRateMatrix(H, sbi).data
    TD_in = TDRedfieldRateMatrix(H, sbi).data[-1]

H, sbi = system()
with qr.eigenbasis_of(H):
    TD_in2 = TDRedfieldRateMatrix(H, sbi).data[-1]   # nothing else done in the context

print("downhill rate 1<-2 [1/fs], golden rule value: %.4e" % gold)
print("  RedfieldRateMatrix   outside context: %.4e   inside eigenbasis_of(H) (after reading H.data): %.4e"
      % (R_out[1, 2], R_in[1, 2]))
print("  TDRedfieldRateMatrix outside context: %.4e   inside eigenbasis_of(H) (after reading H.data): %.4e"
      % (TD_out[1, 2], TD_in[1, 2]))
print("  TDRedfieldRateMatrix inside eigenbasis_of(H), first call in the context:          %.4e" % TD_in2[1, 2])
print("  largest off-diagonal element inside the context: rate matrix %.2e, TD rates %.2e"
      % (np.abs(R_in - np.diag(np.diag(R_in))).max(), np.abs(TD_in - np.diag(np.diag(TD_in))).max()))

bad = (abs(R_in[1, 2]/gold - 1) > 0.05) or (abs(TD_in[1, 2]/gold - 1) > 0.05) or (abs(TD_in2[1, 2]/gold - 1) > 0.05)
if bad:
    print("VIOLATION: rates computed inside an eigenbasis_of context vanish instead of equalling the golden-rule value")
    sys.exit(1)
print("ok")
