# finding_5: FTCorrelationFunction created inside an energy units context leaves
# the damping parameter "gamma" of (Under)damped Brownian components unconverted
# (CorrelationFunction and SpectralDensity do convert it).  The resulting Fourier
# transformed correlation function is wrong by orders of magnitude and does not
# satisfy C(-w) = exp(-w/kT) C(w).
import sys, warnings
warnings.filterwarnings("ignore")
import numpy as np
import quantarhei as qr
from quantarhei.qm.corfunctions import SpectralDensity
from quantarhei.qm.corfunctions.correlationfunctions import FTCorrelationFunction
from quantarhei.core.units import kB_intK, cm2int

T = 300.0
time = qr.TimeAxis(0.0, 2000, 1.0)
params = dict(ftype="UnderdampedBrownian", reorg=30.0, T=T, gamma=40.0, freq=200.0)

with qr.energy_units("1/cm"):
    sd = SpectralDensity(time, dict(params))
    cf = qr.CorrelationFunction(time, dict(params))
    ft_direct = FTCorrelationFunction(time, dict(params))       # <- the object under test
ft_from_sd = sd.get_FTCorrelationFunction()
ft_from_cf = cf.get_FTCorrelationFunction()

print("stored gamma [1/fs]: SpectralDensity %.5f, CorrelationFunction %.5f, FTCorrelationFunction %.5f"
      % (sd.params[0]["gamma"], cf.params[0]["gamma"], ft_direct.params[0]["gamma"]))

ws_cm = np.array([50.0, 100.0, 200.0, 400.0])
ws = ws_cm*cm2int
kT = kB_intK*T
bad = False
print("  w[1/cm]   C(w) from sd     C(w) from cf     C(w) direct    | direct: C(-w)/C(w)   required exp(-w/kT)")
for wc, w in zip(ws_cm, ws):
    a = np.real(ft_from_sd.at(w)); b = np.real(ft_from_cf.at(w)); c = np.real(ft_direct.at(w))
    cm_ = np.real(ft_direct.at(-w))
    print("  %6.1f   %.5e    %.5e    %.5e   |  %10.4f          %10.4f"
          % (wc, a, b, c, cm_/c, np.exp(-w/kT)))
    if abs(c/a - 1) > 0.05 or abs(cm_/c/np.exp(-w/kT) - 1) > 0.05:
        bad = True
r = np.real(ft_from_sd.at(-ws))/np.real(ft_from_sd.at(ws))
print("for comparison, sd.get_FTCorrelationFunction(): max |C(-w)/C(w)/exp(-w/kT) - 1| = %.1e"
      % np.max(np.abs(r/np.exp(-ws/kT) - 1)))
if bad:
    print("VIOLATION: FTCorrelationFunction(time, params) in a `1/cm` context is not the transform of the "
          "correlation function with these parameters and breaks C(-w) = exp(-w/kT) C(w)")
    sys.exit(1)
print("ok")
