# finding_4: FoersterRateMatrix evaluated inside `with qr.eigenbasis_of(H)` reads the
# Hamiltonian in the exciton basis: the couplings are gone, rates are ~1e-30 and the
# ratio of forward and backward rates has nothing to do with detailed balance.
import sys, warnings
warnings.filterwarnings("ignore")
import numpy as np
import quantarhei as qr
from quantarhei.qm.corfunctions import CorrelationFunctionMatrix
from quantarhei.qm import SystemBathInteraction, Operator
from quantarhei.qm.liouvillespace.rates.foersterrates import FoersterRateMatrix
from quantarhei.core.units import kB_intK, cm2int

T = 300.0
time = qr.TimeAxis(0.0, 2000, 1.0)
lams = (30.0, 60.0, 15.0)
taus = (100.0, 50.0, 150.0)

def system():
    cm = CorrelationFunctionMatrix(time, 3, 1)
    with qr.energy_units("1/cm"):
        for i in range(3):
            cf = qr.CorrelationFunction(time, dict(ftype="OverdampedBrownian",
                                                   reorg=lams[i], T=T, cortime=taus[i]))
            cm.set_correlation_function(cf, [(i, i)])
        H = qr.Hamiltonian(data=[[0.0, 0.0, 0.0, 0.0],
                                 [0.0, 12000.0, 50.0, 20.0],
                                 [0.0, 50.0, 12100.0, -30.0],
                                 [0.0, 20.0, -30.0, 12300.0]])
    ops = []
    for i in range(3):
        K = np.zeros((4, 4)); K[i+1, i+1] = 1.0
        ops.append(Operator(data=K))
    return H, SystemBathInteraction(ops, cm)

E = np.array([0.0, 12000.0, 12100.0, 12300.0])*cm2int
lam = np.array([0.0, 30.0, 60.0, 15.0])*cm2int
def required(a, b):
    return np.exp(-((E[a]-lam[a]) - (E[b]-lam[b]))/(kB_intK*T))

H, sbi = system()
F_out = FoersterRateMatrix(H, sbi).data
H, sbi = system()
with qr.eigenbasis_of(H):
    F_in = FoersterRateMatrix(H, sbi).data

print("Foerster rates between sites 1 and 2 [1/fs]")
print("  outside context: k(1<-2) = %.4e  k(2<-1) = %.4e  ratio %.4f   required %.4f"
      % (F_out[1, 2], F_out[2, 1], F_out[1, 2]/F_out[2, 1], required(1, 2)))
print("  inside eigenbasis_of(H): k(1<-2) = %.4e  k(2<-1) = %.4e  ratio %.4f   required %.4f"
      % (F_in[1, 2], F_in[2, 1], F_in[1, 2]/F_in[2, 1], required(1, 2)))
print("  column sums inside: %.1e" % np.abs(F_in.sum(axis=0)).max())

bad = (abs(F_in[1, 2]/F_in[2, 1]/required(1, 2) - 1) > 0.05) or (abs(F_in[1, 2]/F_out[1, 2] - 1) > 0.05)
if bad:
    print("VIOLATION: Foerster rates obtained inside an eigenbasis_of context are not the site-to-site "
          "rates and do not obey detailed balance with respect to E_n - lambda_n")
    sys.exit(1)
print("ok")
