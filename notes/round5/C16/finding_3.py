"""C16 finding 3: OpenSystem.get_KTHierarchy() overwrites the rotating-wave
reference of the (shared) Hamiltonian with the hard-coded blocks [0,1].
For an aggregate with a two-exciton band (rwa blocks [0,1,3]) or with
vibrational levels in the ground state (blocks [0,2]) the frame is then wrong by
an optical frequency for some states, the explicit integrator (dt = 1 fs) is
no longer accurate, and even with ZERO system-bath coupling the result is not
the closed-system dynamics.  The user's Hamiltonian is left modified.

run:  cd /tmp && PYTHONPATH=/tmp/w5_C16 /venv/bin/python /tmp/w5_C16/finding_3.py
"""
import sys, io, contextlib, warnings
import numpy, scipy.linalg
warnings.filterwarnings("ignore")
import quantarhei as qr

HT = "OverdampedBrownian-HighTemperature"
ta = qr.TimeAxis(0.0, 300, 1.0)


def quiet(f, *a, **k):
    with contextlib.redirect_stdout(io.StringIO()):
        return f(*a, **k)


def closed(ham, rho0):
    with qr.energy_units("int"):
        H = ham.data.copy()
    out = numpy.zeros((ta.length,)+rho0.shape, dtype=complex)
    for i, t in enumerate(ta.data):
        U = scipy.linalg.expm(-1j*H*t)
        out[i] = U @ rho0 @ U.conj().T
    return out


def make(kind):
    with qr.energy_units("1/cm"):
        m1 = qr.Molecule([0.0, 10000.0])
        m2 = qr.Molecule([0.0, 10200.0])
        # zero reorganisation energy = zero system-bath coupling strength
        cf = qr.CorrelationFunction(ta, dict(ftype=HT, reorg=0.0,
                                             cortime=50.0, T=300))
        m1.set_transition_environment((0, 1), cf)
        m2.set_transition_environment((0, 1), cf)
        if kind == "vib":
            mod = qr.Mode(frequency=300.0)
            m1.add_Mode(mod)
            mod.set_nmax(0, 2)
            mod.set_nmax(1, 2)
            mod.set_HR(1, 0.1)
        agg = qr.Aggregate([m1, m2])
        agg.set_resonance_coupling(0, 1, 100.0)
    if kind == "mult2":
        agg.build(mult=2)
    else:
        agg.build()
    return agg


bad = False
for kind, label, el in (("mult2", "dimer with two-exciton band (mult=2)", (0, 3)),
                        ("vib", "dimer with one vibrational mode", (0, 1))):
    agg = make(kind)
    ham = agg.get_Hamiltonian()
    sbi = agg.get_SystemBathInteraction()
    N = ham.dim
    rho0 = numpy.ones((N, N), dtype=complex)/N
    ref = closed(ham, rho0)

    print(label, "- zero system-bath coupling, depth 2")
    print("   RWA blocks of the Hamiltonian as built:", ham.rwa_indices)
    hy = quiet(qr.KTHierarchy, ham, sbi, 2)
    prop = qr.KTHierarchyPropagator(ta, hy)
    ra = prop.propagate(qr.ReducedDensityMatrix(data=rho0))
    ra.convert_from_RWA(ham)
    ea = numpy.max(numpy.abs(ra.data - ref))
    print("   KTHierarchy(ham, sbi) directly      : max|rho - closed system|"
          " = %.1e" % ea)

    prop = quiet(agg.get_KTHierarchyPropagator, depth=2)
    print("   RWA blocks after agg.get_KTHierarchyPropagator():",
          agg.get_Hamiltonian().rwa_indices)
    rb = prop.propagate(qr.ReducedDensityMatrix(data=rho0))
    rb.convert_from_RWA(ham)
    eb = numpy.max(numpy.abs(rb.data - ref))
    print("   agg.get_KTHierarchyPropagator()     : max|rho - closed system|"
          " = %.1e" % eb)
    print("   |rho_%i%i(299 fs)| : closed system %.4f   OpenSystem route %.1e"
          % (el[0], el[1], abs(ref[-1][el]), abs(rb.data[-1][el])))
    if eb > 1.0e-2 and ea < 1.0e-4:
        bad = True

print()
print("required: with zero system-bath coupling strength the propagation "
      "reduces to the closed-system dynamics, for all Hamiltonians with a "
      "rotating-wave reference")
if bad:
    print("observed: through OpenSystem.get_KTHierarchy[Propagator] the "
          "Hamiltonian's own RWA blocks are replaced by [0,1]; coherences of "
          "the mis-referenced states are damped to ~0 although there is no "
          "bath coupling at all")
    sys.exit(1)
print("property holds")
sys.exit(0)
