"""C16 finding 4: for an aggregate built with a two-exciton band (mult=2) the
system-bath operators handed to the hierarchy project on the ONE-exciton state
of a site only, so the two-exciton state |12> does not feel the baths of sites
1 and 2 (or, with sbi_for_higher_ex=True, gets a third, independent bath).
For uncoupled sites the HEOM result therefore does not converge to the analytic
pure-dephasing solution.

run:  cd /tmp && PYTHONPATH=/tmp/w5_C16 /venv/bin/python /tmp/w5_C16/finding_4.py
"""
import sys, io, contextlib, warnings
import numpy
warnings.filterwarnings("ignore")
import quantarhei as qr
from quantarhei.qm.corfunctions.correlationfunctions import c2g

HT = "OverdampedBrownian-HighTemperature"
ta = qr.TimeAxis(0.0, 200, 1.0)
bad = False
for hx in (False, True):
    with qr.energy_units("1/cm"):
        m1 = qr.Molecule([0.0, 10000.0])
        m2 = qr.Molecule([0.0, 10200.0])
        cf1 = qr.CorrelationFunction(ta, dict(ftype=HT, reorg=50.0,
                                              cortime=50.0, T=300))
        cf2 = qr.CorrelationFunction(ta, dict(ftype=HT, reorg=20.0,
                                              cortime=50.0, T=300))
    m1.set_transition_environment((0, 1), cf1)
    m2.set_transition_environment((0, 1), cf2)
    agg = qr.Aggregate([m1, m2])        # no resonance coupling: uncoupled sites
    agg.build(mult=2, sbi_for_higher_ex=hx)
    ham = agg.get_Hamiltonian()         # states: g, |1>, |2>, |12>
    sbi = agg.get_SystemBathInteraction()
    with contextlib.redirect_stdout(io.StringIO()):
        hy = qr.KTHierarchy(ham, sbi, 6)
    prop = qr.KTHierarchyPropagator(ta, hy)
    rho0 = numpy.ones((4, 4), dtype=complex)/4.0
    rhot = prop.propagate(qr.ReducedDensityMatrix(data=rho0))
    rhot.convert_from_RWA(ham)
    g1 = c2g(ta, cf1.data)
    g2 = c2g(ta, cf2.data)
    it = 100
    # independent baths on the two sites: gap g-|12> fluctuates with
    # both baths, gap |1>-|12> only with the bath of site 2
    a03 = abs(0.25*numpy.exp(-g1[it] - g2[it]))
    a13 = abs(0.25*numpy.exp(-numpy.conj(g2[it])))
    a01 = abs(0.25*numpy.exp(-g1[it]))
    print("mult=2, sbi_for_higher_ex=%s: %i baths, diagonal of the bath "
          "operators:" % (hx, sbi.N),
          [list(numpy.diag(sbi.KK[k]).astype(int)) for k in range(sbi.N)])
    print("   t = 100 fs, depth 6       HEOM        analytic")
    for lab, el, an in (("|rho_g,1 |", (0, 1), a01), ("|rho_g,12|", (0, 3), a03),
                        ("|rho_1,12|", (1, 3), a13)):
        h = abs(rhot.data[it][el])
        print("   %s            %.5f     %.5f" % (lab, h, an))
        if abs(h - an) > 0.01:
            bad = True

print()
print("required: for uncoupled sites the result converges with depth to the "
      "analytic pure-dephasing solution")
if bad:
    print("observed: coherences that involve the two-exciton state do not "
          "(with the default build(mult=2) the g-|12> coherence does not "
          "dephase at all and |1>-|12> dephases with the bath of site 1 "
          "instead of site 2; with sbi_for_higher_ex=True |1>-|12> dephases "
          "far too fast)")
    sys.exit(1)
print("property holds")
sys.exit(0)
