"""C16 finding 5: SystemBathInteraction stores the system operators in a REAL
array (numpy.real() for the first one, a silent complex->float cast for the
others).  Complex Hermitian coupling operators - e.g. site projectors written
in a basis that is related to the site basis by a complex unitary matrix - lose
their imaginary parts, and the hierarchy propagates a different model.

run:  cd /tmp && PYTHONPATH=/tmp/w5_C16 /venv/bin/python /tmp/w5_C16/finding_5.py
"""
import sys, io, contextlib, warnings
import numpy
warnings.filterwarnings("ignore")
import quantarhei as qr
from quantarhei.qm.corfunctions.cfmatrix import CorrelationFunctionMatrix
from quantarhei.qm.corfunctions.correlationfunctions import c2g

HT = "OverdampedBrownian-HighTemperature"
ta = qr.TimeAxis(0.0, 200, 1.0)
th = 0.6
# a complex unitary change of the description of the two excited states
U = numpy.array([[1, 0, 0],
                 [0, numpy.cos(th), 1j*numpy.sin(th)],
                 [0, 1j*numpy.sin(th), numpy.cos(th)]])
H0 = numpy.diag([0.0, 1.90, 1.93]).astype(complex)   # 1/fs, uncoupled sites

with qr.energy_units("1/cm"):
    cf = qr.CorrelationFunction(ta, dict(ftype=HT, reorg=50.0, cortime=50.0,
                                         T=300))


def run(Umat, rho0):
    ham = qr.Hamiltonian(data=Umat @ H0 @ Umat.conj().T)   # complex Hermitian
    ham.set_rwa([0, 1])
    cm = CorrelationFunctionMatrix(ta, 2)
    cm.set_correlation_function(cf, [(0, 0), (1, 1)])
    ops = []
    for i in (1, 2):
        P = numpy.zeros((3, 3), dtype=complex)
        P[i, i] = 1.0
        ops.append(qr.qm.Operator(data=Umat @ P @ Umat.conj().T))
    sbi = qr.qm.SystemBathInteraction(ops, cm)
    lost = max(numpy.max(numpy.abs(o.data - sbi.KK[k]))
               for k, o in enumerate(ops))
    with contextlib.redirect_stdout(io.StringIO()):
        hy = qr.KTHierarchy(ham, sbi, 6)
    prop = qr.KTHierarchyPropagator(ta, hy)
    rhot = prop.propagate(qr.ReducedDensityMatrix(
                          data=Umat @ rho0 @ Umat.conj().T))
    rhot.convert_from_RWA(ham)
    return rhot, lost


rho0 = numpy.ones((3, 3), dtype=complex)/3.0
g = c2g(ta, cf.data)
ana10 = rho0[1, 0]*numpy.exp(-1j*H0[1, 1].real*ta.data - g)

r_site, lost0 = run(numpy.eye(3, dtype=complex), rho0)
r_rot, lost1 = run(U, rho0)
# bring the second result back to the site description
back = numpy.array([U.conj().T @ r_rot.data[i] @ U for i in range(ta.length)])

e_site = numpy.max(numpy.abs(r_site.data[:, 1, 0] - ana10))
e_rot = numpy.max(numpy.abs(back[:, 1, 0] - ana10))
print("uncoupled sites, depth 6: max|rho_10(t) - rho_10(0) exp(-i w t - g(t))|")
print("   model given in the site basis                  : %.1e   "
      "(operator content lost in sbi.KK: %.2f)" % (e_site, lost0))
print("   same model given in a complex-rotated basis     : %.1e   "
      "(operator content lost in sbi.KK: %.2f)" % (e_rot, lost1))
print("   max difference of the two propagated states     : %.3f"
      % numpy.max(numpy.abs(back - r_site.data)))
print()
print("required: for all Hamiltonians (complex Hermitian ones included) the "
      "uncoupled-site model converges to the analytic pure-dephasing solution")
if e_rot > 0.05 and e_site < 1.0e-2:
    print("observed: the imaginary parts of the coupling operators are "
          "dropped without an error; the hierarchy solves a different model")
    sys.exit(1)
print("property holds")
sys.exit(0)
