"""C16 finding 1: a bath whose correlation function has several components
is silently replaced by ONE Lorentzian (total reorganization energy, correlation
time of the first component only); the HEOM result then converges, with depth,
to a wrong function instead of exp(-i w t - g(t)) of the bath given.

run:  cd /tmp && PYTHONPATH=/tmp/w5_C16 /venv/bin/python /tmp/w5_C16/finding_1.py
"""
import sys, io, contextlib, warnings
import numpy
warnings.filterwarnings("ignore")
import quantarhei as qr
from quantarhei.qm.corfunctions.correlationfunctions import c2g

HT = "OverdampedBrownian-HighTemperature"
ta = qr.TimeAxis(0.0, 300, 1.0)
pa = dict(ftype=HT, reorg=20.0, cortime=30.0, T=300)
pb = dict(ftype=HT, reorg=60.0, cortime=200.0, T=300)


def heom_error(cf, depth):
    """max |rho_10(t) - rho_10(0) exp(-i w t - g(t))| for one two-level site"""
    with qr.energy_units("1/cm"):
        m = qr.Molecule([0.0, 10000.0])
    m.set_transition_environment((0, 1), cf)
    agg = qr.Aggregate([m])
    agg.build()
    ham = agg.get_Hamiltonian()
    sbi = agg.get_SystemBathInteraction()
    with contextlib.redirect_stdout(io.StringIO()):
        hy = qr.KTHierarchy(ham, sbi, depth)
    prop = qr.KTHierarchyPropagator(ta, hy)
    rhoi = qr.ReducedDensityMatrix(data=numpy.ones((2, 2), dtype=complex)/2.0)
    rhot = prop.propagate(rhoi)
    rhot.convert_from_RWA(ham)
    with qr.energy_units("int"):
        w = ham.data[1, 1] - ham.data[0, 0]
    # line-shape function of the bath as given (what the rest of the package
    # uses for this bath)
    gt = c2g(ta, sbi.CC.get_correlation_function(0, 0).data)
    ana = 0.5*numpy.exp(-1j*w*ta.data - gt)
    lam = qr.convert(hy.lam, "int", to="1/cm")
    return numpy.max(numpy.abs(rhot.data[:, 1, 0] - ana)), lam, 1.0/hy.gamma


with qr.energy_units("1/cm"):
    cf_single = qr.CorrelationFunction(ta, dict(ftype=HT, reorg=80.0,
                                                cortime=30.0, T=300))
    cf_sum = qr.CorrelationFunction(ta, pa) + qr.CorrelationFunction(ta, pb)
    cf_list = qr.CorrelationFunction(ta, [pa, pb])

print("control: one component (reorg 80 1/cm, cortime 30 fs)")
for d in (4, 8, 12):
    e, lam, tau = heom_error(cf_single, d)
    print("  depth %2i  max|HEOM - analytic| = %.2e" % (d, e))
err_single = e

bad = False
for name, cf in (("cf_a + cf_b", cf_sum), ("CorrelationFunction(ta, [pa, pb])",
                                          cf_list)):
    print("two components (20 1/cm, 30 fs) + (60 1/cm, 200 fs) given as", name)
    print("  components seen by the bath object:",
          [(p["cortime"]) for p in cf.params], "fs")
    for d in (4, 8, 12):
        e, lam, tau = heom_error(cf, d)
        print("  depth %2i  max|HEOM - analytic| = %.2e" % (d, e))
    print("  the hierarchy was built with lam =", lam, "1/cm, cortime =", tau,
          "fs, number of hierarchy indices =", len(tau))
    if e > 1.0e-3:
        bad = True

print()
print("required: for uncoupled sites the result converges with depth to "
      "exp(-i w t - g(t)) of the bath's line-shape function")
if bad:
    print("observed: with a two-component bath the error does not decrease "
          "with depth (stays at %.1e, control reaches %.0e); no exception, "
          "no warning" % (e, err_single))
    sys.exit(1)
print("property holds")
sys.exit(0)
