"""C16 finding 2: KTHierarchyPropagator.propagate() called inside
`with qr.eigenbasis_of(ham):` mixes representations: the Hamiltonian and the
initial state are read in the eigenbasis, the system-bath operators (hy.Vs =
sbi.KK, a bare numpy array) stay in the site basis.  The result is a different
(wrong) physical evolution, silently.

run:  cd /tmp && PYTHONPATH=/tmp/w5_C16 /venv/bin/python /tmp/w5_C16/finding_2.py
"""
import sys, io, contextlib, warnings
import numpy
warnings.filterwarnings("ignore")
import quantarhei as qr
from quantarhei.qm.corfunctions.correlationfunctions import c2g

HT = "OverdampedBrownian-HighTemperature"
ta = qr.TimeAxis(0.0, 300, 1.0)


def dimer(E, J, reorg):
    with qr.energy_units("1/cm"):
        mols = [qr.Molecule([0.0, e]) for e in E]
        for m, r in zip(mols, reorg):
            m.set_transition_environment((0, 1), qr.CorrelationFunction(ta,
                dict(ftype=HT, reorg=r, cortime=50.0, T=300)))
        agg = qr.Aggregate(mols)
        if J != 0.0:
            agg.set_resonance_coupling(0, 1, J)
    agg.build()
    ham = agg.get_Hamiltonian()
    sbi = agg.get_SystemBathInteraction()
    with contextlib.redirect_stdout(io.StringIO()):
        hy = qr.KTHierarchy(ham, sbi, 6 if J == 0.0 else 3)
    return ham, sbi, qr.KTHierarchyPropagator(ta, hy)


bad = False

# ---- (a) uncoupled sites, site 1 higher in energy than site 2: the eigenbasis
#      is just the site basis with the two sites swapped
ham, sbi, prop = dimer((10200.0, 10000.0), 0.0, (20.0, 80.0))
rho0 = numpy.ones((3, 3), dtype=complex)/3.0
with qr.energy_units("int"):
    E = numpy.real(numpy.diag(ham.data))
ana = {}
for a in (1, 2):
    g = c2g(ta, sbi.CC.get_correlation_function(a-1, a-1).data)
    ana[a] = rho0[a, 0]*numpy.exp(-1j*E[a]*ta.data - g)

rhoi = qr.ReducedDensityMatrix(data=rho0)
r_out = prop.propagate(rhoi)
r_out.convert_from_RWA(ham)
with qr.eigenbasis_of(ham):
    r_in = prop.propagate(rhoi)
r_in.convert_from_RWA(ham)       # both are read below in the site basis

print("(a) uncoupled sites (E1 > E2, reorg 20 and 80 1/cm), depth 6; "
      "max |rho_a0(t) - rho_a0(0) exp(-i w_a t - g_a(t))|")
for a in (1, 2):
    eo = numpy.max(numpy.abs(r_out.data[:, a, 0] - ana[a]))
    ei = numpy.max(numpy.abs(r_in.data[:, a, 0] - ana[a]))
    print("   site %i : propagate() outside context %.1e   inside "
          "eigenbasis_of(ham) %.1e" % (a, eo, ei))
    if ei > 0.05 and ei > 10*eo:
        bad = True
i100 = 100
print("   |rho_10|, |rho_20| at t=100 fs: analytic %.4f %.4f | outside %.4f "
      "%.4f | inside %.4f %.4f  (baths of the two sites are exchanged)"
      % (abs(ana[1][i100]), abs(ana[2][i100]),
         abs(r_out.data[i100, 1, 0]), abs(r_out.data[i100, 2, 0]),
         abs(r_in.data[i100, 1, 0]), abs(r_in.data[i100, 2, 0])))

# ---- (b) coupled dimer: the same physical calculation inside and outside
ham, sbi, prop = dimer((10000.0, 10200.0), 100.0, (30.0, 120.0))
rho0 = numpy.zeros((3, 3), dtype=complex)
rho0[1, 1] = 1.0
rhoi = qr.ReducedDensityMatrix(data=rho0)
r_out = prop.propagate(rhoi)
with qr.eigenbasis_of(ham):
    r_in = prop.propagate(rhoi)
diff = numpy.max(numpy.abs(r_in.data - r_out.data))
herm = max(numpy.max(numpy.abs(r_in.data[i] - r_in.data[i].conj().T))
           for i in range(ta.length))
tr = max(abs(numpy.trace(r_in.data[i]) - 1.0) for i in range(ta.length))
print("(b) coupled dimer (J = 100 1/cm), depth 3, site 1 excited: max "
      "difference of the two results (both read in the site basis) = %.3f"
      % diff)
print("    site-1 population at t = 299 fs: outside %.4f, inside %.4f "
      "(inside result still Hermitian %.0e, trace error %.0e)"
      % (r_out.data[-1, 1, 1].real, r_in.data[-1, 1, 1].real, herm, tr))
if diff > 0.05:
    bad = True

print()
print("required: the propagated state does not depend on the basis context "
      "in which propagate() is called; uncoupled sites converge to "
      "exp(-i w t - g(t))")
if bad:
    print("observed: inside eigenbasis_of(ham) the hierarchy couples the "
          "baths to the wrong states; errors of order 0.1-0.2, no warning")
    sys.exit(1)
print("property holds")
sys.exit(0)
