"""C16 finding 6 (low confidence, behaviour is announced by a printed warning):
for a bath of type "OverdampedBrownian" the hierarchy keeps only the
high-temperature part of the correlation function (no Matsubara terms, cot ->
2kT/gamma), so the result converges to a function that differs from
exp(-i w t - g(t)) of the bath's own line-shape function; the gap grows on
cooling.

run:  cd /tmp && PYTHONPATH=/tmp/w5_C16 /venv/bin/python /tmp/w5_C16/finding_6.py
"""
import sys, io, contextlib, warnings
import numpy
warnings.filterwarnings("ignore")
import quantarhei as qr
from quantarhei.qm.corfunctions.correlationfunctions import c2g

ta = qr.TimeAxis(0.0, 300, 1.0)


def err(ftype, T, depth):
    with qr.energy_units("1/cm"):
        m = qr.Molecule([0.0, 10000.0])
        cf = qr.CorrelationFunction(ta, dict(ftype=ftype, reorg=50.0,
                                             cortime=50.0, T=T))
    m.set_transition_environment((0, 1), cf)
    agg = qr.Aggregate([m])
    agg.build()
    ham = agg.get_Hamiltonian()
    sbi = agg.get_SystemBathInteraction()
    out = io.StringIO()
    with contextlib.redirect_stdout(out):
        hy = qr.KTHierarchy(ham, sbi, depth)
    prop = qr.KTHierarchyPropagator(ta, hy)
    rhot = prop.propagate(qr.ReducedDensityMatrix(
                          data=numpy.ones((2, 2), dtype=complex)/2.0))
    rhot.convert_from_RWA(ham)
    with qr.energy_units("int"):
        w = ham.data[1, 1]
    ana = 0.5*numpy.exp(-1j*w*ta.data - c2g(ta, cf.data))
    return numpy.max(numpy.abs(rhot.data[:, 1, 0] - ana))


bad = False
for T in (300, 77, 30):
    e_ht = [err("OverdampedBrownian-HighTemperature", T, d) for d in (6, 12)]
    e_ob = [err("OverdampedBrownian", T, d) for d in (6, 12)]
    print("T = %3i K  max|HEOM - exp(-iwt-g(t))| at depth 6, 12:   "
          "HighTemperature type %.1e %.1e    OverdampedBrownian type "
          "%.1e %.1e" % (T, e_ht[0], e_ht[1], e_ob[0], e_ob[1]))
    if e_ob[1] > 5.0e-3 and e_ob[1] > 20*e_ht[1]:
        bad = True

print()
print("required: convergence with depth to the analytic solution built from "
      "the bath's line-shape function, for all bath parameters")
if bad:
    print("observed: for ftype='OverdampedBrownian' the error saturates "
          "(independent of depth) and grows on cooling; only a text warning "
          "is printed when the hierarchy is built")
    sys.exit(1)
print("property holds")
sys.exit(0)
