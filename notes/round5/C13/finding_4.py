# C13 finding 4: the round-tripped axis is not equal (==) to the original one; DFunction addition refuses it
import warnings; warnings.filterwarnings("ignore")
import sys, numpy as np
from quantarhei import TimeAxis, DFunction
bad = tot = 0
for atype in ("complete", "upper-half"):
    for N in (4, 5, 10, 11, 100, 101):
        for dt in (0.1, 0.3, 1.0, 2.0):
            st = -(N//2)*dt if atype == "complete" else 0.0
            ta = TimeAxis(st, N, dt, atype=atype)
            tb = ta.get_FrequencyAxis().get_TimeAxis()
            tot += 1
            if not (tb == ta):
                bad += 1
                if bad <= 4:
                    print("not equal:", atype, "N=%d dt=%g" % (N, dt), " start diff %.2e  step diff %.2e"
                          % (tb.start-ta.start, tb.step-ta.step))
print("round-tripped TimeAxis != original in %d of %d cases (zero-centred / zero-start axes only)" % (bad, tot))
ta = TimeAxis(0.0, 10, 0.1)
f = DFunction(ta, np.exp(-ta.data))
fb = f.get_Fourier_transform().get_inverse_Fourier_transform()
print("values agree:", np.allclose(fb.data, f.data), "  axis ==:", fb.axis == f.axis)
err = None
try:
    d = f + fb
except Exception as e:
    err = e
    print("f + (inverse FT of FT of f) raised:", repr(e))
print("REQUIRED: the frequency axis derived from a time axis maps back to the SAME time axis;")
print("          transforming and inverse-transforming returns the values on the ORIGINAL axis")
sys.exit(1 if (bad or err) else 0)
