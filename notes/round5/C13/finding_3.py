# C13 finding 3: TimeAxis(frequency_start=w0): returned frequency axis is shifted, values are not
import warnings; warnings.filterwarnings("ignore")
import sys, numpy as np
from quantarhei import TimeAxis, DFunction
rng = np.random.default_rng(5)
worst = 0.0
for atype, N in (("complete", 8), ("upper-half", 6)):
    dt = 0.5
    st = -(N//2)*dt if atype == "complete" else 0.0
    y = rng.normal(size=N) + 1j*rng.normal(size=N)
    if atype == "upper-half":
        y[0] = y[0].real
    for w0 in (0.0, 1.0):
        ta = TimeAxis(st, N, dt, atype=atype, frequency_start=w0)
        F = DFunction(ta, y.copy()).get_Fourier_transform()
        if atype == "complete":
            tt, yy = ta.data, y
        else:
            tt = np.concatenate([ta.data, -ta.data[1:]]); yy = np.concatenate([y, np.conj(y[1:])])
        ref = np.array([np.sum(yy*np.exp(1j*wk*tt))*dt for wk in F.axis.data])
        d = np.abs(F.data-ref).max()
        print("%-10s frequency_start=%.1f  axis[0]=%.4f  max|F - direct sum at returned frequencies| = %.3e"
              % (atype, w0, F.axis.data[0], d))
        if w0 != 0.0:
            worst = max(worst, d)
print("REQUIRED: F equals sum_n f(t_n) exp(i w t_n) dt at every frequency w of the RETURNED axis")
sys.exit(1 if worst > 1e-8 else 0)
