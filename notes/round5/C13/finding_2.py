# C13 finding 2: upper-half time axis with non-zero start: the transform ignores the start
import warnings; warnings.filterwarnings("ignore")
import sys, numpy as np
from quantarhei import TimeAxis, DFunction
N, dt = 6, 0.5
rng = np.random.default_rng(3)
y = rng.normal(size=N) + 1j*rng.normal(size=N)
def direct(t, y, w):
    # sum over the given points and their mirror images f(-t) = conj f(t)
    return np.array([np.sum(y*np.exp(1j*wk*t) + np.conj(y)*np.exp(-1j*wk*t))*dt for wk in w])
dev = {}
for t0 in (0.0, 2.0):
    ta = TimeAxis(t0, N, dt)                   # upper-half
    yy = y.copy()
    if t0 == 0.0:
        yy[0] = yy[0].real/1.0                 # Hermitian-extendable at t=0
    F = DFunction(ta, yy.copy()).get_Fourier_transform()
    ref = direct(ta.data, yy, F.axis.data)
    if t0 == 0.0:
        ref = ref - yy[0]*dt                   # t=0 is its own mirror image, count it once
    dev[t0] = np.abs(F.data-ref).max()
    print("start=%.1f  max|F - direct Fourier sum| = %.3e   (max|F| = %.3f)" % (t0, dev[t0], np.abs(F.data).max()))
F0 = DFunction(TimeAxis(0.0, N, dt), y.copy()).get_Fourier_transform()
F2 = DFunction(TimeAxis(2.0, N, dt), y.copy()).get_Fourier_transform()
print("transform for start=2.0 identical to transform for start=0.0:", np.allclose(F0.data, F2.data))
print("REQUIRED: F(w) = sum_n [f(t_n) e^{i w t_n} + conj f(t_n) e^{-i w t_n}] dt with t_n = start + n*dt, for all starts")
sys.exit(1 if dev[2.0] > 1e-8 else 0)
