# C13 finding 1: complete axes of length 1 cannot be mapped to the conjugate axis (IndexError)
import warnings; warnings.filterwarnings("ignore")
import sys, numpy as np
from quantarhei import TimeAxis, FrequencyAxis, DFunction
fail = 0
dt = 0.5
try:
    ta = TimeAxis(0.0, 1, dt, atype="complete")
    wa = ta.get_FrequencyAxis()
    print("TimeAxis(0,1,0.5,complete).get_FrequencyAxis():", wa.data)
except Exception as e:
    fail += 1
    print("TimeAxis(0,1,0.5,'complete').get_FrequencyAxis() raised", repr(e))
try:
    wa = FrequencyAxis()          # all defaults: length 1, complete
    tb = wa.get_TimeAxis()
    print("FrequencyAxis().get_TimeAxis():", tb.data)
except Exception as e:
    fail += 1
    print("FrequencyAxis().get_TimeAxis() (all default arguments) raised", repr(e))
try:
    f = DFunction(TimeAxis(0.0, 1, dt, atype="complete"), np.array([2.0+1.0j]))
    F = f.get_Fourier_transform()
    print("FT:", F.data)
except Exception as e:
    fail += 1
    print("get_Fourier_transform() of a length-1 complete function raised", repr(e))
# the upper-half type handles length 1
tu = TimeAxis(0.0, 1, dt)
Fu = DFunction(tu, np.array([2.0])).get_Fourier_transform()
print("upper-half, length 1 works: w =", Fu.axis.data, " F =", Fu.data)
print("REQUIRED: for length 1 the frequency axis is [0.] (step 2*pi/dt = %.4f), it maps back to" % (2*np.pi/dt))
print("          the time axis [0.], and the transform is f(t0)*dt = %s" % ((2.0+1.0j)*dt))
sys.exit(1 if fail else 0)
