# C17 finding 3: RateMatrix keeps an alias of the array it was created from;
# two rate matrices created from the same array overwrite each other's rates
import warnings; warnings.filterwarnings("ignore")
import sys
import numpy
from quantarhei.qm import RateMatrix

template = numpy.zeros((2,2))          # common starting point of two models

slow = RateMatrix(data=template)
fast = RateMatrix(data=template)

slow.set_rate((1,0), 0.001)
fast.set_rate((1,0), 0.1)

print("slow.data =\n", slow.data)
print("fast.data =\n", fast.data)
print("template  =\n", template)

ok = (slow.data[1,0] == 0.001) and (fast.data[1,0] == 0.1) \
     and numpy.all(template == 0.0)
if not ok:
    print("VIOLATION: slow.set_rate((1,0), 0.001) was assigned, but"
          " slow.data[1,0] =", slow.data[1,0],
          "; the property requires the assigned off-diagonal value to be"
          " kept (the caller's array was modified as well)")
    sys.exit(1)
print("no violation")
