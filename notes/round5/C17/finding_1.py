# C17 finding 1: RateMatrix built on a whole-number array silently truncates
# the rates assigned by set_rate
import warnings; warnings.filterwarnings("ignore")
import sys
import numpy
from quantarhei.qm import RateMatrix

# a legitimate rate matrix whose present rates happen to be whole numbers
K0 = numpy.array([[-1, 2, 0],
                  [ 1,-3, 0],
                  [ 0, 1, 0]])
rm = RateMatrix(data=K0)

assigned = {(0,1): 0.5, (2,0): 0.25, (1,2): 1.75}
for pos, val in assigned.items():
    rm.set_rate(pos, val)

print("dtype of the rate matrix data:", rm.data.dtype)
print(rm.data)
print("column sums:", rm.data.sum(axis=0))

bad = False
for pos, val in assigned.items():
    got = rm.data[pos]
    ok = (got == val)
    print("set_rate(%s, %s): stored %s  -> %s" % (pos, val, got,
                                                  "ok" if ok else "WRONG"))
    bad = bad or (not ok)

# the same sequence on a float matrix, for reference
rf = RateMatrix(data=K0.astype(float))
for pos, val in assigned.items():
    rf.set_rate(pos, val)
print("reference (float data):")
print(rf.data)

if bad:
    print("VIOLATION: property requires the assigned off-diagonal values to be"
          " kept; they were truncated to whole numbers without any warning")
    sys.exit(1)
print("no violation")
