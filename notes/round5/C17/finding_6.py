# C17 finding 6: the orders of the expansion returned together with U by
# get_PropagationMatrix(corrections=n) use another time origin than U
#  (A) Uc0 (and exact Uc1, Uc2) use the absolute time of the sub-axis, U uses
#      the time elapsed from the start of the propagator's axis
#  (B) the numerical orders (exact=False, the default) integrate from the
#      start of the sub-axis instead of from the start of the propagation
import warnings; warnings.filterwarnings("ignore")
import sys
import numpy, scipy.linalg
from quantarhei import PopulationPropagator, TimeAxis

numpy.set_printoptions(precision=5, linewidth=120)
K = numpy.array([[-0.002, 0.001, 0.0   ],
                 [ 0.002,-0.004, 0.0005],
                 [ 0.0  , 0.003,-0.0005]])
bad = False

# (A) the same calculation on a propagation axis starting at 0 and at 50
res = {}
for t0 in (0.0, 50.0):
    prop = PopulationPropagator(TimeAxis(t0, 200, 1.0), rate_matrix=K)
    U, (Uc0, Uc1, Uc2) = prop.get_PropagationMatrix(TimeAxis(t0, 10, 10.0),
                                                  corrections=2, exact=True)
    res[t0] = (U, Uc0+Uc1+Uc2)
    print("axis start %5.1f: U at first point = identity: %s ;"
          " diag of Uc0 at first point: %s ; max|U-(Uc0+Uc1+Uc2)| = %.4f"
          % (t0, numpy.allclose(U[:,:,0], numpy.eye(3)),
             numpy.diag(Uc0[:,:,0]), numpy.abs(U-(Uc0+Uc1+Uc2)).max()))
print("U equal for both starts:", numpy.allclose(res[0.0][0], res[50.0][0]),
      "; expansion equal for both starts:",
      numpy.allclose(res[0.0][1], res[50.0][1]))
if not numpy.allclose(res[0.0][1], res[50.0][1]):
    bad = True

# (B) sub-axis starting later than the propagation axis, first order
prop = PopulationPropagator(TimeAxis(0.0, 200, 1.0), rate_matrix=K)
ts = TimeAxis(20.0, 10, 10.0)
U, (a0, a1) = prop.get_PropagationMatrix(ts, corrections=1, exact=True)
U, (n0, n1) = prop.get_PropagationMatrix(ts, corrections=1)   # default
print("first order at t=20, analytical:\n", a1[:,:,0])
print("first order at t=20, numerical (default):\n", n1[:,:,0])
print("max|U-(Uc0+Uc1)| analytical %.4f, numerical %.4f"
      % (numpy.abs(U-(a0+a1)).max(), numpy.abs(U-(n0+n1)).max()))
if not numpy.allclose(a1, n1, atol=2.0e-3):
    bad = True

if bad:
    print("VIOLATION: U equals expm(K*(t - t_start)) but the orders returned"
          " with it are not an expansion of that exponential when the"
          " propagation axis or the sub-axis has a shifted start")
    sys.exit(1)
print("no violation")
