# C17 finding 2: get_PropagationMatrix refuses compatible (shifted) sub-axes
# when the step is not a whole number, because ValueAxis.is_subset_of tests
# grid membership by exact float equality
import warnings; warnings.filterwarnings("ignore")
import sys
import numpy, scipy.linalg
from quantarhei import PopulationPropagator, TimeAxis

K = numpy.array([[-0.02, 0.01],
                 [ 0.02,-0.01]])

ta = TimeAxis(0.0, 1000, 0.1)          # propagation axis, step 0.1 fs
prop = PopulationPropagator(ta, rate_matrix=K)

ta3 = TimeAxis(0.0, 300, 1.0/3.0)
prop3 = PopulationPropagator(ta3, rate_matrix=K)

cases = [("start 1.0, step 0.1", TimeAxis(1.0, 10, 0.1)),
         ("start 0.5, step 0.1", TimeAxis(0.5, 10, 0.1)),
         ("start 0.0, step 0.3", TimeAxis(0.0, 10, 0.3)),
         ("step 1/3: start ta.data[2], step 2*ta.step",
          TimeAxis(float(ta3.data[2]), 10, 2*ta3.step))]

nbad = 0
for label, ts in cases:
    if label.startswith("step 1/3"):
        ta, prop = ta3, prop3
    # every point of ts lies on the grid of ta within rounding errors
    k = numpy.rint((ts.data - ta.start)/ta.step).astype(int)
    dist = numpy.abs(ta.data[k] - ts.data).max()
    try:
        U = prop.get_PropagationMatrix(ts)
        ex = numpy.array([scipy.linalg.expm(K*(t-ta.start))
                          for t in ts.data]).transpose(1,2,0)
        print("%-50s max dist to grid %.1e: returned, |U-expm| = %.1e"
              % (label, dist, numpy.abs(U-ex).max()))
    except Exception as e:
        nbad += 1
        print("%-50s max dist to grid %.1e: EXCEPTION %s" % (label, dist, e))

# for comparison: the same requests with whole-number steps work
ta1 = TimeAxis(0.0, 1000, 1.0)
prop1 = PopulationPropagator(ta1, rate_matrix=K)
U = prop1.get_PropagationMatrix(TimeAxis(10.0, 10, 1.0))
print("whole-number analogue (start 10, step 1 on a step-1 axis): returned")

if nbad > 0:
    print("VIOLATION: property requires the exponential for all compatible"
          " sub-axes including shifted starts; %d compatible sub-axes were"
          " rejected" % nbad)
    sys.exit(1)
print("no violation")
