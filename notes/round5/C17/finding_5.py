# C17 finding 5: sub-axis with a negative step (descending times) is accepted,
# but the shift of its start is ignored and U does not equal the exponential
import warnings; warnings.filterwarnings("ignore")
import sys
import numpy, scipy.linalg
from quantarhei import PopulationPropagator, TimeAxis

K = numpy.array([[-0.02, 0.01],
                 [ 0.02,-0.01]])

ta = TimeAxis(0.0, 100, 1.0)
prop = PopulationPropagator(ta, rate_matrix=K)

ts = TimeAxis(90.0, 10, -10.0)   # 90, 80, ..., 0 ; all points on the grid
print("sub-axis values:", ts.data)
print("is_subset_of   :", ts.is_subset_of(ta))

U = prop.get_PropagationMatrix(ts)
ex = numpy.array([scipy.linalg.expm(K*(t-ta.start))
                  for t in ts.data]).transpose(1,2,0)

print("U at t=90 returned:\n", U[:,:,0])
print("expm(K*90)        :\n", ex[:,:,0])
print("U at t=0 returned :\n", U[:,:,-1])
print("max |U - expm|    :", numpy.abs(U-ex).max())
print("smallest element  :", U.min(), " column sums at last point:",
      U[:,:,-1].sum(axis=0))

if numpy.abs(U-ex).max() > 1.0e-10:
    print("VIOLATION: the axis is accepted as compatible, the property"
          " requires U(t_i) = expm(K*(t_i - t_start)); the identity is"
          " returned at t=90 and inverse exponentials afterwards")
    sys.exit(1)
print("no violation")
