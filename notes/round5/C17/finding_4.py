# C17 finding 4: one-point sub-axes on the grid are rejected
#  (a) at the last point of the propagation axis,
#  (b) anywhere, if the (irrelevant) step of the one-point axis is not
#      a multiple of the propagation step (e.g. the default step 1.0)
import warnings; warnings.filterwarnings("ignore")
import sys
import numpy, scipy.linalg
from quantarhei import PopulationPropagator, TimeAxis

K = numpy.array([[-0.02, 0.01],
                 [ 0.02,-0.01]])
nbad = 0

def check(label, ta, ts):
    global nbad
    prop = PopulationPropagator(ta, rate_matrix=K)
    try:
        U = prop.get_PropagationMatrix(ts)
        ex = scipy.linalg.expm(K*(ts.start-ta.start))
        print("%-55s returned, |U-expm| = %.1e"
              % (label, numpy.abs(U[:,:,0]-ex).max()))
    except Exception as e:
        nbad += 1
        print("%-55s EXCEPTION: %s" % (label, e))

ta = TimeAxis(0.0, 100, 1.0)
check("t=98 (one point) on 0..99 step 1", ta, TimeAxis(98.0, 1, 1.0))
check("t=99 (one point, the last one) on 0..99 step 1", ta,
      TimeAxis(99.0, 1, 1.0))
ta2 = TimeAxis(0.0, 100, 2.0)
check("t=4 (one point, step 2) on 0..198 step 2", ta2, TimeAxis(4.0, 1, 2.0))
check("t=4 (one point, default step) on 0..198 step 2", ta2,
      TimeAxis(4.0, 1))

if nbad > 0:
    print("VIOLATION: the points lie on the propagation grid; the property"
          " requires expm(K*(t-t_start)) for every compatible sub-axis,"
          " including length-1 ones")
    sys.exit(1)
print("no violation")
