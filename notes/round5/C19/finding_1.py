# C19 finding 1: data of a shape that does not fit the axes is accepted and stored
# (the shape check in the d__data setter is dead code after a `raise`).
import sys, warnings, numpy
warnings.filterwarnings("ignore")
import quantarhei as qr
from quantarhei.spectroscopy.twod2 import TwoDResponse
from quantarhei import signal_TOTL as TOT, signal_REPH as REPH, signal_NONR as NONR

def mk(nx, ny):
    r = TwoDResponse()
    r.set_axis_1(qr.FrequencyAxis(0.0, nx, 0.1))
    r.set_axis_3(qr.FrequencyAxis(0.0, ny, 0.1))
    return r

bad = 0

# (a) 'pathways' storage, axes 3x3, a 4x4 pathway is accepted; total becomes unreadable
r = mk(3, 3)
r._add_data(numpy.ones((3, 3)), resolution="pathways", dtype="R1g", tag="a")
r.set_data_flag(TOT); before = r.d__data.copy()
try:
    r._add_data(5*numpy.ones((4, 4)), resolution="pathways", dtype="R1g", tag="b")
    print("(a) 4x4 array added to a 3x3 response: ACCEPTED (property: must be refused)")
    bad += 1
except Exception as e:
    print("(a) refused:", e)
try:
    r.set_data_flag(TOT); after = r.d__data
    print("(a) total after:", after[0, 0], " before:", before[0, 0])
except Exception as e:
    print("(a) total can no longer be read:", type(e).__name__, e)
    bad += 1
try:
    r.set_resolution("types")
except Exception as e:
    print("(a) resolution can no longer be reduced:", type(e).__name__, e)

# (b) a 1x1 (or 0-d, or row-vector) array is silently broadcast into the total
r = mk(3, 3)
r._add_data(numpy.ones((3, 3)), resolution="signals", dtype=REPH)
r._add_data(numpy.array([[5.0]]), resolution="signals", dtype=NONR)
r._add_data(numpy.array([1.0, 2.0, 3.0]), resolution="signals", dtype=NONR)
r.set_data_flag(NONR); print("(b) stored NONR cell shape:", r.d__data.shape, "(axes are 3x3)")
r.set_data_flag(TOT); print("(b) total read back:\n", numpy.real(r.d__data))
if r.get_all_data()[NONR].shape != (3, 3):
    bad += 1

# (c) non-square axes 3x4, transposed 4x3 array accepted at 'signals'; total unreadable
r = mk(3, 4)
r._add_data(numpy.ones((4, 3)), resolution="signals", dtype=REPH)
print("(c) 4x3 array accepted for axes (x:3, y:4); stored shape", r.get_all_data()[REPH].shape)
try:
    r.set_data_flag(TOT); r.d__data
except Exception as e:
    print("(c) total can not be read:", type(e).__name__, e); bad += 1

print("PROPERTY: an addition whose array does not have shape (xaxis.length, yaxis.length) is inadmissible"
      " and must be refused without changing the stored data")
sys.exit(1 if bad else 0)
