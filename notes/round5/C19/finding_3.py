# C19 finding 3: the rephasing / non-rephasing views handed out by get_TwoDSpectrum
# and get_TwoDSpectrumContainer are labelled as the TOTAL spectrum.
import sys, warnings, numpy
warnings.filterwarnings("ignore")
import quantarhei as qr
from quantarhei.spectroscopy.twod2 import TwoDResponse
from quantarhei.spectroscopy.twodcontainer import TwoDResponseContainer
from quantarhei import signal_TOTL as TOT, signal_REPH as REPH, signal_NONR as NONR
bad = 0
t2 = qr.TimeAxis(0.0, 2, 10.0)
cont = TwoDResponseContainer(t2axis=t2)
for t in t2.data:
    r = TwoDResponse()
    r.set_axis_1(qr.FrequencyAxis(0.0, 3, 0.1)); r.set_axis_3(qr.FrequencyAxis(0.0, 3, 0.1))
    r._add_data(1.0*numpy.ones((3, 3)), resolution="signals", dtype=REPH)
    r._add_data(2.0*numpy.ones((3, 3)), resolution="signals", dtype=NONR)
    r.set_t2(t)
    cont.set_spectrum(r)
for dt in (REPH, NONR):
    sp = cont.get_spectrum(0.0).get_TwoDSpectrum(dtype=dt)
    print("get_TwoDSpectrum(%s): data[0,0]=%s  get_spectrum_type()=%s" % (dt, sp.data[0, 0], sp.get_spectrum_type()))
    if sp.get_spectrum_type() != dt: bad += 1
sc = cont.get_TwoDSpectrumContainer(stype=REPH)
print("get_TwoDSpectrumContainer(REPH): container dtype =", sc.dtype, " data[0,0] =", sc.get_spectrum(0.0).data[0, 0])
if sc.dtype != REPH: bad += 1
try:
    sc.fft(dtype=REPH)
except Exception as e:
    print("fft(dtype=REPH) of the rephasing container refused:", e); bad += 1
print("PROPERTY: each rephasing / non-rephasing view equals (and is) the sum of the additions belonging to it,"
      " not the total")
sys.exit(1 if bad else 0)
