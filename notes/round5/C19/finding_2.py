# C19 finding 2: adding data (and get_TwoDSpectrum/plot/fft) leaves the data flag on the
# last touched cell; the default read (documented as "total") returns only that part.
import sys, warnings, numpy
warnings.filterwarnings("ignore")
import quantarhei as qr
from quantarhei.spectroscopy.twod2 import TwoDResponse
from quantarhei import signal_TOTL as TOT, signal_REPH as REPH, signal_NONR as NONR

def mk():
    r = TwoDResponse()
    r.set_axis_1(qr.FrequencyAxis(0.0, 3, 0.1)); r.set_axis_3(qr.FrequencyAxis(0.0, 3, 0.1))
    return r
bad = 0
r = mk()
print("fresh response, flag:", r.current_dtype, r.current_tag, " (twod2.py: 'if no dtype is specified, we return total spectrum')")
r.set_resolution("signals")                      # exactly what TwoDResponseCalculator does
r._add_data(1.0*numpy.ones((3, 3)), dtype=REPH)
r._add_data(2.0*numpy.ones((3, 3)), dtype=NONR)
print("after two additions, flag:", r.current_dtype)
print("r.data[0,0]          =", r.data[0, 0], "  expected total 3")
print("r.get_max_value()    =", r.get_max_value(), "  expected 3")
pp = r.get_PumpProbeSpectrum()
print("pump-probe from resp =", pp.data[0], "  expected", -3*3*0.1)
if abs(r.data[0, 0] - 3) > 1e-12: bad += 1
r.set_data_flag(TOT)
print("after set_data_flag(total): r.data[0,0] =", r.data[0, 0])
sp = r.get_TwoDSpectrum(dtype=REPH)               # a pure read ...
print("after get_TwoDSpectrum(REPH): r.data[0,0] =", r.data[0, 0], " (flag silently changed to", r.current_dtype, ")")
if abs(r.data[0, 0] - 3) > 1e-12: bad += 1
r.set_resolution("off")
try:
    print("after set_resolution('off'): r.data[0,0] =", r.data[0, 0])
except Exception as e:
    print("after set_resolution('off') the default read raises:", e); bad += 1

# pathways storage: the default read returns the single last pathway
r = mk()
r._add_data(1.0*numpy.ones((3, 3)), resolution="pathways", dtype="R1g", tag="a")
r._add_data(2.0*numpy.ones((3, 3)), resolution="pathways", dtype="R2g", tag="b")
print("pathways: default read =", r.d__data[0, 0], " flag", r.current_dtype, r.current_tag, "; sum of everything added = 3")
if abs(r.d__data[0, 0] - 3) > 1e-12: bad += 1
print("PROPERTY: the total spectrum read back equals the sum of everything added")
sys.exit(1 if bad else 0)
