# C19 finding 5: reads of a stored cell hand out the stored array itself; an in-place
# operation on what was read changes the stored data (only some views are copies).
import sys, warnings, numpy
warnings.filterwarnings("ignore")
import quantarhei as qr
from quantarhei.spectroscopy.twod2 import TwoDResponse
from quantarhei import signal_TOTL as TOT, signal_REPH as REPH, signal_NONR as NONR
def mk():
    r = TwoDResponse()
    r.set_axis_1(qr.FrequencyAxis(0.0, 3, 0.1)); r.set_axis_3(qr.FrequencyAxis(0.0, 3, 0.1))
    return r
def total(r):
    r.set_data_flag(TOT); return r.d__data[0, 0]
bad = 0
cases = [("pathways", ["R1g", "a"], dict(dtype="R1g", tag="a")),
         ("pathways", "R1g", dict(dtype="R1g", tag="a")),
         ("types", "R1g", dict(dtype="R1g")),
         ("processes", "GSB", dict(dtype="GSB")),
         ("signals", REPH, dict(dtype=REPH)),
         ("off", TOT, dict(dtype=TOT))]
for res, flag, kw in cases:
    r = mk()
    r._add_data(numpy.ones((3, 3)), resolution=res, **kw)
    r.set_data_flag(flag)
    view = r.d__data            # a read
    view /= 4.0                 # e.g. normalisation of what was read, for plotting
    t = total(r)
    ok = abs(t - 1.0) < 1e-12
    print("storage %-9s read of %-28s then in-place /4 on the result -> total read back %s (added: 1) %s"
          % (res, flag, numpy.real(t), "" if ok else "<-- stored data changed"))
    if not ok: bad += 1
print("PROPERTY: after any sequence of additions and reads the total equals the sum of everything added")
sys.exit(1 if bad else 0)
