# C19 finding 6: TwoDSpectrum.set_data keeps the caller's array and add_data adds in place:
# the caller's array (and every other spectrum sharing it) changes, and an addition that
# needs a wider dtype (real -> complex, whole-number -> float) crashes.
import sys, warnings, numpy
warnings.filterwarnings("ignore")
import quantarhei as qr
from quantarhei.spectroscopy.twod import TwoDSpectrum
def mk():
    s = TwoDSpectrum()
    s.set_axis_1(qr.FrequencyAxis(0.0, 3, 0.1)); s.set_axis_3(qr.FrequencyAxis(0.0, 3, 0.1))
    return s
bad = 0
base = numpy.ones((3, 3))
s1 = mk(); s2 = mk()
s1.set_data(base); s2.set_data(base)          # same start array for two spectra
s1.add_data(2*numpy.ones((3, 3)))
print("s1 = 1 + 2 ->", s1.data[0, 0], "; s2 (nothing added) ->", s2.data[0, 0], " expected 1 ; caller's array ->", base[0, 0])
if s2.data[0, 0] != 1.0: bad += 1
s = mk(); s.set_data(numpy.ones((3, 3)))
try:
    s.add_data(1j*numpy.ones((3, 3))); print("real + complex ->", s.data[0, 0])
except Exception as e:
    print("real start + complex addition: CRASH", type(e).__name__, str(e)[:70]); bad += 1
s = mk(); s.set_data(numpy.ones((3, 3), dtype=int))
try:
    s.add_data(0.5*numpy.ones((3, 3))); print("int + float ->", s.data[0, 0])
except Exception as e:
    print("whole-number start + float addition: CRASH", type(e).__name__, str(e)[:70]); bad += 1
print("PROPERTY: the spectrum read back equals the sum of everything added (and nothing else changes)")
sys.exit(1 if bad else 0)
