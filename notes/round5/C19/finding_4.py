# C19 finding 4: trim_to() on a response whose storage resolution is 'off' trims the axes
# but not the data (the branch tests `storage_resolution == _total`, never true).
import sys, warnings, numpy
warnings.filterwarnings("ignore")
import quantarhei as qr
from quantarhei.spectroscopy.twod2 import TwoDResponse
from quantarhei import signal_TOTL as TOT, signal_REPH as REPH
bad = 0
for res in ["signals", "off"]:
    r = TwoDResponse()
    r.set_axis_1(qr.FrequencyAxis(0.0, 10, 1.0)); r.set_axis_3(qr.FrequencyAxis(0.0, 10, 1.0))
    r._add_data(numpy.arange(100.).reshape(10, 10), resolution="signals", dtype=REPH)
    r.set_resolution(res)
    r.trim_to(window=[3.0, 5.0, 3.0, 5.0])
    r.set_data_flag(TOT)
    d = r.d__data
    print("resolution %-8s after trim_to: axes (%d,%d) first x=%.1f ; total shape %s ; value at (3,3): %s (added there: 33)"
          % (res, r.xaxis.length, r.yaxis.length, r.xaxis.data[0], d.shape, numpy.real(r.get_value_at(3.0, 3.0))))
    if d.shape != (r.xaxis.length, r.yaxis.length) or numpy.real(r.get_value_at(3.0, 3.0)) != 33: bad += 1
print("PROPERTY: at every storage resolution the total read back is the sum of what was added (on the object's axes)")
sys.exit(1 if bad else 0)
