"""C02 finding 6: StateVector.norm() (and dot()) do not conjugate, so the norm of a
propagated (complex) state vector is not conserved - it is not even real -
although the propagation itself is unitary.
"""
import sys, warnings
warnings.filterwarnings("ignore")
import numpy
import quantarhei as qr

H = numpy.array([[0.0, 0.05], [0.05, 0.1]])
HH = qr.Hamiltonian(data=H.copy())
time = qr.TimeAxis(0.0, 50, 1.0)
prop = qr.StateVectorPropagator(time, HH)
psi0 = qr.StateVector(data=numpy.array([1.0, 0.0]))
psit = prop.propagate(psi0, L=6)
norms_api = numpy.array([qr.StateVector(data=psit.data[k, :].copy()).norm()
                         for k in range(time.length)])
norms_true = numpy.linalg.norm(psit.data, axis=1)
print("StateVector.norm() at t=0, 10, 20, 30 fs:", norms_api[[0, 10, 20, 30]])
print("sqrt(<psi|psi>)    at t=0, 10, 20, 30 fs:", norms_true[[0, 10, 20, 30]])
sv = qr.StateVector(data=numpy.array([1.0, 1.0j])/numpy.sqrt(2.0))
print("StateVector([1, i]/sqrt(2)).norm() =", sv.norm(), "(must be 1)")
dev = numpy.max(numpy.abs(norms_api - 1.0))
print("max |StateVector.norm() - 1| along the propagation = %.3f "
      "(true norm deviates by %.1e)" % (dev, numpy.max(numpy.abs(norms_true-1))))
print("required: with no relaxation the norm is conserved")
if dev > 1e-6:
    print("VIOLATION")
    sys.exit(1)
print("no violation")
