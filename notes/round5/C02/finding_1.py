"""C02 finding 1: Lindblad form in operator representation + complex Hermitian
Hamiltonian + propagation inside `with eigenbasis_of(H)`.

The operators Km, Lm, Ld of LindbladForm are stored in REAL arrays and the
propagator builds Kd = transpose(Km) in a float64 array.  The eigenvectors of a
complex Hermitian matrix are complex, so the basis change drops imaginary
parts (and Kd is not the Hermitian conjugate).  The propagated states do not
follow the GKSL generator and the LindbladForm object stays damaged after the
context is left.
"""
import sys, warnings
warnings.filterwarnings("ignore")
import numpy, scipy.linalg
import quantarhei as qr
from quantarhei.qm import SystemBathInteraction, LindbladForm, Operator

def exact(H, Ls, rho0, times):
    N = H.shape[0]; I = numpy.eye(N)
    Lsup = -1j*(numpy.kron(H, I) - numpy.kron(I, H.T))
    for L in Ls:
        LdL = L.conj().T @ L
        Lsup = Lsup + numpy.kron(L, L.conj()) - 0.5*numpy.kron(LdL, I) \
               - 0.5*numpy.kron(I, LdL.T)
    return numpy.array([(scipy.linalg.expm(Lsup*(t-times[0])) @
                         rho0.reshape(N*N)).reshape(N, N) for t in times])

# complex Hermitian 3x3 Hamiltonian (1/fs), two real jump operators
H = numpy.array([[0.00,        0.03+0.02j, 0.00      ],
                 [0.03-0.02j,  0.05,       0.01-0.04j],
                 [0.00,        0.01+0.04j, 0.09      ]])
K1 = numpy.zeros((3, 3)); K1[0, 1] = 1.0
K2 = numpy.zeros((3, 3)); K2[1, 2] = 1.0
rates = (0.02, 0.01)
rho0 = numpy.zeros((3, 3), dtype=complex); rho0[2, 2] = 1.0
time = qr.TimeAxis(0.0, 100, 1.0)
ex = exact(H, [numpy.sqrt(r)*K for r, K in zip(rates, (K1, K2))], rho0,
           time.data)

errs = {}
for as_op in (False, True):
    HH = qr.Hamiltonian(data=H.copy())
    sbi = SystemBathInteraction([Operator(data=K1.copy()),
                                 Operator(data=K2.copy())], rates=rates)
    LF = LindbladForm(HH, sbi, as_operators=as_op)
    prop = qr.ReducedDensityMatrixPropagator(time, HH, LF)
    r0 = qr.ReducedDensityMatrix(data=rho0.copy())
    e_before = numpy.max(numpy.abs(
        prop.propagate(r0, method="short-exp-6", Nref=2).data - ex))
    with qr.eigenbasis_of(HH):
        rt = prop.propagate(r0, method="short-exp-6", Nref=2)
    e_in = numpy.max(numpy.abs(rt.data - ex))   # rt is back in the site basis
    e_after = numpy.max(numpy.abs(
        prop.propagate(r0, method="short-exp-6", Nref=2).data - ex))
    errs[as_op] = (e_before, e_in, e_after)
    print("as_operators=%-5s max|rho - exact GKSL|: before context %.1e,"
          " inside eigenbasis_of(H) %.1e, afterwards (outside) %.1e"
          % (as_op, e_before, e_in, e_after))

print("required: all three numbers at the truncation level (~1e-9) for "
      "both representations")
bad = max(errs[True][1], errs[True][2]) > 1e-6 or max(errs[False]) > 1e-6
if bad:
    print("VIOLATION: operator representation deviates by %.2e inside the "
          "context and by %.2e in later calls outside it"
          % (errs[True][1], errs[True][2]))
    sys.exit(1)
print("no violation")
