"""C02 finding 3: DensityMatrixEvolution.at(t) / ReducedDensityMatrixEvolution.at(t)
asked for one of the stored times returns the state stored at the PREVIOUS time
for a sizeable fraction of the grid points (floor of a rounded quotient in
TimeAxis.locate), so the state handed out for time t does not agree with
exp(L t) rho0.
"""
import sys, warnings
warnings.filterwarnings("ignore")
import numpy, scipy.linalg
import quantarhei as qr

H = numpy.array([[0.0, 0.3], [0.3, 1.0]])
HH = qr.Hamiltonian(data=H.copy())
rho0 = numpy.array([[1.0, 0.0], [0.0, 0.0]], dtype=complex)
nbad_total = 0
for start, step in ((0.0, 0.1), (0.3, 0.1), (5.0, 0.7)):
    time = qr.TimeAxis(start, 50, step)
    prop = qr.ReducedDensityMatrixPropagator(time, HH)
    rt = prop.propagate(qr.ReducedDensityMatrix(data=rho0.copy()),
                        method="short-exp-6", Nref=10)
    bad = []
    worst = 0.0
    for k, t in enumerate(time.data):
        U = scipy.linalg.expm(-1j*H*(t-start))
        ex = U @ rho0 @ U.conj().T
        err_stored = numpy.max(numpy.abs(rt.data[k] - ex))
        err_at = numpy.max(numpy.abs(rt.at(t).data - ex))
        if err_at > 1e-6:
            bad.append(k)
            worst = max(worst, err_at)
        assert err_stored < 1e-6
    nbad_total += len(bad)
    print("TimeAxis(%.1f, 50, %.1f): at(time.data[k]) is not the stored state k"
          " for k in %s; max deviation from exp(-iHt)rho0 exp(iHt): %.2e"
          % (start, step, bad, worst))
print("required: at(t) for a stored time t returns the state stored for t "
      "(rt.data[k] itself is correct to 1e-6)")
if nbad_total > 0:
    print("VIOLATION: %d stored times return the state of the previous time"
          % nbad_total)
    sys.exit(1)
print("no violation")
