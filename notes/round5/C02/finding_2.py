"""C02 finding 2: Hamiltonian.diagonalize() followed by Hamiltonian.undiagonalize()
does not restore a complex Hermitian Hamiltonian; the result is not even
Hermitian, so a density matrix propagated with it stops being Hermitian and
energy/purity are not conserved.
"""
import sys, warnings
warnings.filterwarnings("ignore")
import numpy, scipy.linalg
import quantarhei as qr

H = numpy.array([[0.00,        0.03+0.02j, 0.00      ],
                 [0.03-0.02j,  0.05,       0.01-0.04j],
                 [0.00,        0.01+0.04j, 0.09      ]])
HH = qr.Hamiltonian(data=H.copy())
HH.diagonalize()
HH.undiagonalize()          # documented: "transformed to the basis before diagonalization"
Hback = HH.data
print("max|H(after round trip) - H| = %.2e" % numpy.max(numpy.abs(Hback - H)))
print("max|H - H^dagger| after round trip = %.2e"
      % numpy.max(numpy.abs(Hback - Hback.conj().T)))

v = numpy.array([1.0, 1.0j, -1.0])/numpy.sqrt(3.0)
rho0 = numpy.outer(v, v.conj())
time = qr.TimeAxis(0.0, 40, 1.0)
prop = qr.ReducedDensityMatrixPropagator(time, HH)
rt = prop.propagate(qr.ReducedDensityMatrix(data=rho0.copy()),
                    method="short-exp-6", Nref=2)
d = rt.data
herm = numpy.max(numpy.abs(d - numpy.conj(numpy.transpose(d, (0, 2, 1)))))
pur = numpy.real(numpy.einsum("tij,tji->t", d, d))
ex = numpy.array([scipy.linalg.expm(-1j*H*t) @ rho0 @ scipy.linalg.expm(1j*H*t)
                  for t in time.data])
print("propagated rho: max|rho - rho^dagger| = %.2e, purity range [%.4f, %.4f],"
      " max|rho - exp(-iHt) rho0 exp(iHt)| = %.2e"
      % (herm, pur.min(), pur.max(), numpy.max(numpy.abs(d - ex))))
print("required: round trip is the identity, rho stays Hermitian (~1e-15), "
      "purity stays 1, rho follows exp(-iHt)")
if herm > 1e-8 or numpy.max(numpy.abs(Hback - H)) > 1e-10:
    print("VIOLATION")
    sys.exit(1)
print("no violation")
