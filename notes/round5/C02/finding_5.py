"""C02 finding 5: a LindbladForm created inside `with eigenbasis_of(H)` from a
SystemBathInteraction defined outside (site basis) takes the site-basis operator
matrices as if they were written in the eigenbasis.  The propagated states do
not follow the GKSL generator defined by the operators and rates.
"""
import sys, warnings
warnings.filterwarnings("ignore")
import numpy, scipy.linalg
import quantarhei as qr
from quantarhei.qm import SystemBathInteraction, LindbladForm, Operator

def exact(H, Ls, rho0, times):
    N = H.shape[0]; I = numpy.eye(N)
    Lsup = -1j*(numpy.kron(H, I) - numpy.kron(I, H.T))
    for L in Ls:
        LdL = L.conj().T @ L
        Lsup = Lsup + numpy.kron(L, L.conj()) - 0.5*numpy.kron(LdL, I) \
               - 0.5*numpy.kron(I, LdL.T)
    return numpy.array([(scipy.linalg.expm(Lsup*t) @
                         rho0.reshape(N*N)).reshape(N, N) for t in times])

H = numpy.array([[0.00, 0.03, 0.00],
                 [0.03, 0.05, 0.02],
                 [0.00, 0.02, 0.09]])
K = numpy.zeros((3, 3)); K[0, 2] = 1.0        # site 2 -> site 0
rate = 0.02
rho0 = numpy.zeros((3, 3), dtype=complex); rho0[2, 2] = 1.0
time = qr.TimeAxis(0.0, 100, 1.0)
ex = exact(H, [numpy.sqrt(rate)*K], rho0, time.data)

res = {}
for where in ("outside", "inside"):
    for as_op in (True, False):
        HH = qr.Hamiltonian(data=H.copy())
        sbi = SystemBathInteraction([Operator(data=K.copy())], rates=(rate,))
        if where == "outside":
            LF = LindbladForm(HH, sbi, as_operators=as_op)
        else:
            with qr.eigenbasis_of(HH):
                LF = LindbladForm(HH, sbi, as_operators=as_op)
        prop = qr.ReducedDensityMatrixPropagator(time, HH, LF)
        rt = prop.propagate(qr.ReducedDensityMatrix(data=rho0.copy()),
                            method="short-exp-6", Nref=2)
        res[(where, as_op)] = numpy.max(numpy.abs(rt.data - ex))
        print("LindbladForm created %-7s the context, as_operators=%-5s: "
              "max|rho - exact GKSL| = %.2e, population of site 0 at 99 fs "
              "%.4f (exact %.4f)" % (where, as_op, res[(where, as_op)],
                                     rt.data[-1, 0, 0].real, ex[-1, 0, 0].real))
print("required: the same generator (same operators, rates, Hamiltonian) gives"
      " the same dynamics wherever the form is created (~1e-9)")
if max(res.values()) > 1e-6:
    print("VIOLATION")
    sys.exit(1)
print("no violation")
