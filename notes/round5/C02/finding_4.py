"""C02 finding 4: Hamiltonian.diagonalize(coupling_cutoff=...) wipes the Hamiltonian.
The eigenvalues are written into a temporary copy returned by the units-managed
`data` property, so H.data is all zeros afterwards; undiagonalize() cannot bring
it back.  Propagation with this Hamiltonian shows no dynamics and zero energy.
"""
import sys, warnings
warnings.filterwarnings("ignore")
import numpy, scipy.linalg
import quantarhei as qr

H = numpy.array([[0.00, 0.03, 0.00],
                 [0.03, 0.05, 0.01],
                 [0.00, 0.01, 0.09]])
HH = qr.Hamiltonian(data=H.copy())
SS, JR = HH.diagonalize(coupling_cutoff=0.0)   # cut-off 0: nothing is removed
print("eigenvalues of H            :", numpy.linalg.eigvalsh(H))
print("diag of H.data after call   :", numpy.diag(HH.data))
HH.undiagonalize()
print("max|H(after diagonalize+undiagonalize) - H| = %.2e"
      % numpy.max(numpy.abs(HH.data - H)))

rho0 = numpy.zeros((3, 3), dtype=complex); rho0[0, 0] = 1.0
time = qr.TimeAxis(0.0, 100, 1.0)
prop = qr.ReducedDensityMatrixPropagator(time, HH)
rt = prop.propagate(qr.ReducedDensityMatrix(data=rho0.copy()),
                    method="short-exp-6")
ex = numpy.array([scipy.linalg.expm(-1j*H*t) @ rho0 @ scipy.linalg.expm(1j*H*t)
                  for t in time.data])
err = numpy.max(numpy.abs(rt.data - ex))
print("population of state 0 at t=99 fs: propagated %.4f, exp(-iHt): %.4f"
      % (rt.data[-1, 0, 0].real, ex[-1, 0, 0].real))
print("max|rho - exp(-iHt) rho0 exp(iHt)| = %.2e" % err)
print("required: the round trip with cut-off 0 leaves H unchanged and the "
      "propagated state follows exp(-iHt) (error ~1e-8)")
if err > 1e-6:
    print("VIOLATION")
    sys.exit(1)
print("no violation")
