# C09 finding: spectral densities at different temperatures are never refused
import warnings; warnings.filterwarnings("ignore")
import sys
from quantarhei import SpectralDensity, CorrelationFunction, TimeAxis, energy_units
from quantarhei.qm.corfunctions.correlationfunctions import EvenFTCorrelationFunction

ta = TimeAxis(0.0, 1000, 1.0)
p300 = dict(ftype="OverdampedBrownian", reorg=30.0, cortime=60.0, T=300)
p77 = dict(ftype="OverdampedBrownian", reorg=20.0, cortime=100.0, T=77)
bad = 0

def attempt(name, fce):
    global bad
    try:
        r = fce()
        print("NOT REFUSED:", name, "->", r)
        bad += 1
    except Exception as e:
        print("refused    :", name, "(", e, ")")

with energy_units("1/cm"):
    # reference: correlation functions refuse
    ca = CorrelationFunction(ta, p300); cb = CorrelationFunction(ta, p77)
    try:
        ca + cb
        print("CorrelationFunction a+b not refused"); bad += 1
    except Exception as e:
        print("refused    : CorrelationFunction a+b (", e, ")")

    a = SpectralDensity(ta, p300); b = SpectralDensity(ta, p77)
    attempt("SpectralDensity a + b",
            lambda: "temperature=%s, component T=%s" % ((a+b).temperature, [p["T"] for p in (a+b).params]))
    def iadd():
        x = a.copy(); x += b
        return "temperature=%s, component T=%s" % (x.temperature, [p["T"] for p in x.params])
    attempt("SpectralDensity a += b", iadd)
    attempt("SpectralDensity(ta, [p300, p77])",
            lambda: "temperature=%s" % SpectralDensity(ta, [p300, p77]).temperature)
    attempt("SpectralDensity(ta, [p77, p300])",
            lambda: "temperature=%s" % SpectralDensity(ta, [p77, p300]).temperature)
    attempt("(a+b).get_CorrelationFunction(temperature=300)",
            lambda: "a correlation function at T=%s built from components declared at 300 K and 77 K"
                    % (a+b).get_CorrelationFunction(temperature=300).temperature)
    attempt("EvenFTCorrelationFunction(ta, [p300, p77])",
            lambda: "data max %g" % EvenFTCorrelationFunction(ta, [p300, p77]).data.max())

print()
print("Property requires: components at different temperatures are refused "
      "(sum of correlation functions or spectral densities).")
print("Observed: %d mixed-temperature constructions/additions were accepted silently." % bad)
sys.exit(1 if bad else 0)
