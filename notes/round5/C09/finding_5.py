# C09 finding: FTCorrelationFunction converts only ("reorg","omega","freq") to internal
# units; "gamma" (and fcp, g_FWHM, l_FWHM, freq1, freq2) of the components stay raw
import warnings; warnings.filterwarnings("ignore")
import sys, numpy
from quantarhei import CorrelationFunction, TimeAxis, energy_units
from quantarhei.qm.corfunctions.correlationfunctions import FTCorrelationFunction

ta = TimeAxis(0.0, 2000, 1.0)
pl = [dict(ftype="OverdampedBrownian", reorg=30.0, cortime=60.0, T=300),
      dict(ftype="UnderdampedBrownian", reorg=15.0, freq=200.0, gamma=30.0, T=300)]
with energy_units("1/cm"):
    cf = CorrelationFunction(ta, pl)
    ft_direct = FTCorrelationFunction(ta, pl)          # same parameters, same context
ft_cf = cf.get_FTCorrelationFunction()                 # transform of the function itself
num = cf.get_Fourier_transform()                       # plain numerical transform of cf.data
rel = lambda x, y: numpy.max(numpy.abs(x-y))/numpy.max(numpy.abs(y))
print("gamma stored by CorrelationFunction        :", cf.params[1]["gamma"], "(internal)")
print("gamma stored by direct FTCorrelationFunction:", ft_direct.params[1]["gamma"], "(raw 1/cm number)")
print("rel. deviation cf.get_FTCorrelationFunction() vs FT of cf.data :", rel(ft_cf.data, num.data))
print("rel. deviation FTCorrelationFunction(ta, params) vs FT of cf.data:", rel(ft_direct.data, num.data))
print("Property requires: consistent parameters / data = sum of the components' data for every "
      "units context used for construction.")
sys.exit(1 if rel(ft_direct.data, num.data) > 1e-6 else 0)
