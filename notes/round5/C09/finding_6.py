# C09 finding: in-place addition (and apply_to_data) leave stale interpolation splines,
# so the summed function evaluated with at() is still the old left operand
import warnings; warnings.filterwarnings("ignore")
import sys, numpy
import quantarhei as qr
from quantarhei import CorrelationFunction, SpectralDensity, TimeAxis, energy_units

ta = TimeAxis(0.0, 1000, 1.0)
with energy_units("1/cm"):
    a = CorrelationFunction(ta, dict(ftype="OverdampedBrownian", reorg=30.0, cortime=60.0, T=300))
    b = CorrelationFunction(ta, dict(ftype="OverdampedBrownian-HighTemperature", reorg=20.0, cortime=100.0, T=300))
x = 100.0
va = a.at(x, approx="spline")        # spline interpolation becomes the default of a
vb = b.at(x)
a += b
print("a.data[100] after a += b          :", a.data[100], " (= a+b, correct)")
print("a.at(100.0) after a += b          :", a.at(x))
print("required (old a + b at this point):", va + vb)
d = qr.DFunction(ta, numpy.cos(ta.data/50.0)); d.at(3.0, approx="spline")
d.apply_to_data(lambda y: 2.0*y)
print("DFunction.apply_to_data(2*y): at(3.0) =", d.at(3.0), " data[3] =", d.data[3])
bad = not numpy.isclose(a.at(x), va + vb, rtol=1e-6)
print("Property requires: the in-place sum has data equal to the sum of the components' data.")
sys.exit(1 if bad else 0)
