# C09 finding: a SpectralDensity built with values= stores the reorganisation energy
# without converting it from the units in force; sums with it carry a wrong lamb
import warnings; warnings.filterwarnings("ignore")
import sys, numpy
from quantarhei import SpectralDensity, CorrelationFunction, TimeAxis, energy_units

ta = TimeAxis(0.0, 1000, 1.0)
pa = dict(ftype="OverdampedBrownian", reorg=30.0, cortime=60.0, T=300)
pv = dict(ftype="Value-defined", reorg=20.0, T=300)

with energy_units("1/cm"):
    a = SpectralDensity(ta, pa)
    with energy_units("int"):
        vals = (2.0/3.0)*numpy.array(a.data)       # a legitimate shape with reorg 20 1/cm
    v = SpectralDensity(ta, [pv], values=vals)     # value-defined, right-hand operand
    s = a + v
    x = a.copy(); x += v
    la, lv, ls, lx = (a.get_reorganization_energy(), v.get_reorganization_energy(),
                      s.get_reorganization_energy(), x.get_reorganization_energy())
    # the same thing for correlation functions works:
    ca = CorrelationFunction(ta, pa)
    cv = CorrelationFunction(ta, pv, values=numpy.array(ca.data)*2.0/3.0)
    lcs = (ca + cv).get_reorganization_energy()
    with energy_units("int"):
        dataok = numpy.allclose(s.data, a.data + vals)

print("declared (1/cm): a = 30, v = 20, a+v should be 50")
print("observed (1/cm): a = %g, v = %g, (a+v) = %g, (a+=v) = %g" % (la, lv, ls, lx))
print("internal value stored for v: %r (the raw number 20 taken as rad/fs)" % v.lamb)
print("data of the sum equal to sum of data:", dataok)
print("CorrelationFunction counterpart (a+v) in 1/cm: %g (correct)" % lcs)
print("Property requires: reorganisation energy of the sum equals the sum of the components', "
      "in all unit contexts used for construction (value-defined as right-hand operand).")
ok = abs(ls - 50.0) < 1e-6 and abs(lx - 50.0) < 1e-6
sys.exit(0 if ok else 1)
