# C09 finding: is_analytical() - the public test for "analytically defined" - crashes for
# every CorrelationFunction / SpectralDensity, sums included
import warnings; warnings.filterwarnings("ignore")
import sys
from quantarhei import CorrelationFunction, SpectralDensity, TimeAxis, energy_units
ta = TimeAxis(0.0, 1000, 1.0)
p = dict(ftype="OverdampedBrownian", reorg=30.0, cortime=60.0, T=300)
with energy_units("1/cm"):
    cf = CorrelationFunction(ta, p); sd = SpectralDensity(ta, p)
bad = 0
for nm, o in (("CorrelationFunction", cf), ("SpectralDensity", sd), ("cf+cf", cf+cf), ("sd+sd", sd+sd)):
    try:
        print(nm, "is_analytical() ->", o.is_analytical())
    except Exception as e:
        print(nm, "is_analytical() raised", repr(e)); bad += 1
try:
    print("cf.get_correlation_time() ->", cf.get_correlation_time())
except Exception as e:
    print("cf.get_correlation_time() raised", repr(e)); bad += 1
try:
    print("cf.get_SpectralDensity().get_temperature() ->", cf.get_SpectralDensity().get_temperature())
except Exception as e:
    print("cf.get_SpectralDensity().get_temperature() raised", repr(e)); bad += 1
print("Required: True for OverdampedBrownian (listed in analytical_types), cortime 60.0, temperature 300.")
sys.exit(1 if bad else 0)
