# C09 finding: a CorrelationFunction / SpectralDensity with an analytic ftype whose data came
# through values= (what SpectralDensity.get_CorrelationFunction and
# CorrelationFunction.get_SpectralDensity return) is re-computed from the formula when it is the
# left operand of "+" (and by copy()), so (x + b).data != x.data + b.data, and "+" disagrees with "+="
import warnings; warnings.filterwarnings("ignore")
import sys, numpy
from quantarhei import CorrelationFunction, SpectralDensity, TimeAxis, energy_units
ta = TimeAxis(0.0, 2000, 1.0)
pa = dict(ftype="OverdampedBrownian", reorg=30.0, cortime=60.0, T=300)
pb = dict(ftype="OverdampedBrownian-HighTemperature", reorg=20.0, cortime=100.0, T=300)
rel = lambda x, y: numpy.max(numpy.abs(x-y))/numpy.max(numpy.abs(y))
with energy_units("1/cm"):
    sd = SpectralDensity(ta, pa)
    b = CorrelationFunction(ta, pb)
x = sd.get_CorrelationFunction(ta=ta)     # ftype OverdampedBrownian, data from the spectral density
print("x.params[0]['ftype'] =", x.params[0]["ftype"])
s = x + b
y = x.copy(); 
z = sd.get_CorrelationFunction(ta=ta); z += b
r1 = rel(s.data, x.data + b.data); r2 = rel(z.data, x.data + b.data); r3 = rel(y.data, x.data)
print("rel. deviation (x + b).data  from x.data + b.data :", r1)
print("rel. deviation (x += b).data from x.data + b.data :", r2)
print("rel. deviation x.copy().data from x.data          :", r3)
print("b + x (x as right-hand operand)                   :", rel((b + x).data, x.data + b.data))
print("Property requires: data of the sum = sum of the components' data for all groupings, "
      "'+' and in-place.")
sys.exit(1 if r1 > 1e-9 else 0)
