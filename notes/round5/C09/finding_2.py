# C09 finding: SpectralDensity.measure_reorganization_energy ignores the units context,
# get_reorganization_energy honours it -> recovered != declared inside energy_units(...)
import warnings; warnings.filterwarnings("ignore")
import sys, numpy
from quantarhei import SpectralDensity, CorrelationFunction, TimeAxis, energy_units

ta = TimeAxis(0.0, 2000, 1.0)
bad = 0
for ftype, extra in (("OverdampedBrownian", dict(cortime=60.0)),
                     ("UnderdampedBrownian", dict(freq=200.0, gamma=30.0))):
    p = dict(ftype=ftype, reorg=30.0, T=300, **extra)
    with energy_units("1/cm"):
        sd = SpectralDensity(ta, p)
        sd2 = sd + sd
        cf = CorrelationFunction(ta, p)
    for units in ("int", "1/cm", "eV"):
        with energy_units(units):
            d, m = sd.get_reorganization_energy(), sd.measure_reorganization_energy()
            d2, m2 = sd2.get_reorganization_energy(), sd2.measure_reorganization_energy()
            dc, mc = cf.get_reorganization_energy(), cf.measure_reorganization_energy()
        flag = "" if numpy.isclose(d, m, rtol=2e-2) and numpy.isclose(d2, m2, rtol=2e-2) else "   <-- MISMATCH"
        if flag: bad += 1
        print("%-20s %-5s SD declared %-12.6g measured %-12.6g | sum declared %-12.6g measured %-12.6g | CF declared %-10.6g measured %-10.6g%s"
              % (ftype, units, d, m, d2, m2, dc, mc, flag))
print("Property requires: reorganisation energy recovered from the data equals the declared one "
      "(within numerical accuracy) in every units context.")
print("Observed: SpectralDensity.measure_reorganization_energy always returns internal units.")
sys.exit(1 if bad else 0)
