"""C10 finding 3: convert_to_ground_vibbasis of the transition dipole moment
adds all Cartesian components into each other (missing component index)."""
import sys, warnings
warnings.filterwarnings("ignore")
import numpy as np
import quantarhei as qr

dvec = np.array([1.0, 2.0, 0.5])
with qr.energy_units("1/cm"):
    m = qr.Molecule([0.0, 12000.0])
    m.set_dipole((0, 1), dvec)
    md = qr.Mode(300.0)
    m.add_Mode(md)
    md.set_nmax(0, 12); md.set_nmax(1, 12); md.set_HR(1, 0.1)
    agg = qr.Aggregate([m])
agg.build()
D = agg.get_TransitionDipoleMoment()
Dg = agg.convert_to_ground_vibbasis(D)
# in the common (ground-state) vibrational basis the overlaps are delta_ij
# (FC matrix orthogonal up to truncation), so D[(g,i),(e,j),:] = d * delta_ij
blk = Dg._data[0:4, 12:16, :]
print("converted dipole, element (g,0)-(e,0):", np.real(blk[0, 0, :]))
print("required (electronic dipole)         :", dvec)
for a in range(3):
    print(" component", a, "diag:", np.real(np.diag(blk[:, :, a])))
ok = np.allclose(blk[0, 0, :], dvec, atol=1e-6)
if not ok:
    print("VIOLATION: component a of the converted dipole is the sum of the "
          "components a..z (x = dx+dy+dz, y = dy+dz); orthogonality of the "
          "overlap matrix requires d*delta_ij")
    sys.exit(1)
print("no violation")
