"""C10 finding 5: add_Mode_by_name / get_Mode_by_name of the aggregate call
Molecule methods that do not exist (add_mode/get_mode) and always raise."""
import sys, warnings
warnings.filterwarnings("ignore")
import quantarhei as qr

m = qr.Molecule([0.0, 1.0], name="A")
agg = qr.Aggregate([m])
bad = 0
try:
    agg.add_Mode_by_name("A", qr.Mode(0.1))
    print("add_Mode_by_name: ok, molecule has", m.get_number_of_modes(), "mode(s)")
except Exception as e:
    print("add_Mode_by_name('A', Mode) raises:", repr(e),
          "; number of modes of A:", m.get_number_of_modes(), "(required 1)")
    bad += 1
m.add_Mode(qr.Mode(0.1))
try:
    md = agg.get_Mode_by_name("A", 0)
    print("get_Mode_by_name: ok", md)
except Exception as e:
    print("get_Mode_by_name('A', 0) raises:", repr(e),
          "although molecule A has", m.get_number_of_modes(), "mode")
    bad += 1
if bad:
    print("VIOLATION: a mode cannot be declared/read through the aggregate")
    sys.exit(1)
print("no violation")
