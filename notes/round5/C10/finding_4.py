"""C10 finding 4: FC overlaps are taken from a shift operator built in a fixed
100-state basis, whatever the declared number of levels: silently wrong for
high levels, IndexError above 100."""
import sys, warnings
warnings.filterwarnings("ignore")
import numpy as np
from scipy.special import eval_genlaguerre, gammaln
import quantarhei as qr

def fc(n, m, d):
    """<n|D(d)|m>, exact displaced oscillator overlap (D=exp(d(a+-a)/sqrt2))"""
    b = d/np.sqrt(2.0)
    if n < m:
        return fc(m, n, -d)
    pref = np.exp(0.5*(gammaln(m+1)-gammaln(n+1)))
    return pref*b**(n-m)*np.exp(-b*b/2)*eval_genlaguerre(m, n-m, b*b)

def build(nmax, hr=1.0):
    with qr.energy_units("1/cm"):
        m = qr.Molecule([0.0, 12000.0])
        m.set_dipole((0, 1), [1.0, 0.0, 0.0])
        md = qr.Mode(300.0)
        m.add_Mode(md)
        md.set_nmax(0, nmax); md.set_nmax(1, nmax); md.set_HR(1, hr)
        agg = qr.Aggregate([m])
    agg.build()
    return agg, md.get_shift(1)

bad = 0
nmax = 98
agg, d = build(nmax)
Ng = nmax                       # ground state levels come first
ge = agg.FCf[0, Ng:]            # <g,0|e,n>
ex = np.array([fc(0, n, -d) for n in range(nmax)])
print("nmax=%d HR=1: max |<g0|e n> - exact| = %.3e (Poisson part is fine)"
      % (nmax, np.abs(ge-ex).max()))
EX = np.array([[fc(n, mq, -d) for mq in range(nmax)] for n in range(nmax)])
blk = agg.FCf[:Ng, Ng:]
err = np.abs(blk-EX)
n, mq = np.unravel_index(np.argmax(err), err.shape)
print("overlap <g,%d|e,%d>: aggregate FCf %.6f  exact %.6f  (|diff| %.3e)" %
      (n, mq, blk[n, mq], EX[n, mq], err[n, mq]))
first = [k for k in range(nmax) if err[:k+1, :k+1].max() > 1e-6][0]
print("first declared level count for which some overlap is off by >1e-6:",
      first+1)
a = n; b = Ng+mq
print("dipole element DD[%d,%d,0] = %.6f, required d*FC = %.6f" %
      (a, b, agg.DD[a, b, 0], EX[n, mq]))
print("required: displaced-oscillator overlaps for all declared levels")
if err.max() > 1e-6:
    bad += 1
try:
    build(101)
    print("nmax=101: built")
except Exception as e:
    print("nmax=101: build raises", type(e).__name__, e)
    bad += 1
if bad:
    print("VIOLATION")
    sys.exit(1)
print("no violation")
