"""C10 finding 2: remove_Molecule leaves the resonance coupling matrix (and the
name map) of the removed layout; remaining molecules get the wrong coupling."""
import sys, warnings
warnings.filterwarnings("ignore")
import numpy as np
import quantarhei as qr

def mol(e, hr, name):
    with qr.energy_units("1/cm"):
        m = qr.Molecule([0.0, e], name=name)
        m.set_dipole((0, 1), [1.0, 0.0, 0.0])
        md = qr.Mode(300.0)
        m.add_Mode(md)
        md.set_nmax(0, 2); md.set_nmax(1, 2); md.set_HR(1, hr)
    return m

A, B, C = mol(12000, 0.1, "A"), mol(12100, 0.2, "B"), mol(12200, 0.3, "C")
agg = qr.Aggregate([A, B, C])
with qr.energy_units("1/cm"):
    agg.set_resonance_coupling(0, 1, 100.0)   # A-B
    agg.set_resonance_coupling(0, 2, 50.0)    # A-C
    agg.set_resonance_coupling(1, 2, 10.0)    # B-C
agg.remove_Molecule(B)
agg.build()
a = agg.vibsigs.index(((1, 0), (0, 0)))
b = agg.vibsigs.index(((0, 1), (0, 0)))
fc = agg.FCf[a, b]
J_used = qr.convert(agg.HH[a, b]/fc, "int", "1/cm")
print("molecules left:", [m.name for m in agg.monomers],
      " coupling matrix shape:", agg.resonance_coupling.shape,
      " name map:", agg.mnames)
print("H element <A*,00|H|C*,00> / FC overlap = %.3f 1/cm" % J_used)
print("required: the A-C coupling that was set = 50.000 1/cm (observed value "
      "is the A-B coupling of the removed molecule)")
if abs(J_used - 50.0) > 1e-6:
    print("VIOLATION: Hamiltonian coupling != electronic coupling * FC overlaps")
    sys.exit(1)
print("no violation")
