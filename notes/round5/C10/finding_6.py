"""C10 finding 6: an aggregate (or molecule) built inside an eigenbasis_of
context hands out Hamiltonian / dipole operators whose elements are not
J*FC and d*FC (site-basis matrices are registered as eigenbasis matrices)."""
import sys, warnings
warnings.filterwarnings("ignore")
import numpy as np
import quantarhei as qr

def mkagg():
    ms = []
    with qr.energy_units("1/cm"):
        for e, hr in ((12000.0, 0.3), (12200.0, 0.5)):
            m = qr.Molecule([0.0, e])
            m.set_dipole((0, 1), [1.0, 0.0, 0.0])
            md = qr.Mode(300.0)
            m.add_Mode(md)
            md.set_nmax(0, 2); md.set_nmax(1, 2); md.set_HR(1, hr)
            ms.append(m)
        a = qr.Aggregate(ms)
        a.set_resonance_coupling(0, 1, 100.0)
    return a

ref = mkagg(); ref.build()
H = ref.get_Hamiltonian()

agg = mkagg()
with qr.eigenbasis_of(H):        # e.g. user works in the exciton basis of a
    agg.build()                  # first aggregate and builds a second one
    Hin = agg.get_Hamiltonian().data.copy()
Hout = agg.get_Hamiltonian().data
Dout = agg.get_TransitionDipoleMoment().data
a = agg.vibsigs.index(((1, 0), (0, 0))); b = agg.vibsigs.index(((0, 1), (0, 0)))
print("agg.HH[a,b] (J*FC)                :", agg.HH[a, b])
print("get_Hamiltonian().data[a,b] after :", Hout[a, b])
print("max|HamOp - HH| outside the context:", np.abs(Hout-agg.HH).max())
print("max|TrDM  - DD| outside the context:", np.abs(Dout-agg.DD).max())
print("inside the context HamOp.data equalled the site-basis matrix:",
      np.allclose(Hin, agg.HH))
print("required: operators of the aggregate equal HH/DD (= J*FC, d*FC) in the "
      "site basis and their transforms inside the context")
if np.abs(Hout-agg.HH).max() > 1e-8 or np.abs(Dout-agg.DD).max() > 1e-8:
    print("VIOLATION")
    sys.exit(1)
print("no violation")
