"""C10 finding 1: aggregate dipole elements of multi-level molecules always use
the 0->1 electronic dipole (AggregateBase.transition_dipole)."""
import sys, warnings
warnings.filterwarnings("ignore")
import numpy as np
import quantarhei as qr

d01 = np.array([1.0, 0.0, 0.0])
d12 = np.array([0.0, 2.0, 0.0])
d02 = np.array([0.0, 0.0, 3.0])
with qr.energy_units("1/cm"):
    m1 = qr.Molecule([0.0, 10000.0, 20500.0])
    m1.set_dipole((0, 1), d01)
    m1.set_dipole((1, 2), d12)
    m1.set_dipole((0, 2), d02)
    md = qr.Mode(300.0)
    m1.add_Mode(md)
    for k in range(3):
        md.set_nmax(k, 2)
    md.set_HR(1, 0.3)
    md.set_HR(2, 0.6)
    m2 = qr.Molecule([0.0, 10100.0])
    m2.set_dipole((0, 1), [1.0, 1.0, 0.0])
    agg = qr.Aggregate([m1, m2])
    agg.set_resonance_coupling(0, 1, 50.0)
agg.build(mult=2)

def idx(esig, vsig):
    return agg.vibsigs.index((esig, vsig))

bad = 0
for (e1, e2, dref, lab) in [((1, 0), (2, 0), d12, "1->2 on molecule 0"),
                            ((0, 0), (2, 0), d02, "0->2 on molecule 0")]:
    a = idx(e1, (0,)); b = idx(e2, (0,))
    fc = agg.FCf[a, b]
    print("transition", lab, " states", e1, "->", e2, " vib 0-0, FC overlap =", fc)
    print("   observed DD element :", agg.DD[a, b, :])
    print("   required (d_el * FC):", dref*fc)
    print("   (0->1 dipole * FC)  :", d01*fc)
    if not np.allclose(agg.DD[a, b, :], dref*fc, atol=1e-10):
        bad += 1
if bad:
    print("VIOLATION: dipole element between vibronic states is not the "
          "electronic dipole of that transition times the FC overlap")
    sys.exit(1)
print("no violation")
