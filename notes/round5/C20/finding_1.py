# -*- coding: utf-8 -*-
"""C20 finding 1

block_distributed_range() does not record the block it hands out
(config.range) when the work is not shared (serial run or nested region),
although its distributed branch does and although block_distributed_list /
block_distributed_array do so in both branches.  collect_block_distributed_data()
reads config.range, so after a loop over block_distributed_range it collects
the block of some EARLIER distributed loop (silently too few / wrong indices)
or crashes with AttributeError if there was none.

Run:  cd /tmp && PYTHONPATH=/tmp/w5_C20 /venv/bin/python /tmp/w5_C20/finding_1.py
"""
import sys
import warnings
warnings.simplefilter("ignore")
import numpy
import quantarhei as qr


def setter(cont, tag, data):
    cont[tag] = data


def retriever(cont, tag):
    return cont[tag]


fail = False
config = qr.Manager().get_DistributedConfiguration()
print("processes:", config.size, " parallel_level:", config.parallel_level)

qr.start_parallel_region()

#
# (a) first distributed loop of the program is a range loop
#
cont = dict()
coll = dict()
for k in qr.block_distributed_range(0, 6):
    cont[k] = numpy.array([10.0*k])
try:
    qr.collect_block_distributed_data([coll, cont], setter, retriever)
    print("(a) collected keys:", sorted(coll.keys()))
    if sorted(coll.keys()) != list(range(0, 6)):
        fail = True
except AttributeError as e:
    print("(a) range(0,6) then collect  -> AttributeError:", e)
    fail = True

#
# (b) an unrelated, shorter list was distributed earlier in the program
#
cont0 = dict()
coll0 = dict()
for k, a in qr.block_distributed_list(["x", "y", "z"], return_index=True):
    cont0[k] = numpy.array([float(k)])
qr.collect_block_distributed_data([coll0, cont0], setter, retriever)

for (start, stop) in ((0, 6), (2, 8)):
    # make the earlier loop the last one that recorded its block
    for k, a in qr.block_distributed_list(["x", "y", "z"], return_index=True):
        pass
    cont = dict()
    coll = dict()
    for k in qr.block_distributed_range(start, stop):
        cont[k] = numpy.array([10.0*k])
    err = None
    try:
        qr.collect_block_distributed_data([coll, cont], setter, retriever)
    except Exception as e:
        err = repr(e)

    print("(b) requested range        :", list(range(start, stop)))
    print("    indices computed       :", sorted(cont.keys()))
    print("    indices collected      :", sorted(coll.keys()), " error:", err)
    print("    config.range afterwards:", config.range,
          "(left over from the list of 3 items)")
    if sorted(coll.keys()) != list(range(start, stop)):
        fail = True

qr.close_parallel_region()

print()
print("PROPERTY: the blocks handed out (and what is gathered from them) cover")
print("exactly the requested range [start, stop), also for non-zero starts and")
print("in a serial run; required: collected indices == requested range")
if fail:
    print("VIOLATED")
    sys.exit(1)
print("ok")
sys.exit(0)
