# -*- coding: utf-8 -*-
"""C20 finding 2

A distributed loop nested inside another one is documented to be legal
("if parallel region is encountered again, no redistribution of the tasks is
done").  The non-distributing branch of block_distributed_list and
block_distributed_array nevertheless overwrites config.range, the record of
the block that belongs to the OUTER loop:

        rng = [0, len(dlist)]
        config.range = rng

collect_block_distributed_data() of the outer loop then gathers
range(0, len(inner)) instead of the outer block: entries are silently missing
(inner shorter than outer) or the call crashes (inner longer than outer).

Run:  cd /tmp && PYTHONPATH=/tmp/w5_C20 /venv/bin/python /tmp/w5_C20/finding_2.py
"""
import sys
import warnings
warnings.simplefilter("ignore")
import numpy
import quantarhei as qr


def setter(cont, tag, data):
    cont[tag] = data


def retriever(cont, tag):
    return cont[tag]


def weights_sum(weights):
    """Some library routine that itself uses a distributed loop"""
    s = 0.0
    qr.start_parallel_region()
    for w in qr.block_distributed_array(weights):
        s += w
    qr.close_parallel_region()
    return s


def calculation(outer, weights, nested):
    cont = dict()
    coll = dict()
    qr.start_parallel_region()
    for k, a in qr.block_distributed_list(outer, return_index=True):
        if nested:
            s = weights_sum(weights)
        else:
            s = numpy.sum(weights)
        cont[k] = numpy.array([a*s])
    err = None
    try:
        qr.collect_block_distributed_data([coll, cont], setter, retriever)
    except Exception as e:
        err = repr(e)
    qr.close_parallel_region()
    return coll, err


config = qr.Manager().get_DistributedConfiguration()
print("processes:", config.size, " parallel_level:", config.parallel_level)

outer = [1.0, 2.0, 3.0, 4.0, 5.0, 6.0]
fail = False
for weights in (numpy.array([0.5, 0.25]), numpy.ones(9)):
    ref, err0 = calculation(outer, weights, nested=False)
    res, err1 = calculation(outer, weights, nested=True)
    print("outer list of %d items, inner array of %d items"
          % (len(outer), len(weights)))
    print("   without nested helper : collected indices", sorted(ref.keys()),
          "error:", err0)
    print("   with nested helper    : collected indices", sorted(res.keys()),
          "error:", err1)
    print("   config.range after the outer loop:", config.range,
          " required:", [0, len(outer)])
    if sorted(res.keys()) != list(range(len(outer))) or err1 is not None:
        fail = True

print()
print("PROPERTY: the blocks of a distributed loop together cover exactly the")
print("requested range; a nested loop must not change what the outer one covers.")
if fail:
    print("VIOLATED")
    sys.exit(1)
print("ok")
sys.exit(0)
