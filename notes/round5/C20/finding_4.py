# -*- coding: utf-8 -*-
"""C20 finding 4   (needs more than one process; run here with a thread based
                    stand-in for mpi4py, no real MPI is required)

DistributedConfiguration.allreduce() writes the sum back with

        A[:,:] = B

which works only for arrays with two or more dimensions.  The natural use of
block_distributed_range - every process fills its block of a VECTOR of
per-index results, then the vector is sum-reduced - raises IndexError as soon
as the work is really shared, while the same program passes in a serial run
(allreduce returns early there) and while reduce() handles the same vector.

Run:  cd /tmp && PYTHONPATH=/tmp/w5_C20 /venv/bin/python /tmp/w5_C20/finding_4.py
"""
import sys
import types
import threading
import queue
import collections
import warnings
warnings.simplefilter("ignore")
import numpy

# --------------------------------------------------------------------------
#  minimal stand-in for mpi4py: every "process" is a thread
# --------------------------------------------------------------------------
tl = threading.local()


class FakeComm:

    def __init__(self, size):
        self.size = size
        self.barrier = threading.Barrier(size)
        self.boxes = collections.defaultdict(queue.Queue)
        self.slots = dict()

    def Get_rank(self):
        return tl.rank

    def Get_size(self):
        return self.size

    def Barrier(self):
        self.barrier.wait(timeout=30)

    def _sum(self, A):
        self.slots[tl.rank] = numpy.array(A, copy=True)
        self.barrier.wait(timeout=30)
        tot = sum(self.slots[r] for r in range(self.size))
        self.barrier.wait(timeout=30)
        return tot

    def Allreduce(self, A, B, op=None):
        B[...] = self._sum(A)

    def Reduce(self, A, B, op=None, root=0):
        tot = self._sum(A)
        if tl.rank == root:
            B[...] = tot

    def Send(self, data, dest, tag=0):
        self.boxes[(tl.rank, dest, tag)].put(numpy.array(data, copy=True))

    def Recv(self, buf, source, tag=0):
        msg = self.boxes[(source, tl.rank, tag)].get(timeout=10)
        if msg.nbytes > buf.nbytes:
            # what a real MPI library does in this situation
            raise Exception("MPI_ERR_TRUNCATE: message of %d bytes %s%s, "
                            "receive buffer of %d bytes %s%s"
                            % (msg.nbytes, msg.dtype, msg.shape,
                               buf.nbytes, buf.dtype, buf.shape))
        # MPI transfers raw bytes
        b = buf.reshape(-1).view(numpy.uint8)
        m = msg.reshape(-1).view(numpy.uint8)
        b[:m.size] = m


def install(size):
    comm = FakeComm(size)
    mpi4py = types.ModuleType("mpi4py")
    MPI = types.ModuleType("mpi4py.MPI")
    MPI.COMM_WORLD = comm
    MPI.SUM = "SUM"
    mpi4py.MPI = MPI
    sys.modules["mpi4py"] = mpi4py
    sys.modules["mpi4py.MPI"] = MPI
    return comm


import quantarhei as qr
from quantarhei.core.managers import Manager
from quantarhei.core.parallel import DistributedConfiguration

Manager.get_DistributedConfiguration = lambda self: tl.config


def run(size, target):
    comm = install(size)
    results = [None]*size

    def worker(rank):
        tl.rank = rank
        tl.config = DistributedConfiguration()   # sees the fake communicator
        try:
            results[rank] = target(rank)
        except BaseException as e:
            results[rank] = e
            import time
            time.sleep(1.0)   # let the others leave the collective call
            comm.barrier.abort()

    ths = [threading.Thread(target=worker, args=(r,)) for r in range(size)]
    for t in ths:
        t.start()
    for t in ths:
        t.join()
    return results


# --------------------------------------------------------------------------
#  the program
# --------------------------------------------------------------------------
def program(start, stop, ndim):
    def target(rank):
        dc = qr.Manager().get_DistributedConfiguration()
        n = stop - start
        shape = (n,) if ndim == 1 else (n, 1)
        v = numpy.zeros(shape)
        qr.start_parallel_region()
        for i in qr.block_distributed_range(start, stop):
            v[i-start] = float(i*i)
        red = dc.reduce(v)              # result on rank 0
        dc.allreduce(v)                 # result everywhere, in place
        qr.close_parallel_region()
        return v.reshape(-1), red.reshape(-1)
    return target


fail = False
start, stop = 3, 10
ref = numpy.array([float(i*i) for i in range(start, stop)])
for size in (1, 3):
    for ndim in (2, 1):
        if size == 1:
            tl.rank = 0
            install(1)
            tl.config = DistributedConfiguration()
            try:
                res = [program(start, stop, ndim)(0)]
            except BaseException as e:
                res = [e]
        else:
            res = run(size, program(start, stop, ndim))
        print("processes: %d, range(%d,%d), result array with %d dimension(s)"
              % (size, start, stop, ndim))
        for rank, r in enumerate(res):
            if isinstance(r, threading.BrokenBarrierError):
                print("   rank %d: aborted with the failing process" % rank)
                fail = True
            elif isinstance(r, BaseException):
                print("   rank %d: allreduce raised %r" % (rank, r))
                fail = True
            else:
                ok = numpy.allclose(r[0], ref)
                print("   rank %d: allreduce ->" % rank, r[0].tolist(),
                      "equal to serial" if ok else "DIFFERENT from serial")
                if not ok:
                    fail = True
print("serial result:", ref.tolist())
print()
print("PROPERTY: the blocks cover the requested range so that sum-reduced")
print("results equal the serial result, for all process counts.")
if fail:
    print("VIOLATED")
    sys.exit(1)
print("ok")
sys.exit(0)
