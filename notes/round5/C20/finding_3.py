# -*- coding: utf-8 -*-
"""C20 finding 3   (needs more than one process; run here with a thread based
                    stand-in for mpi4py, no real MPI is required)

When the distributed range is SHORTER THAN THE PROCESS COUNT the block of
rank 0 is empty (rank 0 never receives one of the `remainder` extra items in
_calculate_ranges).  collect_block_distributed_data() on rank 0 learns shape
and dtype of the data only from its own block:

        data_shape = (1,1)
        data_type = COMPLEX
        ...
        if ii == 0:
            data = retriever_function(containers[1], tag)
            data_shape = data.shape
            data_type = data.dtype
        else:
            data = numpy.zeros(data_shape, dtype=data_type)
            config.comm.Recv(data, source=ii, tag=a)

With an empty rank-0 block every remote item is received into a (1,1)
complex buffer: messages longer than 16 bytes abort (MPI_ERR_TRUNCATE),
messages of 16 bytes (e.g. two floats) are silently reinterpreted as one
complex number.  The same program with as many items as processes is correct.

Run:  cd /tmp && PYTHONPATH=/tmp/w5_C20 /venv/bin/python /tmp/w5_C20/finding_3.py
"""
import sys
import types
import threading
import queue
import collections
import warnings
warnings.simplefilter("ignore")
import numpy

# --------------------------------------------------------------------------
#  minimal stand-in for mpi4py: every "process" is a thread
# --------------------------------------------------------------------------
tl = threading.local()


class FakeComm:

    def __init__(self, size):
        self.size = size
        self.barrier = threading.Barrier(size)
        self.boxes = collections.defaultdict(queue.Queue)

    def Get_rank(self):
        return tl.rank

    def Get_size(self):
        return self.size

    def Barrier(self):
        self.barrier.wait(timeout=30)

    def Send(self, data, dest, tag=0):
        self.boxes[(tl.rank, dest, tag)].put(numpy.array(data, copy=True))

    def Recv(self, buf, source, tag=0):
        msg = self.boxes[(source, tl.rank, tag)].get(timeout=10)
        if msg.nbytes > buf.nbytes:
            # what a real MPI library does in this situation
            raise Exception("MPI_ERR_TRUNCATE: message of %d bytes %s%s, "
                            "receive buffer of %d bytes %s%s"
                            % (msg.nbytes, msg.dtype, msg.shape,
                               buf.nbytes, buf.dtype, buf.shape))
        # MPI transfers raw bytes
        b = buf.reshape(-1).view(numpy.uint8)
        m = msg.reshape(-1).view(numpy.uint8)
        b[:m.size] = m


def install(size):
    comm = FakeComm(size)
    mpi4py = types.ModuleType("mpi4py")
    MPI = types.ModuleType("mpi4py.MPI")
    MPI.COMM_WORLD = comm
    MPI.SUM = "SUM"
    mpi4py.MPI = MPI
    sys.modules["mpi4py"] = mpi4py
    sys.modules["mpi4py.MPI"] = MPI
    return comm


import quantarhei as qr
from quantarhei.core.managers import Manager
from quantarhei.core.parallel import DistributedConfiguration

Manager.get_DistributedConfiguration = lambda self: tl.config


def run(size, target):
    comm = install(size)
    results = [None]*size

    def worker(rank):
        tl.rank = rank
        tl.config = DistributedConfiguration()   # sees the fake communicator
        try:
            results[rank] = target(rank)
        except BaseException as e:
            results[rank] = e
            comm.barrier.abort()

    ths = [threading.Thread(target=worker, args=(r,)) for r in range(size)]
    for t in ths:
        t.start()
    for t in ths:
        t.join()
    return results


# --------------------------------------------------------------------------
#  the program: wizard example ex_300_ParallelIterators.py in a nutshell
# --------------------------------------------------------------------------
def setter(cont, tag, data):
    cont[tag] = data


def retriever(cont, tag):
    return cont[tag]


def program(nitems, dtype):
    def target(rank):
        lst = [float(i+1) for i in range(nitems)]
        cont = dict()
        coll = dict()
        qr.start_parallel_region()
        for k, a in qr.block_distributed_list(lst, return_index=True):
            b = numpy.zeros(2, dtype=dtype)
            b[0] = 2.0*a
            b[1] = 3.0*a + 1.0
            cont[k] = b
        qr.collect_block_distributed_data([coll, cont], setter, retriever)
        blocks = qr.Manager().get_DistributedConfiguration().ranges
        qr.close_parallel_region()
        return coll, blocks
    return target


def serial(nitems, dtype):
    return {k: numpy.array([2.0*(k+1), 3.0*(k+1)+1.0], dtype=dtype)
            for k in range(nitems)}


fail = False
size = 4
for nitems, dtype in ((4, float), (3, float), (3, complex), (1, float)):
    res = run(size, program(nitems, dtype))
    ref = serial(nitems, dtype)
    print("processes: %d, items: %d, data: 2 x %s" % (size, nitems,
                                                      dtype.__name__))
    r0 = res[0]
    if isinstance(r0, BaseException):
        print("   rank 0 raised:", r0)
        print("   required     :", {k: v.tolist() for k, v in ref.items()})
        fail = True
        continue
    coll, blocks = r0
    ok = (sorted(coll) == sorted(ref)
          and all(coll[k].shape == ref[k].shape
                  and coll[k].dtype == ref[k].dtype
                  and numpy.allclose(coll[k], ref[k]) for k in ref))
    print("   blocks               :", blocks)
    print("   collected on rank 0  :", {k: v.tolist() for k, v in coll.items()})
    print("   serial result        :", {k: v.tolist() for k, v in ref.items()})
    print("   ->", "equal" if ok else "DIFFERENT")
    if not ok:
        fail = True

print()
print("PROPERTY: also for ranges shorter than the process count the blocks")
print("cover the range so that the gathered result equals the serial result.")
if fail:
    print("VIOLATED")
    sys.exit(1)
print("ok")
sys.exit(0)
