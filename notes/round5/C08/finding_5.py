# C08 finding 5: mode="all" cannot be calculated without a relaxation tensor
# (pure Hamiltonian evolution, or Hamiltonian + pure dephasing), although
# `relt=None` is the default of the constructor and mode="jit" handles the
# same input.
#
# calculate():   elif self.relt.is_time_dependent:     <- relt is None
import sys
import warnings; warnings.filterwarnings("ignore")
import numpy as np
import quantarhei as qr
from quantarhei.qm import EvolutionSuperOperator

with qr.energy_units("1/cm"):
    H = qr.Hamiltonian(data=[[0.0, 0.0, 0.0],
                             [0.0, 10000.0, 150.0],
                             [0.0, 150.0, 10200.0]])
H.set_rwa([0, 1])
time = qr.TimeAxis(0.0, 9, 5.0)
Nd = 20
rho = qr.ReducedDensityMatrix(data=[[0.2, 0.1j, 0.05],
                                    [-0.1j, 0.5, 0.2+0.1j],
                                    [0.05, 0.2-0.1j, 0.3]])

# direct propagation with the Hamiltonian only works
prop = qr.ReducedDensityMatrixPropagator(time, H)
prop.setDtRefinement(Nd)
rhot = prop.propagate(rho)

# step by step works and agrees with the propagation
Uj = EvolutionSuperOperator(time, H, mode="jit")
Uj.set_dense_dt(Nd)
for k in range(1, time.length):
    Uj.calculate_next(save=True)
print("jit, relt=None: |U rho - propagated rho| = %.3e"
      % np.abs(Uj.apply(time, rho).data - rhot.data).max())

# all at once
Ua = EvolutionSuperOperator(time, H)
Ua.set_dense_dt(Nd)
try:
    Ua.calculate()
except Exception as e:
    print("all, relt=None: calculate() raised", repr(e))
    print("required: both calculation modes give the same superoperator "
          "for every time-independent generator")
    print("VIOLATION")
    sys.exit(1)
print("all, relt=None: |U_all - U_jit| = %.3e"
      % np.abs(Ua.data - Uj.data).max())
print("ok")
