# C08 finding 3: time axis with a non-zero start and a Hamiltonian with RWA.
#
# The propagator ties the rotating frame to absolute time: the initial state
# is rotated into the frame at the first point of the axis
# (ReducedDensityMatrixPropagator._initial_state_in_RWA) and
# convert_from_RWA() rotates back with exp(-i Omega t), t absolute.
# The evolution superoperator builds its elementary step on an auxiliary
# axis that always starts at 0.0 (`t0 = 0.0` in calculate()/calculate_next(),
# `one_step_time = TimeAxis(t0, 2, ...)`), so the rotation of the input at
# time.start is never included, while convert_from_RWA() of the
# superoperator multiplies the *output* indices with exp(-i Omega t_i) with
# the absolute t_i.  The result: the superoperator does not reproduce direct
# propagation on the same axis (neither in the rotating frame nor after the
# conversion) and after the conversion its first point is not the identity.
import sys
import warnings; warnings.filterwarnings("ignore")
import numpy as np
import quantarhei as qr
from quantarhei.qm import EvolutionSuperOperator, LindbladForm, Operator
from quantarhei.qm import SystemBathInteraction

with qr.energy_units("1/cm"):
    H = qr.Hamiltonian(data=[[0.0, 0.0, 0.0],
                             [0.0, 10000.0, 150.0],
                             [0.0, 150.0, 10200.0]])
H.set_rwa([0, 1])
K1 = Operator(dim=3, real=True); K1.data[1, 2] = 1.0
sbi = SystemBathInteraction([K1], rates=(1.0/100.0,))
L = LindbladForm(H, sbi, as_operators=False)

rho = qr.ReducedDensityMatrix(data=[[0.2, 0.1j, 0.05],
                                    [-0.1j, 0.5, 0.2+0.1j],
                                    [0.05, 0.2-0.1j, 0.3]])
Nd = 20
one = np.einsum("ik,jl->ijkl", np.eye(3), np.eye(3))

bad = False
for start in (0.0, 10.0):
    time = qr.TimeAxis(start, 9, 5.0)

    U = EvolutionSuperOperator(time, H, L)
    U.set_dense_dt(Nd)
    U.calculate()

    prop = qr.ReducedDensityMatrixPropagator(time, H, RTensor=L)
    prop.setDtRefinement(Nd)
    rhot = prop.propagate(rho)

    d_rwa = np.abs(U.apply(time, rho).data - rhot.data).max()

    U.convert_from_RWA()
    rhot.convert_from_RWA(H)
    d_lab = np.abs(U.apply(time, rho).data - rhot.data).max()
    d_id = np.abs(U.data[0] - one).max()
    print("start = %5.1f fs: |U rho - rho(t)| in rotating frame %.3e, "
          "in lab frame %.3e, |U[first point] - 1| = %.3e"
          % (start, d_rwa, d_lab, d_id))
    if max(d_rwa, d_lab, d_id) > 1.0e-8:
        bad = True

print("required: identity at the first point and agreement with direct "
      "propagation (~1e-14) for every time grid")
if bad:
    print("VIOLATION")
    sys.exit(1)
print("ok")
