# C08 finding 6: apply() with several times.
#
#  (a) apply("all", rho) - the documented way of applying the superoperator
#      at all its points - raises: the loop reads `time.data` of the string.
#  (b) apply([t0, t1, t2, ...], rho) with a list which is not equidistant
#      silently replaces the list by TimeAxis(t[0], len(t), t[1]-t[0]) and
#      returns the states at other times than requested.
import sys
import warnings; warnings.filterwarnings("ignore")
import numpy as np
import quantarhei as qr
from quantarhei.qm import EvolutionSuperOperator, LindbladForm, Operator
from quantarhei.qm import SystemBathInteraction

with qr.energy_units("1/cm"):
    H = qr.Hamiltonian(data=[[0.0, 0.0, 0.0],
                             [0.0, 10000.0, 150.0],
                             [0.0, 150.0, 10200.0]])
H.set_rwa([0, 1])
K1 = Operator(dim=3, real=True); K1.data[1, 2] = 1.0
sbi = SystemBathInteraction([K1], rates=(1.0/100.0,))
L = LindbladForm(H, sbi, as_operators=False)
time = qr.TimeAxis(0.0, 9, 5.0)
Nd = 20
rho = qr.ReducedDensityMatrix(data=[[0.2, 0.1j, 0.05],
                                    [-0.1j, 0.5, 0.2+0.1j],
                                    [0.05, 0.2-0.1j, 0.3]])
U = EvolutionSuperOperator(time, H, L)
U.set_dense_dt(Nd)
U.calculate()

prop = qr.ReducedDensityMatrixPropagator(time, H, RTensor=L)
prop.setDtRefinement(Nd)
rhot = prop.propagate(rho)

bad = False

# (a)
try:
    r_all = U.apply("all", rho)
    print('(a) apply("all"): |U rho - propagated| = %.3e'
          % np.abs(r_all.data - rhot.data).max())
except Exception as e:
    print('(a) apply("all", rho) raised', repr(e))
    bad = True

# (b)
times = [0.0, 5.0, 20.0]
res = U.apply(times, rho)
print("(b) requested times", times, " times of the result",
      list(res.TimeAxis.data))
d_req = np.abs(res.data[2] - rhot.data[4]).max()    # t = 20 fs is index 4
d_10 = np.abs(res.data[2] - rhot.data[2]).max()     # t = 10 fs is index 2
print("    third state vs. propagated rho(20 fs): %.3e ; vs. rho(10 fs): %.3e"
      % (d_req, d_10))
if d_req > 1.0e-8:
    bad = True

print("required: applied to a state the superoperator reproduces the "
      "propagated state at the requested times")
if bad:
    print("VIOLATION")
    sys.exit(1)
print("ok")
