# C08 finding 2: in mode="jit" the flag `is_in_rwa` is never set.
#
# calculate() ends with `if self.ham.has_rwa: self.is_in_rwa = True`;
# calculate_next() has no such statement.  For a Hamiltonian with RWA the data
# produced by both modes are in the rotating frame, but only the "all" object
# knows it: convert_from_RWA() silently does nothing on the jit object, so the
# same sequence of public calls gives different superoperators in the two
# modes and the jit one does not reproduce the propagated (lab frame) state.
import sys
import warnings; warnings.filterwarnings("ignore")
import numpy as np
import quantarhei as qr
from quantarhei.qm import EvolutionSuperOperator, LindbladForm, Operator
from quantarhei.qm import SystemBathInteraction

with qr.energy_units("1/cm"):
    H = qr.Hamiltonian(data=[[0.0, 0.0, 0.0],
                             [0.0, 10000.0, 150.0],
                             [0.0, 150.0, 10200.0]])
H.set_rwa([0, 1])
K1 = Operator(dim=3, real=True); K1.data[1, 2] = 1.0
sbi = SystemBathInteraction([K1], rates=(1.0/100.0,))
L = LindbladForm(H, sbi, as_operators=False)

time = qr.TimeAxis(0.0, 9, 5.0)
Nd = 20

Ua = EvolutionSuperOperator(time, H, L)
Ua.set_dense_dt(Nd)
Ua.calculate()

Uj = EvolutionSuperOperator(time, H, L, mode="jit")
Uj.set_dense_dt(Nd)
for k in range(1, time.length):
    Uj.calculate_next(save=True)

print("before conversion: max |U_jit - U_all| = %.3e"
      % np.abs(Uj.data - Ua.data).max())
print("is_in_rwa: all =", Ua.is_in_rwa, " jit =", Uj.is_in_rwa)

Ua.convert_from_RWA()
Uj.convert_from_RWA()
dev = np.abs(Uj.data - Ua.data).max()
print("after convert_from_RWA(): max |U_jit - U_all| = %.3e" % dev)

# direct propagation, converted to the lab frame
rho = qr.ReducedDensityMatrix(data=[[0.2, 0.1j, 0.05],
                                    [-0.1j, 0.5, 0.2+0.1j],
                                    [0.05, 0.2-0.1j, 0.3]])
prop = qr.ReducedDensityMatrixPropagator(time, H, RTensor=L)
prop.setDtRefinement(Nd)
rhot = prop.propagate(rho)
rhot.convert_from_RWA(H)
d_all = np.abs(Ua.apply(time, rho).data - rhot.data).max()
d_jit = np.abs(Uj.apply(time, rho).data - rhot.data).max()
print("vs. direct propagation (lab frame): all %.3e, jit %.3e" % (d_all, d_jit))

print("required: both modes give the same values and reproduce propagation")
if dev > 1.0e-8 or d_jit > 1.0e-8:
    print("VIOLATION")
    sys.exit(1)
print("ok")
