# C08 finding 4: relaxation given by operators (the default of LindbladForm)
# + complex Hermitian Hamiltonian + calculation inside `eigenbasis_of(H)`.
#
# The operators Km, Lm, Ld of the form are stored as REAL arrays and
# RedfieldRelaxationTensor.transform() assigns the transformed (complex)
# matrices into them in place, the imaginary parts are dropped (numpy only
# warns).  The propagator (rdmpropagator.py,
# __propagate_short_exp_with_rel_operators) in addition builds
#     Kd = numpy.zeros(Km.shape, dtype=numpy.float64)
#     Kd[m,:,:] = numpy.transpose(Km[m,:,:])
# i.e. a real, un-conjugated transpose instead of the Hermitian conjugate.
# Consequences: the superoperator calculated inside the context differs from
# the one calculated outside, it does not reproduce direct propagation, and
# the shared relaxation object stays corrupted after the context, so that the
# same calculate() call made again gives different values.
import sys
import warnings; warnings.filterwarnings("ignore")
import numpy as np
import quantarhei as qr
from quantarhei.qm import EvolutionSuperOperator, LindbladForm, Operator
from quantarhei.qm import SystemBathInteraction


def system(as_operators):
    h = np.array([[0.0, 0.0, 0.0],
                  [0.0, 10000.0, 0.0],
                  [0.0, 0.0, 10200.0]], dtype=complex)
    h[1, 2] = 150.0*np.exp(0.7j)
    h[2, 1] = np.conj(h[1, 2])
    with qr.energy_units("1/cm"):
        H = qr.Hamiltonian(data=h)
    H.set_rwa([0, 1])
    K1 = Operator(dim=3, real=True); K1.data[1, 2] = 1.0
    K2 = Operator(dim=3, real=True); K2.data[2, 1] = 1.0
    sbi = SystemBathInteraction([K1, K2], rates=(1.0/100.0, 1.0/300.0))
    return H, LindbladForm(H, sbi, as_operators=as_operators)


time = qr.TimeAxis(0.0, 9, 5.0)
Nd = 20
rho = qr.ReducedDensityMatrix(data=[[0.2, 0.1j, 0.05],
                                    [-0.1j, 0.5, 0.2+0.1j],
                                    [0.05, 0.2-0.1j, 0.3]])
bad = False
for as_operators in (False, True):
    H, L = system(as_operators)

    U0 = EvolutionSuperOperator(time, H, L)
    U0.set_dense_dt(Nd)
    U0.calculate()                       # outside of any context

    U1 = EvolutionSuperOperator(time, H, L)
    U1.set_dense_dt(Nd)
    with qr.eigenbasis_of(H):
        U1.calculate()                   # same call inside the context

    U2 = EvolutionSuperOperator(time, H, L)
    U2.set_dense_dt(Nd)
    U2.calculate()                       # same call again, outside

    prop = qr.ReducedDensityMatrixPropagator(time, H, RTensor=L)
    prop.setDtRefinement(Nd)
    rhot = prop.propagate(rho)

    d1 = np.abs(U1.data - U0.data).max()
    d2 = np.abs(U2.data - U0.data).max()
    d3 = np.abs(U0.apply(time, rho).data - rhot.data).max()
    print("as_operators=%-5s  |U(in context) - U(outside)| = %.3e   "
          "|U(outside, 2nd time) - U(outside, 1st time)| = %.3e   "
          "|U(1st) rho - propagated rho| = %.3e" % (as_operators, d1, d2, d3))
    if max(d1, d2, d3) > 1.0e-8:
        bad = True

print("required: the same values (~1e-14) in all cases")
if bad:
    print("VIOLATION")
    sys.exit(1)
print("ok")
