# C08 finding 1: incremental (jit) calculation mixes bases when some of the
# calculate_next() calls are made inside an eigenbasis_of context.
#
# The one-interval propagator `self.Udt` is a plain numpy attribute computed
# in the basis that was current in the first step, while `self.data` is basis
# managed and follows the context.  The product Udt . data then multiplies
# tensors given in two different bases.
import sys
import warnings; warnings.filterwarnings("ignore")
import numpy as np
import quantarhei as qr
from quantarhei.qm import EvolutionSuperOperator, LindbladForm, Operator
from quantarhei.qm import SystemBathInteraction

with qr.energy_units("1/cm"):
    H = qr.Hamiltonian(data=[[0.0, 0.0, 0.0],
                             [0.0, 10000.0, 150.0],
                             [0.0, 150.0, 10200.0]])
H.set_rwa([0, 1])
K1 = Operator(dim=3, real=True); K1.data[1, 2] = 1.0
K2 = Operator(dim=3, real=True); K2.data[2, 1] = 1.0
sbi = SystemBathInteraction([K1, K2], rates=(1.0/100.0, 1.0/300.0))
L = LindbladForm(H, sbi, as_operators=False)

time = qr.TimeAxis(0.0, 9, 5.0)

# all at once (reference)
Ua = EvolutionSuperOperator(time, H, L)
Ua.set_dense_dt(20)
Ua.calculate()

# step by step, every second step is done inside `with eigenbasis_of(H)`
Uj = EvolutionSuperOperator(time, H, L, mode="jit")
Uj.set_dense_dt(20)
worst = 0.0
for k in range(1, time.length):
    if k % 2 == 0:
        with qr.eigenbasis_of(H):
            Uj.calculate_next()
    else:
        Uj.calculate_next()
    # we are outside of any context here: both are in the site basis
    dev = np.abs(Uj.data - Ua.data[k]).max()
    print("step %d: max |U_jit - U_all| = %.3e" % (k, dev))
    worst = max(worst, dev)

# semigroup on the jit result itself (saved version)
Us = EvolutionSuperOperator(time, H, L, mode="jit")
Us.set_dense_dt(20)
for k in range(1, time.length):
    if k % 2 == 0:
        with qr.eigenbasis_of(H):
            Us.calculate_next(save=True)
    else:
        Us.calculate_next(save=True)
N = time.length
semi = max(np.abs(Us.data[i+j] - np.tensordot(Us.data[i], Us.data[j])).max()
           for i in range(N) for j in range(N-i))
print("jit (saved): max_ij |U(t_i+t_j) - U(t_i)U(t_j)| = %.3e" % semi)

print("required: step-by-step values equal the all-at-once values "
      "(deviation ~1e-14) and U(t_i+t_j) = U(t_i)U(t_j)")
if worst > 1.0e-8 or semi > 1.0e-8:
    print("VIOLATION: max deviation %.3e" % worst)
    sys.exit(1)
print("ok")
