# C14 finding 6: the stored initial condition (condition_type=None) forgets its basis
import warnings; warnings.filterwarnings("ignore")
import sys
import numpy as np
import quantarhei as qr

np.set_printoptions(precision=5, suppress=True, linewidth=150)
with qr.energy_units("1/cm"):
    m1 = qr.Molecule([0.0, 12000.0]); m2 = qr.Molecule([0.0, 12300.0])
    agg = qr.Aggregate([m1, m2]); agg.set_resonance_coupling(0, 1, 100.0)
agg.build()
H = agg.get_Hamiltonian()

with qr.eigenbasis_of(H):
    r = agg.get_DensityMatrix("thermal_excited_state", temperature=300.0)
r_again = agg.get_DensityMatrix()          # "rho0, which was calculated in the past"

a = r.data.real.copy(); b = r_again.data.real.copy()
print("state requested inside eigenbasis_of(H), read outside (site basis):\n", a)
print("the same stored state handed out again by get_DensityMatrix():\n", b)

# and the other way round
r = agg.get_DensityMatrix("thermal_excited_state", temperature=300.0)
with qr.eigenbasis_of(H):
    r_in = agg.get_DensityMatrix()
c = r.data.real.copy(); d = r_in.data.real.copy()
print("requested outside:\n", c)
print("stored state handed out inside the context, read outside:\n", d)
print("required: the same physical state in all four cases")
if not (np.allclose(a, b, atol=1e-8) and np.allclose(c, d, atol=1e-8)):
    print("VIOLATION: stored matrix is re-labelled with whatever basis is current")
    sys.exit(1)
print("ok")
