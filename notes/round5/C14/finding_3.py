# C14 finding 3: strong-coupling thermal excited state of an aggregate without a bath crashes
import warnings; warnings.filterwarnings("ignore")
import sys, traceback
import numpy as np
import quantarhei as qr

with qr.energy_units("1/cm"):
    m1 = qr.Molecule([0.0, 12000.0]); m2 = qr.Molecule([0.0, 12300.0])
    agg = qr.Aggregate([m1, m2]); agg.set_resonance_coupling(0, 1, 100.0)
agg.build()

print("weak coupling works:",
      np.diag(agg.get_DensityMatrix("thermal_excited_state", temperature=300.0).data).real)
try:
    r = agg.get_DensityMatrix("thermal_excited_state",
                              relaxation_theory_limit="strong_coupling",
                              temperature=300.0)
    print("strong coupling:", np.diag(r.data).real)
except Exception as e:
    traceback.print_exc(limit=2)
    print("observed: crash", repr(e))
    print("required: site-basis Boltzmann state (no bath -> zero reorganisation energies):"
          " p2/p1 = exp(-300 cm-1/kT) = 0.2372")
    sys.exit(1)
print("ok")
