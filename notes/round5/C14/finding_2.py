# C14 finding 2: condition_type="thermal" (default weak_coupling) depends on the basis context
import warnings; warnings.filterwarnings("ignore")
import sys
import numpy as np
import quantarhei as qr
from quantarhei.core.units import kB_intK

np.set_printoptions(precision=5, suppress=True, linewidth=150)

with qr.energy_units("1/cm"):
    m1 = qr.Molecule([0.0, 100.0]); m2 = qr.Molecule([0.0, 150.0])
    agg = qr.Aggregate([m1, m2]); agg.set_resonance_coupling(0, 1, 80.0)
agg.build()
H = agg.get_Hamiltonian()
T = 300.0

r_out = agg.get_DensityMatrix("thermal", temperature=T)      # weak_coupling is the default
with qr.eigenbasis_of(H):
    r_in = agg.get_DensityMatrix("thermal", temperature=T)

a = r_out.data.real.copy(); b = r_in.data.real.copy()        # both read in the site basis
print("requested outside any context (site basis):\n", a)
print("requested inside eigenbasis_of(H), read in the site basis:\n", b)
print("max difference:", np.abs(a-b).max())

with qr.eigenbasis_of(H):
    e = np.diag(H.data).real
    p_out = np.diag(r_out.data).real
    p_in = np.diag(r_in.data).real
boltz = np.exp(-(e-e[0])/(kB_intK*T)); boltz /= boltz.sum()
print("exciton-basis populations, outside request:", p_out)
print("exciton-basis populations, inside request :", p_in)
print("Boltzmann in exciton basis (weak coupling):", boltz)
print("required: weak-coupling equilibrium is excitonic; the same physical state"
      " inside and outside the context")
if not np.allclose(a, b, atol=1e-8):
    print("VIOLATION: 'thermal' state differs between inside and outside of a basis context")
    sys.exit(1)
print("ok")
