# C14 finding 1: zero-temperature thermal state with a degenerate lowest level
import warnings; warnings.filterwarnings("ignore")
import sys
import numpy as np
import quantarhei as qr

np.set_printoptions(precision=5, suppress=True, linewidth=150)
bad = False

# (a) weak coupling: symmetric trimer ring, J>0 -> lowest exciton level doubly degenerate
with qr.energy_units("1/cm"):
    ms = [qr.Molecule([0.0, 12000.0]) for i in range(3)]
    agg = qr.Aggregate(ms)
    for i in range(3):
        for j in range(i+1, 3):
            agg.set_resonance_coupling(i, j, 100.0)
agg.build()

r0 = agg.get_DensityMatrix("thermal_excited_state", temperature=0.0).data.real.copy()
r1 = agg.get_DensityMatrix("thermal_excited_state", temperature=1.0e-3).data.real.copy()
print("(a) ring trimer, weak coupling, site populations")
print("    T = 0     :", np.diag(r0)[1:])
print("    T = 1e-3 K:", np.diag(r1)[1:])
print("    required : equal populations of the two degenerate excitons "
      "(ratio exp(0)=1) -> site populations 1/3 each, as for T->0+")
print("    purity Tr(rho^2): T=0 ->", np.trace(r0@r0), "  T=1e-3 ->", np.trace(r1@r1))
if not np.allclose(r0, r1, atol=1e-6):
    bad = True

# (b) strong coupling: homodimer with identical baths -> degenerate site energies
ta = qr.TimeAxis(0.0, 1000, 1.0)
with qr.energy_units("1/cm"):
    m1 = qr.Molecule([0.0, 12000.0]); m2 = qr.Molecule([0.0, 12000.0])
    for m in (m1, m2):
        cf = qr.CorrelationFunction(ta, dict(ftype="OverdampedBrownian",
                                    reorg=30.0, cortime=100.0, T=300))
        m.set_transition_environment((0,1), cf)
    dim = qr.Aggregate([m1, m2]); dim.set_resonance_coupling(0, 1, 100.0)
dim.build()
for T in (0.0, 1.0e-6, 1.0):
    r = dim.get_DensityMatrix("thermal_excited_state",
                              relaxation_theory_limit="strong_coupling",
                              temperature=T)
    p = np.diag(r.data).real
    print("(b) homodimer, strong coupling, T =", T, " populations", p)
    if T == 0.0 and not np.isclose(p[1], p[2]):
        bad = True
print("    required : p1/p2 = exp(-(E1-E2)/kT) = 1 for E1 == E2 at every T, incl. T = 0")

if bad:
    print("VIOLATION: at T=0 a single (arbitrary) state of the degenerate lowest"
          " level is populated")
    sys.exit(1)
print("ok")
