# C14 finding 4: aggregate with a Lindblad-form bath cannot hand out its thermal state
import warnings; warnings.filterwarnings("ignore")
import sys, traceback
import numpy as np
import quantarhei as qr
from quantarhei.qm import ProjectionOperator, SystemBathInteraction

with qr.energy_units("1/cm"):
    m1 = qr.Molecule([0.0, 12000.0]); m2 = qr.Molecule([0.0, 12300.0])
    m1.set_dipole(0,1,[1.0,0.0,0.0]); m2.set_dipole(0,1,[0.0,1.0,0.0])
    agg = qr.Aggregate([m1, m2]); agg.set_resonance_coupling(0, 1, 100.0)
agg.build()
K = ProjectionOperator(1, 2, dim=3)
agg.set_SystemBathInteraction(SystemBathInteraction([K], rates=(1.0/100.0,)))

print("get_DensityMatrix('thermal') works (T taken as 0):",
      np.diag(agg.get_DensityMatrix("thermal").data).real)
fail = False
for name in ("get_thermal_ReducedDensityMatrix", "get_excited_density_matrix"):
    try:
        r = getattr(agg, name)()
        print(name, "->", np.diag(r.data).real)
    except Exception as e:
        print(name, "crashes:", repr(e))
        fail = True
if fail:
    print("required: a valid (zero temperature) thermal state, as get_DensityMatrix gives")
    sys.exit(1)
print("ok")
