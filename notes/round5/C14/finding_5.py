# C14 finding 5: Molecule.get_temperature looks only at the own function of transition (0,1)
import warnings; warnings.filterwarnings("ignore")
import sys
import numpy as np
import quantarhei as qr
from quantarhei.qm.corfunctions import CorrelationFunctionMatrix

np.set_printoptions(precision=5, suppress=True)
ta = qr.TimeAxis(0.0, 1000, 1.0)
par = dict(ftype="OverdampedBrownian", reorg=30.0, cortime=100.0, T=300)
kT = 0.69503476*300.0
bad = False

# (a) environment only on the transition (0,2)
with qr.energy_units("1/cm"):
    cf = qr.CorrelationFunction(ta, par)
    m = qr.Molecule([0.0, 200.0, 300.0])
m.set_transition_environment((0,2), cf)
p = np.diag(m.get_thermal_ReducedDensityMatrix().data).real
ex = np.exp(-np.array([0.0,200.0,300.0])/kT); ex /= ex.sum()
print("(a) bath (300 K) on transition (0,2): get_temperature() =", m.get_temperature())
print("    populations:", p, " required (300 K):", ex)
bad = bad or not np.allclose(p, ex, atol=1e-6)

# (b) molecule mapped on a CorrelationFunctionMatrix (transition (0,1))
with qr.energy_units("1/cm"):
    cf1 = qr.CorrelationFunction(ta, par)
    m1 = qr.Molecule([0.0, 200.0])
cm = CorrelationFunctionMatrix(ta, 1)
cm.set_correlation_function(cf1, [(0,0)])
m1.set_egcf_mapping((0,1), cm, 0)
p = np.diag(m1.get_thermal_ReducedDensityMatrix().data).real
ex = np.exp(-np.array([0.0,200.0])/kT); ex /= ex.sum()
print("(b) molecule mapped on a matrix at 300 K: get_temperature() =", m1.get_temperature())
print("    populations:", p, " required (300 K):", ex)
bad = bad or not np.allclose(p, ex, atol=1e-6)

# reference: the same bath set directly on (0,1)
with qr.energy_units("1/cm"):
    cf2 = qr.CorrelationFunction(ta, par)
    m2 = qr.Molecule([0.0, 200.0])
m2.set_transition_environment((0,1), cf2)
print("(ref) bath on (0,1):", m2.get_temperature(),
      np.diag(m2.get_thermal_ReducedDensityMatrix().data).real)

if bad:
    print("VIOLATION: thermal state is the 0 K state although the environment is at 300 K")
    sys.exit(1)
print("ok")
