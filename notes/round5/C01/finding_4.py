# C01 finding 4: time-dependent Redfield tensor does not commute with Hermitian conjugation
#                when a system operator K_m is not symmetric (the time-independent tensor does)
import sys
import numpy as np
import quantarhei as qr
from quantarhei.qm import (RedfieldRelaxationTensor, TDRedfieldRelaxationTensor, SystemBathInteraction,
                           Operator)
from quantarhei.qm.corfunctions import CorrelationFunctionMatrix

# ---- helpers -------------------------------------------------
# helper shared by the finding scripts (kept tiny; each script is otherwise stand-alone)
import warnings; warnings.filterwarnings("ignore")
import numpy as np
import quantarhei as qr

def trimer(Nt=300, J=((0,60.0,10.0),(60.0,0,40.0),(10.0,40.0,0)), en=(12000.0,12100.0,12250.0)):
    ta = qr.TimeAxis(0.0, Nt, 1.0)
    mols = []
    with qr.energy_units("1/cm"):
        for i in range(3):
            m = qr.Molecule([0.0, en[i]])
            cf = qr.CorrelationFunction(ta, dict(ftype="OverdampedBrownian", reorg=20.0+5*i,
                                                 cortime=100.0+10*i, T=300, matsubara=20))
            m.set_transition_environment((0,1), cf)
            mols.append(m)
        agg = qr.Aggregate(mols)
        for i in range(3):
            for j in range(i+1,3):
                agg.set_resonance_coupling(i,j,J[i][j])
    agg.build()
    return agg, ta

def identities(d):
    """relative violation of sum_a R[a,a,c,d]=0 and conj(R[a,b,c,d])=R[b,a,d,c]"""
    if d.ndim == 4: d = d[None]
    s = np.max(np.abs(d))
    tr = np.max(np.abs(np.einsum("taacd->tcd", d)))/s
    he = np.max(np.abs(np.conj(d) - np.transpose(d,(0,2,1,4,3))))/s
    return tr, he
# ---------------------------------------------------------------

ta = qr.TimeAxis(0.0, 300, 1.0)
with qr.energy_units("1/cm"):
    ham = qr.Hamiltonian(data=[[0.0,0,0],[0,12000.,80.],[0,80.,12200.]])
    cf = qr.CorrelationFunction(ta, dict(ftype="OverdampedBrownian", reorg=20.0, cortime=100.0, T=300, matsubara=20))
cfm = CorrelationFunctionMatrix(ta, 2, 1)
cfm.set_correlation_function(cf, [(0,0),(1,1)], 1)
K1 = Operator(data=np.array([[0.,0,0],[0,1.,0.5],[0,0.0,0]]))   # real, not symmetric
K2 = Operator(data=np.array([[0.,0,0],[0,0.,0.0],[0,0.3,1.]]))
sbi = SystemBathInteraction([K1,K2], cfm)
R = RedfieldRelaxationTensor(ham, sbi)
T = TDRedfieldRelaxationTensor(ham, sbi)
rt, rh = identities(R.data); tt, th = identities(T.data)
print("time-independent Redfield : trace viol %.1e  Hermiticity viol %.1e" % (rt, rh))
print("OBSERVED time-dependent   : trace viol %.1e  Hermiticity viol %.1e (relative to largest element)" % (tt, th))
rho = np.array([[0,0,0],[0,0.6,0.2+0.1j],[0,0.2-0.1j,0.4]])
out = np.tensordot(T.data[-1], rho)
print("   R(t_last) applied to a Hermitian rho: max|out - out^+| = %.3e" % np.max(np.abs(out-out.conj().T)))
print("   max|R_TD(t_last) - R_TI| = %.3e" % np.max(np.abs(T.data[-1]-R.data)))
print("REQUIRED: conj(R[a,b,c,d]) = R[b,a,d,c] at every time index for every system-bath interaction")
sys.exit(1 if th > 1e-10 else 0)
