# C01 finding 5: a second secularize(legacy=False), made in another basis, silently does nothing
import sys
import numpy as np
import quantarhei as qr
from quantarhei.qm import RedfieldRelaxationTensor

# ---- helpers -------------------------------------------------
# helper shared by the finding scripts (kept tiny; each script is otherwise stand-alone)
import warnings; warnings.filterwarnings("ignore")
import numpy as np
import quantarhei as qr

def trimer(Nt=300, J=((0,60.0,10.0),(60.0,0,40.0),(10.0,40.0,0)), en=(12000.0,12100.0,12250.0)):
    ta = qr.TimeAxis(0.0, Nt, 1.0)
    mols = []
    with qr.energy_units("1/cm"):
        for i in range(3):
            m = qr.Molecule([0.0, en[i]])
            cf = qr.CorrelationFunction(ta, dict(ftype="OverdampedBrownian", reorg=20.0+5*i,
                                                 cortime=100.0+10*i, T=300, matsubara=20))
            m.set_transition_environment((0,1), cf)
            mols.append(m)
        agg = qr.Aggregate(mols)
        for i in range(3):
            for j in range(i+1,3):
                agg.set_resonance_coupling(i,j,J[i][j])
    agg.build()
    return agg, ta

def identities(d):
    """relative violation of sum_a R[a,a,c,d]=0 and conj(R[a,b,c,d])=R[b,a,d,c]"""
    if d.ndim == 4: d = d[None]
    s = np.max(np.abs(d))
    tr = np.max(np.abs(np.einsum("taacd->tcd", d)))/s
    he = np.max(np.abs(np.conj(d) - np.transpose(d,(0,2,1,4,3))))/s
    return tr, he
# ---------------------------------------------------------------

def nonsec(d):
    n = d.shape[0]
    return max(abs(d[a,b,c,e]) for a in range(n) for b in range(n) for c in range(n) for e in range(n)
               if not ((a==b and c==e) or (a==c and b==e)))
agg, ta = trimer(Nt=100)
ham = agg.get_Hamiltonian(); sbi = agg.get_SystemBathInteraction()
R = RedfieldRelaxationTensor(ham, sbi)
R.secularize(legacy=False)                       # secular in the basis in which it is stored
print("after 1st call (site basis)   : max non-secular element %.2e" % nonsec(R.data))
with qr.eigenbasis_of(ham):
    before = nonsec(R.data)
    R.secularize(legacy=False)                   # same call, now in the eigenbasis of H
    after = nonsec(R.data)
    print("OBSERVED in eigenbasis_of(ham): max non-secular element before/after 2nd call %.2e / %.2e" % (before, after))
    R2 = RedfieldRelaxationTensor(ham, sbi); R2.data  # reference: legacy implementation
with qr.eigenbasis_of(ham):
    R2.secularize()
    print("legacy secularize() in the same situation leaves                      %.2e" % nonsec(R2.data))
print("REQUIRED: secularization (in the basis in which it is called) sets every element other than"
      " R[a,a,b,b], R[a,b,a,b] to zero")
sys.exit(1 if after > 1e-12 else 0)
