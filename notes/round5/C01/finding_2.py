# C01 finding 2: time dependent + secular + operator form raises, and leaves the Hamiltonian protected
import sys
import numpy as np
import quantarhei as qr

# ---- helpers -------------------------------------------------
# helper shared by the finding scripts (kept tiny; each script is otherwise stand-alone)
import warnings; warnings.filterwarnings("ignore")
import numpy as np
import quantarhei as qr

def trimer(Nt=300, J=((0,60.0,10.0),(60.0,0,40.0),(10.0,40.0,0)), en=(12000.0,12100.0,12250.0)):
    ta = qr.TimeAxis(0.0, Nt, 1.0)
    mols = []
    with qr.energy_units("1/cm"):
        for i in range(3):
            m = qr.Molecule([0.0, en[i]])
            cf = qr.CorrelationFunction(ta, dict(ftype="OverdampedBrownian", reorg=20.0+5*i,
                                                 cortime=100.0+10*i, T=300, matsubara=20))
            m.set_transition_environment((0,1), cf)
            mols.append(m)
        agg = qr.Aggregate(mols)
        for i in range(3):
            for j in range(i+1,3):
                agg.set_resonance_coupling(i,j,J[i][j])
    agg.build()
    return agg, ta

def identities(d):
    """relative violation of sum_a R[a,a,c,d]=0 and conj(R[a,b,c,d])=R[b,a,d,c]"""
    if d.ndim == 4: d = d[None]
    s = np.max(np.abs(d))
    tr = np.max(np.abs(np.einsum("taacd->tcd", d)))/s
    he = np.max(np.abs(np.conj(d) - np.transpose(d,(0,2,1,4,3))))/s
    return tr, he
# ---------------------------------------------------------------

bad = False
agg, ta = trimer(Nt=100)
R, h = agg.get_RelaxationTensor(ta, relaxation_theory="standard_Redfield", time_dependent=False,
                                secular_relaxation=True, as_operators=True)
print("time independent, secular, as_operators=True : OK, tensor form =", not R.as_operators,
      " identities", identities(R.data))
agg, ta = trimer(Nt=100)
ham = agg.get_Hamiltonian()
try:
    R, h = agg.get_RelaxationTensor(ta, relaxation_theory="standard_Redfield", time_dependent=True,
                                    secular_relaxation=True, as_operators=True)
    print("time dependent, secular, as_operators=True : OK", identities(R.data))
except Exception as e:
    bad = True
    print("OBSERVED: time dependent, secular, as_operators=True raised", repr(e))
    print("   Hamiltonian of the aggregate left basis-protected:", ham.is_basis_protected)
    with qr.eigenbasis_of(ham):
        off = np.max(np.abs(ham.data - np.diag(np.diag(ham.data))))
    print("   largest off-diagonal element of H inside eigenbasis_of(H) afterwards: %.3e (must be ~0)" % off)
print("REQUIRED: secularization works for all theories and options (time dependent, secular, operator or"
      " tensor form) - keeps R[a,a,b,b], R[a,b,a,b], zeroes the rest")
sys.exit(1 if bad else 0)
