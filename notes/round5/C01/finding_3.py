# C01 finding 3: secularize(legacy=False) of a tensor in operator form raises AttributeError
import sys
import numpy as np
import quantarhei as qr
from quantarhei.qm import LindbladForm, RedfieldRelaxationTensor, SystemBathInteraction, ProjectionOperator

# ---- helpers -------------------------------------------------
# helper shared by the finding scripts (kept tiny; each script is otherwise stand-alone)
import warnings; warnings.filterwarnings("ignore")
import numpy as np
import quantarhei as qr

def trimer(Nt=300, J=((0,60.0,10.0),(60.0,0,40.0),(10.0,40.0,0)), en=(12000.0,12100.0,12250.0)):
    ta = qr.TimeAxis(0.0, Nt, 1.0)
    mols = []
    with qr.energy_units("1/cm"):
        for i in range(3):
            m = qr.Molecule([0.0, en[i]])
            cf = qr.CorrelationFunction(ta, dict(ftype="OverdampedBrownian", reorg=20.0+5*i,
                                                 cortime=100.0+10*i, T=300, matsubara=20))
            m.set_transition_environment((0,1), cf)
            mols.append(m)
        agg = qr.Aggregate(mols)
        for i in range(3):
            for j in range(i+1,3):
                agg.set_resonance_coupling(i,j,J[i][j])
    agg.build()
    return agg, ta

def identities(d):
    """relative violation of sum_a R[a,a,c,d]=0 and conj(R[a,b,c,d])=R[b,a,d,c]"""
    if d.ndim == 4: d = d[None]
    s = np.max(np.abs(d))
    tr = np.max(np.abs(np.einsum("taacd->tcd", d)))/s
    he = np.max(np.abs(np.conj(d) - np.transpose(d,(0,2,1,4,3))))/s
    return tr, he
# ---------------------------------------------------------------

bad = False
with qr.energy_units("1/cm"):
    ham = qr.Hamiltonian(data=[[0.0,0,0],[0,12000.,80.],[0,80.,12200.]])
sbi = SystemBathInteraction([ProjectionOperator(1,2,dim=3), ProjectionOperator(0,1,dim=3)], rates=(0.01,0.002))
for legacy in (True, False):
    L = LindbladForm(ham, sbi)            # as_operators=True is the default
    try:
        with qr.eigenbasis_of(ham):
            L.secularize(legacy=legacy)
            d = L.data
            n = [abs(d[a,b,c,e]) for a in range(3) for b in range(3) for c in range(3) for e in range(3)
                 if not ((a==b and c==e) or (a==c and b==e))]
            print("LindbladForm.secularize(legacy=%s): ok, max non-secular element %.1e, identities %s"
                  % (legacy, max(n), identities(d)))
    except Exception as e:
        bad = True
        print("OBSERVED: LindbladForm(ham,sbi).secularize(legacy=%s) raised %r" % (legacy, e))
agg, ta = trimer(Nt=100)
R = RedfieldRelaxationTensor(agg.get_Hamiltonian(), agg.get_SystemBathInteraction(), as_operators=True)
try:
    R.secularize(legacy=False); print("Redfield as_operators secularize(legacy=False) ok")
except Exception as e:
    bad = True
    print("OBSERVED: RedfieldRelaxationTensor(..., as_operators=True).secularize(legacy=False) raised %r" % e)
print("REQUIRED: secularization (either implementation) of an operator-form tensor converts it and keeps"
      " R[a,a,b,b], R[a,b,a,b], zeroes the rest (Secular._secularize_data has the conversion, but it is never reached)")
sys.exit(1 if bad else 0)
