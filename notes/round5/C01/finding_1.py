# C01 finding 1: time-dependent combined Redfield-Foerster tensor cannot be built with a cut-off time
import sys, traceback
import numpy as np
import quantarhei as qr
from quantarhei.qm import TDRedfieldFoersterRelaxationTensor, TDRedfieldRelaxationTensor

# ---- helpers -------------------------------------------------
# helper shared by the finding scripts (kept tiny; each script is otherwise stand-alone)
import warnings; warnings.filterwarnings("ignore")
import numpy as np
import quantarhei as qr

def trimer(Nt=300, J=((0,60.0,10.0),(60.0,0,40.0),(10.0,40.0,0)), en=(12000.0,12100.0,12250.0)):
    ta = qr.TimeAxis(0.0, Nt, 1.0)
    mols = []
    with qr.energy_units("1/cm"):
        for i in range(3):
            m = qr.Molecule([0.0, en[i]])
            cf = qr.CorrelationFunction(ta, dict(ftype="OverdampedBrownian", reorg=20.0+5*i,
                                                 cortime=100.0+10*i, T=300, matsubara=20))
            m.set_transition_environment((0,1), cf)
            mols.append(m)
        agg = qr.Aggregate(mols)
        for i in range(3):
            for j in range(i+1,3):
                agg.set_resonance_coupling(i,j,J[i][j])
    agg.build()
    return agg, ta

def identities(d):
    """relative violation of sum_a R[a,a,c,d]=0 and conj(R[a,b,c,d])=R[b,a,d,c]"""
    if d.ndim == 4: d = d[None]
    s = np.max(np.abs(d))
    tr = np.max(np.abs(np.einsum("taacd->tcd", d)))/s
    he = np.max(np.abs(np.conj(d) - np.transpose(d,(0,2,1,4,3))))/s
    return tr, he
# ---------------------------------------------------------------

bad = False
agg, ta = trimer()
ham = agg.get_Hamiltonian()
print("Hamiltonian protected before:", ham.is_basis_protected)
with qr.energy_units("1/cm"):
    J01_before = ham.data[1,2]
    try:
        R, h = agg.get_RelaxationTensor(ta, relaxation_theory="combined_RedfieldFoerster",
                                        time_dependent=True, coupling_cutoff=30.0,
                                        relaxation_cutoff_time=150.0)
        tr, he = identities(R.data)
        print("tensor built, shape", R.data.shape, "trace viol", tr, "herm viol", he)
    except Exception as e:
        bad = True
        print("OBSERVED: get_RelaxationTensor(combined_RedfieldFoerster, time_dependent=True, "
              "relaxation_cutoff_time=150.) raised", repr(e))
    print("   aggregate Hamiltonian afterwards: basis protected =", ham.is_basis_protected,
          "; coupling H[1,2] before/after = %.3f / %.3f 1/cm" % (J01_before, ham.data[1,2]))

# the same without opensystem
agg, ta = trimer()
ham = agg.get_Hamiltonian(); sbi = agg.get_SystemBathInteraction()
try:
    R = TDRedfieldFoersterRelaxationTensor(ham, sbi, cutoff_time=150.0)
    print("direct constructor: shape", R.data.shape)
except Exception as e:
    bad = True
    print("OBSERVED: TDRedfieldFoersterRelaxationTensor(ham, sbi, cutoff_time=150.) raised", repr(e))
T = TDRedfieldRelaxationTensor(ham, sbi, cutoff_time=150.0)
print("   (TDRedfieldRelaxationTensor with the same cut-off has", T.data.shape[0],
      "time points, the combined tensor allocates", ta.length, ")")
print("REQUIRED: every relaxation theory with every option (time dependent, cut-off) yields a tensor that"
      " is trace preserving and Hermiticity preserving at every time index")
sys.exit(1 if bad else 0)
