# C03 finding 5: an aggregate built (or an electronic Hamiltonian requested) inside
# `with eigenbasis_of(X)` gets site-basis matrices labelled as being in the eigenbasis
# of X; on leaving the context they are rotated and are no longer the Frenkel matrices
import sys, warnings; warnings.filterwarnings("ignore")
import numpy as np, quantarhei as qr

def dimer(e1, e2, J, d1, d2):
    with qr.energy_units("1/cm"):
        m1 = qr.Molecule([0.0, e1]); m2 = qr.Molecule([0.0, e2])
        m1.set_dipole((0,1), d1); m2.set_dipole((0,1), d2)
        agg = qr.Aggregate([m1, m2]); agg.set_resonance_coupling(0, 1, J)
    return agg

ref = dimer(12000.0, 12100.0, 300.0, [1.,0,0], [0,1.,0]); ref.build()
Href = ref.get_Hamiltonian()

agg = dimer(11000.0, 13000.0, 50.0, [1.,0,0], [0,0,1.])
with qr.eigenbasis_of(Href):
    agg.build()
bad = 0
with qr.energy_units("1/cm"):
    H = agg.get_Hamiltonian().data
D = agg.get_TransitionDipoleMoment().data
print("Hamiltonian of the aggregate built inside the context [1/cm]:\n", np.round(H,3))
print("required: [[0,0,0],[0,11000,50],[0,50,13000]]")
print("D[0,1,:] =", D[0,1,:], " required [1,0,0];  D[0,2,:] =", D[0,2,:], " required [0,0,1]")
if not np.allclose(H, [[0,0,0],[0,11000.,50.],[0,50.,13000.]]): bad += 1
if not np.allclose(D[0,1,:], [1.,0,0]): bad += 1

agg2 = dimer(11000.0, 13000.0, 50.0, [1.,0,0], [0,0,1.]); agg2.build()
with qr.eigenbasis_of(Href):
    He = agg2.get_electronic_Hamiltonian()
with qr.energy_units("1/cm"):
    print("get_electronic_Hamiltonian() called inside the context, read outside [1/cm]:\n",
          np.round(He.data,3))
    if not np.allclose(He.data, [[0,0,0],[0,11000.,50.],[0,50.,13000.]]): bad += 1
if bad:
    print("VIOLATION: built Hamiltonian / dipole operator are not the Frenkel-exciton ones")
    sys.exit(1)
print("OK")
