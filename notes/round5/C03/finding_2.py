# C03 finding 2: the spectrum obtained by Hamiltonian.diagonalize() depends on the
# energy units that are active when it is called
import sys, warnings; warnings.filterwarnings("ignore")
import numpy as np, quantarhei as qr

def dimer():
    with qr.energy_units("1/cm"):
        m1 = qr.Molecule([0.0, 12000.0]); m2 = qr.Molecule([0.0, 12300.0])
        agg = qr.Aggregate([m1, m2])
        agg.set_resonance_coupling(0, 1, 100.0)
    agg.build()
    return agg.get_Hamiltonian()

Href = np.array([[0,0,0],[0,12000.0,100.0],[0,100.0,12300.0]])
expected = np.linalg.eigvalsh(Href)

H = dimer()
H.diagonalize()                       # internal units active
with qr.energy_units("1/cm"):
    e_int = np.diag(H.data).copy()

H = dimer()
with qr.energy_units("1/cm"):
    H.diagonalize()                   # 1/cm active
    e_cm = np.diag(H.data).copy()
    H.undiagonalize()
    back = H.data.copy()

print("expected eigenvalues [1/cm]               :", expected)
print("diagonalize() called in internal units    :", e_int)
print("diagonalize() called inside units('1/cm') :", e_cm)
print("after undiagonalize() H[1,2] [1/cm]       :", back[1,2], "(required 100.0)")
if not np.allclose(e_cm, expected):
    print("VIOLATION: spectrum must not depend on the energy units in use "
          "(factor %.4f = 1/cm2int)" % (e_cm[1]/expected[1]))
    sys.exit(1)
print("OK")
