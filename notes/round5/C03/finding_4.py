# C03 finding 4: build() does not reset the 'diagonalized' flag; after a second build
# diagonalize() does nothing and spectrum / dipole strengths are those of the OLD system
import sys, warnings; warnings.filterwarnings("ignore")
import numpy as np, quantarhei as qr
from quantarhei.core.units import cm2int

with qr.energy_units("1/cm"):
    m1 = qr.Molecule([0.0, 12000.0]); m2 = qr.Molecule([0.0, 12300.0])
m1.set_dipole((0,1), [1.0, 0.0, 0.0]); m2.set_dipole((0,1), [1.0, 0.0, 0.0])
agg = qr.Aggregate([m1, m2])
with qr.energy_units("1/cm"):
    agg.set_resonance_coupling(0, 1, 100.0)
agg.build(); agg.diagonalize()
with qr.energy_units("1/cm"):
    print("J=100: energies", [agg.get_state_energy(k) for k in range(3)],
          "strengths", [agg.get_transition_dipole(0,k) for k in (1,2)])
    agg.set_resonance_coupling(0, 1, 400.0)      # new parameters
agg.build()                                      # build again (no clean())
agg.diagonalize()
Href = np.array([[0,0,0],[0,12000.0,400.0],[0,400.0,12300.0]])
ee, ss = np.linalg.eigh(Href)
dref = [(ss[1,k]+ss[2,k])**2 for k in (1,2)]
with qr.energy_units("1/cm"):
    en = [agg.get_state_energy(k) for k in range(3)]
ds = [agg.get_transition_dipole(0,k) for k in (1,2)]
print("J=400: energies", en, "strengths", ds)
print("required energies", ee, "strengths", dref)
print("agg.HH (should be diagonal after diagonalize) [1/cm]:\n", agg.HH/cm2int)
if not (np.allclose(en, ee) and np.allclose(ds, dref)):
    print("VIOLATION: exciton energies / dipole strengths are stale (those of J=100)")
    sys.exit(1)
print("OK")
