# C03 finding 6: the coupling matrix does not follow changes of the molecule list
# (remove_Molecule -> silently wrong couplings; add_Molecule -> IndexError)
import sys, warnings, traceback; warnings.filterwarnings("ignore")
import numpy as np, quantarhei as qr

with qr.energy_units("1/cm"):
    ms = [qr.Molecule([0.0, e]) for e in (12000.0, 12100.0, 12200.0)]
    agg = qr.Aggregate(ms)
    agg.set_resonance_coupling(0, 1, 10.0)
    agg.set_resonance_coupling(0, 2, 20.0)
    agg.set_resonance_coupling(1, 2, 30.0)
agg.remove_Molecule(ms[0])            # remaining: molecules 1 and 2, coupled by 30 1/cm
agg.build()
bad = 0
with qr.energy_units("1/cm"):
    H = agg.get_Hamiltonian().data
print("after remove_Molecule(first): H [1/cm] =\n", H)
print("required coupling between the two remaining molecules: 30.0, obtained:", H[1,2])
if not np.isclose(H[1,2], 30.0): bad += 1

with qr.energy_units("1/cm"):
    ms = [qr.Molecule([0.0, e]) for e in (12000.0, 12100.0, 12200.0)]
    agg = qr.Aggregate(ms[:2])
    agg.set_resonance_coupling(0, 1, 10.0)
    agg.add_Molecule(ms[2])
    try:
        agg.set_resonance_coupling(1, 2, 30.0)
        agg.build()
        print("add_Molecule after coupling: built")
    except Exception as e:
        print("add_Molecule after set_resonance_coupling, then set_resonance_coupling(1,2):",
              type(e).__name__, e)
        bad += 1
    agg = qr.Aggregate(ms[:2]); agg.set_resonance_coupling(0, 1, 10.0); agg.add_Molecule(ms[2])
    try:
        agg.build(); print("built")
    except Exception as e:
        print("add_Molecule after set_resonance_coupling, then build():", type(e).__name__, e)
        bad += 1
if bad:
    print("VIOLATION: elements between states differing by one moved excitation must equal "
          "the coupling of the corresponding molecules")
    sys.exit(1)
print("OK")
