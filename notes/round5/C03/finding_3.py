# C03 finding 3: Hamiltonian.diagonalize(coupling_cutoff=...) leaves an all-zero Hamiltonian
import sys, warnings; warnings.filterwarnings("ignore")
import numpy as np, quantarhei as qr

with qr.energy_units("1/cm"):
    m = [qr.Molecule([0.0, e]) for e in (12000.0, 12300.0, 12100.0)]
    agg = qr.Aggregate(m)
    agg.set_resonance_coupling_matrix([[0.0, 100.0, 10.0],
                                       [100.0, 0.0, 20.0],
                                       [10.0, 20.0, 0.0]])
agg.build()
H = agg.get_Hamiltonian()
Hs = np.array([[0,0,0,0],[0,12000.,100.,0],[0,100.,12300.,0],[0,0,0,12100.]])
expected = np.linalg.eigvalsh(Hs)     # couplings below 50 1/cm removed
with qr.energy_units("1/cm"):
    SS, JR = H.diagonalize(coupling_cutoff=50.0)
    got = np.diag(H.data).copy()
    full = H.data.copy()
print("expected diagonal (strong-coupling part diagonalized) [1/cm]:", expected)
print("obtained diagonal [1/cm]:", got)
print("max |H| after the call:", np.max(np.abs(full)))
if not np.allclose(np.sort(got), expected):
    print("VIOLATION: the spectrum of the aggregate Hamiltonian is lost (all zeros)")
    sys.exit(1)
print("OK")
