# C03 finding 1: aggregates of three-level molecules, mult=2:
# the transition dipole operator connects NON-adjacent bands (0 <-> 2) and uses
# the 0->1 dipole of the molecule for its 1->2 transition.
import sys, warnings; warnings.filterwarnings("ignore")
import numpy as np, quantarhei as qr

with qr.energy_units("1/cm"):
    m1 = qr.Molecule([0.0, 12000.0, 23000.0])
    m2 = qr.Molecule([0.0, 12500.0, 24500.0])
m1.set_dipole((0,1), [1.0, 0.0, 0.0]); m1.set_dipole((1,2), [0.0, 0.5, 0.0])
m2.set_dipole((0,1), [0.0, 1.0, 0.0]); m2.set_dipole((1,2), [0.0, 0.0, 0.7])
# the 0->2 dipoles of the molecules are zero (never set)
agg = qr.Aggregate([m1, m2])
with qr.energy_units("1/cm"):
    agg.set_resonance_coupling(0, 1, 100.0)
agg.build(mult=2)

sigs = agg.elsigs
band = [sum(s) for s in sigs]
DD = agg.get_TransitionDipoleMoment().data
print("states:", sigs, "bands:", band)

bad = 0
for a in range(len(sigs)):
    for b in range(a+1, len(sigs)):
        if abs(band[a]-band[b]) != 1 and np.any(DD[a,b] != 0.0):
            print("dipole between NON-adjacent bands: %s (band %d) <-> %s (band %d): %s"
                  % (sigs[a], band[a], sigs[b], band[b], DD[a,b]))
            bad += 1
ia, ib = sigs.index((1,0)), sigs.index((2,0))
print("<(1,0)|D|(2,0)> =", DD[ia,ib], " required: dipole of the 1->2 transition of molecule 0 =",
      m1.get_dipole((1,2)))
if not np.allclose(DD[ia,ib], m1.get_dipole((1,2))): bad += 1
ia, ib = sigs.index((0,1)), sigs.index((0,2))
print("<(0,1)|D|(0,2)> =", DD[ia,ib], " required:", m2.get_dipole((1,2)))
if not np.allclose(DD[ia,ib], m2.get_dipole((1,2))): bad += 1
with qr.energy_units("1/cm"):
    H = agg.get_Hamiltonian().data
ia, ib = sigs.index((2,0)), sigs.index((1,1))
print("<(2,0)|H|(1,1)> = %.3f 1/cm; resonance coupling J_01 = 100.0 1/cm" % H[ia,ib])

if bad:
    print("VIOLATION: property requires dipole elements only between adjacent bands, "
          "through the dipole of the transition of the molecule that changes state")
    sys.exit(1)
print("OK")
