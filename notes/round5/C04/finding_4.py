# C04 finding 4: copies made with the public copy()/deepcopy() methods inside
# a basis context carry the basis label of the context but are not registered
# with it; they are not transformed back when the context is left.
import sys, warnings
warnings.filterwarnings("ignore")
import numpy as np
import quantarhei as qr
from quantarhei.qm import ReducedDensityMatrix, SelfAdjointOperator

H = qr.Hamiltonian(data=[[0.0, 0.3], [0.3, 1.0]])
rho = ReducedDensityMatrix(data=[[0.7, 0.2], [0.2, 0.3]])
orig = rho.data.copy()
fail = False

with qr.eigenbasis_of(H):
    rho.data                       # rho is now in the eigenbasis
    c1 = rho.copy()
    c2 = rho.deepcopy()
    same_inside = np.allclose(c2.data, rho.data)
print("inside: copy equals original:", same_inside)
print("after : original restored   :", np.allclose(rho.data, orig))
for name, c in (("copy()", c1), ("deepcopy()", c2)):
    print("after : %-10s basis label = %d (required 0), stored values\n%s"
          % (name, c.get_current_basis(), c._data))
    try:
        ok = np.allclose(c.data, orig)
        print("        .data equals the original values:", ok,
              "(required True)")
        fail |= not ok
    except Exception as e:
        print("        reading .data raises:", repr(e), "(required: values",
              "of the original)")
        fail = True

# the stale label is taken for the basis of the next context
B = SelfAdjointOperator(data=np.array([[0.0, 1.0], [1.0, 0.0]]))
with qr.eigenbasis_of(B):
    eq = np.allclose(c2.data, rho.data)
print("in a later context of another operator: copy equals original:", eq,
      "(required True)")
fail |= not eq
if fail:
    print("VIOLATION: objects created inside the context are not back in "
          "the original representation")
    sys.exit(1)
print("no violation observed")
