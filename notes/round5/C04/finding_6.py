# C04 finding 6: a Redfield tensor built while a context of the (unprotected)
# Hamiltonian is active differs from the one built outside: the Hamiltonian
# is read in the current basis but the system-bath operators sbi.KK are taken
# as they are (site basis).  Dynamics propagated with it differ too.
import sys, warnings
warnings.filterwarnings("ignore")
import numpy
import quantarhei as qr
from quantarhei import (TimeAxis, CorrelationFunction, Molecule, Aggregate,
                        energy_units, eigenbasis_of)
from quantarhei.qm import ReducedDensityMatrix, ReducedDensityMatrixPropagator

time = TimeAxis(0.0, 300, 1.0)
with energy_units("1/cm"):
    cf = CorrelationFunction(time, {"ftype": "OverdampedBrownian",
                    "reorg": 30.0, "T": 300.0, "cortime": 100.0})
    m1 = Molecule([0.0, 12000.0])
    m2 = Molecule([0.0, 12100.0])
    m1.set_transition_environment((0, 1), cf)
    m2.set_transition_environment((0, 1), cf)
    agg = Aggregate([m1, m2])
    agg.set_resonance_coupling(0, 1, 80.0)
agg.build()

RT_out, ham = agg.get_RelaxationTensor(time, relaxation_theory="stR")
with eigenbasis_of(ham):
    RT_in, ham = agg.get_RelaxationTensor(time, relaxation_theory="stR")

# both are compared outside of any context (site basis)
d_out = RT_out.data.copy()
d_in = RT_in.data.copy()
diff = numpy.max(numpy.abs(d_in - d_out))
print("max|R_in - R_out| = %.4e  (largest element of R_out %.4e)"
      % (diff, numpy.max(numpy.abs(d_out))))
print("population transfer rate 2<-1 : built outside %.5f 1/fs, "
      "built inside %.5f 1/fs" % (d_out[2, 2, 1, 1].real,
                                  d_in[2, 2, 1, 1].real))

rho0 = ReducedDensityMatrix(dim=ham.dim)
rho0.data[2, 2] = 1.0
r_out = ReducedDensityMatrixPropagator(time, ham, RT_out).propagate(rho0)
r_in = ReducedDensityMatrixPropagator(time, ham, RT_in).propagate(rho0)
ddiff = numpy.max(numpy.abs(r_in.data - r_out.data))
print("max difference of the propagated density matrices: %.4e" % ddiff)
print("REQUIRED: the same tensor and the same dynamics (differences ~1e-15)")
if diff > 1.0e-8:
    print("VIOLATION")
    sys.exit(1)
print("no violation observed")
