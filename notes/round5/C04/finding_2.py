# C04 finding 2: the density matrix returned by DensityMatrixEvolution.at()
# is a view into the evolution's data; the evolution is transformed in place,
# so the density matrix gets transformed twice (on entry and/or on exit).
import sys, warnings
warnings.filterwarnings("ignore")
import numpy as np
import quantarhei as qr
from quantarhei.qm import ReducedDensityMatrixEvolution, ReducedDensityMatrix

H = qr.Hamiltonian(data=[[0.0, 0.3], [0.3, 1.0]])
ta = qr.TimeAxis(0.0, 3, 1.0)
rho0 = ReducedDensityMatrix(data=[[1.0, 0.0], [0.0, 0.0]])
ev = ReducedDensityMatrixEvolution(ta, rho0)
ev.data[1] = np.array([[0.8, 0.1], [0.1, 0.2]])
ev.data[2] = np.array([[0.6, 0.2], [0.2, 0.4]])
orig = ev.data.copy()
fail = False

# (a) taken outside, looked at inside, and again outside
r1 = ev.at(1.0)
r1_out = r1.data.copy()
with qr.eigenbasis_of(H):
    ev_in = ev.data.copy()
    r1_in = r1.data.copy()
print("(a) inside : rho(1) from at() equals evolution[1]  :",
      np.allclose(r1_in, ev_in[1]), "(required True)")
print("(a) after  : rho(1) back to its original values     :",
      np.allclose(r1.data, r1_out), "(required True)")
print("    original\n", r1_out, "\n    after the context\n", r1.data)
fail |= not np.allclose(r1_in, ev_in[1])
fail |= not np.allclose(r1.data, r1_out)

# (b) created inside the context, looked at after it
with qr.eigenbasis_of(H):
    r2 = ev.at(2.0)
    tr_in = np.trace(np.dot(H.data, r2.data))
tr_out = np.trace(np.dot(H.data, r2.data))
print("(b) after  : rho(2) created inside equals evolution[2]:",
      np.allclose(r2.data, orig[2]), "(required True)")
print("    tr(H rho) inside %.6f, outside %.6f (required equal)"
      % (tr_in.real, tr_out.real))
fail |= not np.allclose(r2.data, orig[2])
print("evolution itself restored:", np.allclose(ev.data, orig))
if fail:
    print("VIOLATION: objects returned by at() are transformed twice")
    sys.exit(1)
print("no violation observed")
