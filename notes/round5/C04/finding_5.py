# C04 finding 5: a managed object without data yet (empty SuperOperator,
# Redfield tensors created with initialize=False) that is created inside a
# context makes the exit of the context crash; the other registered objects
# are not transformed back and the bookkeeping is not restored.
import sys, warnings
warnings.filterwarnings("ignore")
import numpy
import quantarhei as qr
from quantarhei import (TimeAxis, CorrelationFunction, Hamiltonian,
                        energy_units, eigenbasis_of, REAL)
from quantarhei.qm import (Operator, SystemBathInteraction, SuperOperator,
                           ReducedDensityMatrix, RedfieldRelaxationTensor,
                           TDRedfieldRelaxationTensor)
from quantarhei.qm.corfunctions import CorrelationFunctionMatrix
from quantarhei.core.managers import Manager
m = Manager()

def state():
    return dict(stack=list(m.basis_stack),
                ntransf=len(m.basis_transformations),
                registered={k: len(v) for k, v in m.basis_registered.items()},
                basis_operator=m.current_basis_operator,
                in_context_flag=m._in_eigenbasis_of_context)
def reset():
    m.basis_stack[:] = [0]; m.basis_transformations[:] = [1]
    m.basis_registered.clear(); m.current_basis_operator = None
    m._in_eigenbasis_of_context = False

time = TimeAxis(0.0, 100, 1.0)
with energy_units("1/cm"):
    cf = CorrelationFunction(time, {"ftype": "OverdampedBrownian",
                    "reorg": 30.0, "T": 300.0, "cortime": 100.0})
cm = CorrelationFunctionMatrix(time, 2, 1)
cm.set_correlation_function(cf, [(0, 0), (1, 1)])
K1 = Operator(data=numpy.array([[1.0, 0.0], [0.0, 0.0]], dtype=REAL))
K2 = Operator(data=numpy.array([[0.0, 0.0], [0.0, 1.0]], dtype=REAL))
sbi = SystemBathInteraction([K1, K2], cm)
with energy_units("1/cm"):
    H = Hamiltonian(data=[[0.0, 100.0], [100.0, 50.0]])

before = state()
print("bookkeeping before:", before)
fail = False
cases = [("SuperOperator()", lambda: SuperOperator()),
         ("RedfieldRelaxationTensor(initialize=False, as_operators=True)",
          lambda: RedfieldRelaxationTensor(H, sbi, initialize=False,
                                           as_operators=True)),
         ("TDRedfieldRelaxationTensor(initialize=False)",
          lambda: TDRedfieldRelaxationTensor(H, sbi, initialize=False))]
for name, make in cases:
    rho = ReducedDensityMatrix(data=[[0.7, 0.2], [0.2, 0.3]])
    orig = rho.data.copy()
    try:
        with eigenbasis_of(H):
            obj = make()
            rho.data            # rho is taken to the eigenbasis
        print(name, ": context left normally")
    except Exception as e:
        print(name, ": leaving the context raises", repr(e))
        fail = True
    after = state()
    print("   bookkeeping after :", after)
    print("   rho stored values back to the original:",
          numpy.allclose(rho._data, orig), "(required True)")
    if after != before or not numpy.allclose(rho._data, orig):
        fail = True
    reset()
print("REQUIRED: the context is left without error, rho is restored and the "
      "bookkeeping equals the one before")
if fail:
    print("VIOLATION")
    sys.exit(1)
print("no violation observed")
