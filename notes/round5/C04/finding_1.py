# C04 finding 1: a time-dependent Redfield tensor kept in operator form
# (as_operators=True) is not presented in the basis of the context:
# propagated dynamics inside `eigenbasis_of(H)` differ from those outside.
import sys, warnings
warnings.filterwarnings("ignore")
import numpy
import quantarhei as qr
from quantarhei import (TimeAxis, CorrelationFunction, Hamiltonian,
                        energy_units, eigenbasis_of, REAL)
from quantarhei.qm import (Operator, SystemBathInteraction,
                           ReducedDensityMatrix, ReducedDensityMatrixPropagator,
                           RedfieldRelaxationTensor, TDRedfieldRelaxationTensor)
from quantarhei.qm.corfunctions import CorrelationFunctionMatrix

time = TimeAxis(0.0, 200, 1.0)
with energy_units("1/cm"):
    params = {"ftype": "OverdampedBrownian", "reorg": 30.0, "T": 300.0,
              "cortime": 100.0}
    cf = CorrelationFunction(time, params)
cm = CorrelationFunctionMatrix(time, 2, 1)
cm.set_correlation_function(cf, [(0, 0), (1, 1)])
K1 = Operator(data=numpy.array([[1.0, 0.0], [0.0, 0.0]], dtype=REAL))
K2 = Operator(data=numpy.array([[0.0, 0.0], [0.0, 1.0]], dtype=REAL))
sbi = SystemBathInteraction([K1, K2], cm)
with energy_units("1/cm"):
    H = Hamiltonian(data=[[0.0, 100.0], [100.0, 50.0]])
rho0 = ReducedDensityMatrix(dim=2)
rho0.data[1, 1] = 1.0

res = {}
for cls in (RedfieldRelaxationTensor, TDRedfieldRelaxationTensor):
    for asop in (False, True):
        RT = cls(H, sbi, as_operators=asop)
        prop = ReducedDensityMatrixPropagator(time, H, RT)
        r_out = prop.propagate(rho0).data.copy()      # outside any context
        with eigenbasis_of(H):
            r_in_obj = prop.propagate(rho0)           # inside the context
        r_in = r_in_obj.data.copy()                   # read outside again
        diff = numpy.max(numpy.abs(r_in - r_out))
        res[(cls.__name__, asop)] = diff
        print("%-28s as_operators=%-5s max|rho_in(t) - rho_out(t)| = %.3e"
              % (cls.__name__, asop, diff))

bad = res[("TDRedfieldRelaxationTensor", True)]
print("REQUIRED: propagated dynamics are the same inside and outside the "
      "context (all four numbers ~1e-15)")
if bad > 1.0e-8:
    print("VIOLATION: TD tensor in operator form gives dynamics that differ by",
          bad)
    sys.exit(1)
print("no violation observed")
