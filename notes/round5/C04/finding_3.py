# C04 finding 3: SuperOperator / RelaxationTensor / TransitionDipoleMoment
# are transformed by writing into the stored array in place.  The values
# are cast to the dtype of that array: whole-number data are truncated, real
# data lose the imaginary part in the eigenbasis of a complex Hermitian
# operator.  The caller's array (stored without a copy) is changed as well.
import sys, warnings
warnings.filterwarnings("ignore")
import numpy as np
import quantarhei as qr
from quantarhei.qm import (ReducedDensityMatrix, SelfAdjointOperator,
                           SuperOperator, TransitionDipoleMoment)

fail = False
A = np.array([[0, 1], [1, 0]])
def leftmult(dtype):
    d = np.zeros((2, 2, 2, 2), dtype=dtype)
    for i in range(2):
        for j in range(2):
            for k in range(2):
                d[i, j, k, j] = A[i, k]      # D rho = A.rho
    return d
rho = ReducedDensityMatrix(data=[[0.7, 0.2], [0.2, 0.3]])
expected = np.dot(A, rho.data)
H = qr.Hamiltonian(data=[[0.0, 0.3], [0.3, 1.0]])

# (a) whole-number superoperator, real symmetric basis operator
data = leftmult(int)
So = SuperOperator(data=data.copy())
with qr.eigenbasis_of(H):
    res = So.apply(rho)          # action of the tensor on the state
print("(a) integer data: D.rho computed inside the context, read outside\n",
      res.data, "\n    required\n", expected)
print("    superoperator restored:", np.allclose(So.data, data),
      "(required True)")
fail |= not np.allclose(res.data, expected) or not np.allclose(So.data, data)

# (b) real (float) superoperator, complex Hermitian basis operator
B = SelfAdjointOperator(data=np.array([[0.0, 0.3j], [-0.3j, 1.0]]))
data = leftmult(float)
So = SuperOperator(data=data.copy())
with qr.eigenbasis_of(B):
    res = So.apply(rho)
print("(b) float data, complex Hermitian basis: D.rho\n", res.data,
      "\n    required\n", expected)
print("    superoperator restored:", np.allclose(So.data, data),
      "(required True)")
fail |= not np.allclose(res.data, expected) or not np.allclose(So.data, data)

# (c) transition dipole moment given as whole numbers
dd = np.zeros((2, 2, 3), dtype=int)
dd[0, 1, 0] = 1
dd[1, 0, 0] = 1
keep = dd.copy()
D = TransitionDipoleMoment(data=dd)
ds_out = D.dipole_strength(transition=(0, 1))
with qr.eigenbasis_of(H):
    d_in = D.data[:, :, 0].copy()
SS = np.linalg.eigh(np.array([[0.0, 0.3], [0.3, 1.0]]))[1]
print("(c) dipole x-component inside the context\n", d_in, "\n    required\n",
      np.dot(SS.T, np.dot(keep[:, :, 0], SS)))
print("    after the context\n", D.data[:, :, 0], "\n    required\n",
      keep[:, :, 0])
print("    caller's array unchanged:", np.array_equal(dd, keep),
      "(required True)")
fail |= not np.allclose(D.data, keep)

if fail:
    print("VIOLATION: objects are not presented correctly inside the context "
          "and are not restored after it")
    sys.exit(1)
print("no violation observed")
