# Finding 4: with the `rate_matrix` option of AbsSpectrumCalculator only the
# FIRST exciton line receives its life-time broadening.  In the loop over the
# remaining transitions the test is `if relaxation_tensor is not None`, which
# is False when a rate matrix was supplied, so every further line gets
# gg = [0.0].  Two molecules that differ only in their transition energy then
# give two DIFFERENT lines, and the result differs from the one obtained with
# the relaxation tensor that carries the very same rates.
import sys
import warnings
warnings.filterwarnings("ignore")
import numpy
import quantarhei as qr

time = qr.TimeAxis(0.0, 1000, 1.0)


def make(E, J):
    mols = []
    with qr.energy_units("1/cm"):
        for e in E:
            m = qr.Molecule([0.0, e])
            m.set_dipole(0, 1, [1.0, 0.0, 0.0])
            cf = qr.CorrelationFunction(time, dict(ftype="OverdampedBrownian",
                                        reorg=30.0, cortime=100.0, T=300))
            m.set_transition_environment((0, 1), cf)
            mols.append(m)
        agg = qr.Aggregate(molecules=mols)
        agg.set_resonance_coupling(0, 1, J)
    agg.build()
    return agg


def spectrum(agg, **kw):
    calc = qr.AbsSpectrumCalculator(time, system=agg, **kw)
    calc.bootstrap()
    return calc.calculate(raw=True)


bad = False

# (a) two uncoupled, otherwise identical molecules, same decay rate 1/100 fs
agg = make([11800.0, 12200.0], 0.0)
KK = qr.qm.RateMatrix(dim=3)
KK.set_rate((0, 1), 0.01)
KK.set_rate((0, 2), 0.01)
print("depopulation rates in the rate matrix:", numpy.diag(KK.data))
sp = spectrum(agg, rate_matrix=KK)
half = len(sp.data)//2
h1 = numpy.max(sp.data[:half])
h2 = numpy.max(sp.data[half:])
print("(a) height of line 1 (11800 1/cm): %.3f   height of line 2 (12200 1/cm):"
      " %.3f" % (h1, h2))
print("    required: equal heights (same dipole, same bath, same rate)")
if abs(h1-h2) > 1.0e-6*h2:
    bad = True

# (b) coupled dimer: Redfield tensor versus the rate matrix made of its rates
agg = make([12000.0, 12200.0], 100.0)
RT, ham = agg.get_RelaxationTensor(time, relaxation_theory="standard_Redfield")
with qr.eigenbasis_of(ham):
    K = numpy.real(numpy.einsum("iijj->ij", RT.data)).copy()
s_rt = spectrum(agg, relaxation_tensor=RT)
s_rm = spectrum(agg, rate_matrix=qr.qm.RateMatrix(data=K))
dev = numpy.max(numpy.abs(s_rt.data-s_rm.data))/numpy.max(s_rt.data)
print("(b) R_aaaa of the tensor:", numpy.real([K[i, i] for i in range(3)]))
print("    max|spectrum(rate matrix) - spectrum(tensor)|/max = %.3e" % dev)
print("    required: identical (both carry the same rates R_aaaa = K_aa)")
if dev > 1.0e-8:
    bad = True

if bad:
    print("VIOLATION")
    sys.exit(1)
print("no violation")
