# Finding 1: AbsSpectrumCalculator._excitonic_coft indexes the eigenvector matrix
# with MONOMER numbers (SS[kk+1, n+1]) although its rows are aggregate STATE
# numbers. For an aggregate whose molecules carry vibrational modes the rows
# kk+1 are vibrational levels of the electronic ground state, the line-shape
# functions g_a(t) come out (nearly) zero and the spectrum is a set of
# unbroadened spikes instead of the Fourier integral of
#      sum_a |d_a|^2 exp(-g_a(t) - i w_a t).
import sys
import warnings
warnings.filterwarnings("ignore")
import numpy
import quantarhei as qr
from quantarhei.spectroscopy.abscalculator import _c2g


def make(time, modes):
    mols = []
    with qr.energy_units("1/cm"):
        for e, d in zip([12000.0, 12200.0], [[1.0, 0.0, 0.0], [0.5, 1.0, 0.0]]):
            m = qr.Molecule([0.0, e])
            m.set_dipole(0, 1, d)
            cf = qr.CorrelationFunction(time, dict(ftype="OverdampedBrownian",
                                        reorg=30.0, cortime=100.0, T=300))
            m.set_transition_environment((0, 1), cf)
            if modes:
                md = qr.Mode(frequency=500.0)
                m.add_Mode(md)
                md.set_nmax(0, 2)
                md.set_nmax(1, 2)
                md.set_HR(1, 0.3)
            mols.append(m)
        agg = qr.Aggregate(molecules=mols)
        agg.set_resonance_coupling(0, 1, 100.0)
    agg.build()
    return agg


def direct(time, agg, w):
    """sum_a |d_a|^2 int dt exp(-g_a(t) - i w_a t) exp(i w t), transitions from
    state 0; g_a from the site correlation functions weighted by the electronic
    participation of exciton state a on every molecule"""
    h = agg.get_Hamiltonian().data.copy()
    d = agg.get_TransitionDipoleMoment().data.copy()
    ee, SS = numpy.linalg.eigh(h)
    cfm = agg.get_SystemBathInteraction().CC
    t = time.data
    out = numpy.zeros(len(w))
    for a in range(1, h.shape[0]):
        da = numpy.einsum("k,kx->x", SS[:, a], d[:, 0, :])
        dd = numpy.dot(da, da)
        if dd < 1.0e-14:
            continue
        kap = [sum(abs(SS[v, a])**2 for v in agg.vibindices[k+1])
               for k in range(agg.nmono)]
        ct = numpy.zeros(time.length, dtype=complex)
        for k in range(agg.nmono):
            for l in range(agg.nmono):
                ct += kap[k]*kap[l]*cfm.get_coft(k, l)
        ft = dd*numpy.exp(-_c2g(time, ct) - 1j*(ee[a]-ee[0])*t)
        ph = numpy.exp(1j*numpy.outer(w, t))*ft[None, :]
        out += (2.0*numpy.real(numpy.sum(ph, axis=1))-numpy.real(ph[:, 0]))*time.step
    return out


time = qr.TimeAxis(0.0, 1000, 1.0)
res = {}
for modes in (False, True):
    agg = make(time, modes)
    calc = qr.AbsSpectrumCalculator(time, system=agg)
    calc.bootstrap()
    sp = calc.calculate(raw=True)
    ref = direct(time, agg, sp.axis.data)
    dev = numpy.max(numpy.abs(sp.data-ref))/numpy.max(numpy.abs(ref))
    res[modes] = dev
    print("molecules with a vibrational mode: %-5s  states: %2d   "
          "max of returned spectrum %9.2f   max of Fourier integral %9.2f   "
          "max|diff|/max = %.2e" % (modes, agg.get_Hamiltonian().dim,
                                    numpy.max(sp.data), numpy.max(ref), dev))

print("required: the returned spectrum equals the Fourier integral of the"
      " dipole correlation function (deviation at round-off level, as in the"
      " purely electronic case)")
if res[True] > 1.0e-6:
    print("VIOLATION: with vibrational modes the relative deviation is %.2f"
          % res[True])
    sys.exit(1)
print("no violation")
