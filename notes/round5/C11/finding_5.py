# Finding 5: AbsSpectrumCalculator._calculate_aggregate diagonalizes the
# system's Hamiltonian and transforms its dipole operator (and the supplied
# relaxation tensor) IN PLACE and transforms them back only at the very end.
# Any exception in between leaves the aggregate's own operators in the
# exciton basis.  Two legitimate inputs that raise in between:
#   (a) an aggregate without system-bath coupling (crash: `_excitonic_coft`
#       is called unconditionally although one_transition_spectrum has a
#       branch for the bath-less case),
#   (b) a Redfield tensor created with as_operators=True (it has no .data).
import sys
import warnings
warnings.filterwarnings("ignore")
import numpy
import quantarhei as qr

E = [12000.0, 12300.0, 12100.0]
D = [[1.0, 0.0, 0.0], [0.3, 0.8, 0.1], [0.0, 0.5, 1.2]]


def make(time, bath):
    mols = []
    with qr.energy_units("1/cm"):
        for e, d in zip(E, D):
            m = qr.Molecule([0.0, e])
            m.set_dipole(0, 1, d)
            if bath:
                cf = qr.CorrelationFunction(time, dict(ftype="OverdampedBrownian",
                                            reorg=30.0, cortime=100.0, T=300))
                m.set_transition_environment((0, 1), cf)
            mols.append(m)
        agg = qr.Aggregate(molecules=mols)
        agg.set_resonance_coupling(0, 1, 100.0)
        agg.set_resonance_coupling(1, 2, -60.0)
    agg.build()
    return agg


def report(agg, H0, D0):
    with qr.energy_units("1/cm"):
        dH = numpy.max(numpy.abs(agg.get_Hamiltonian().data-H0))
        print("    Hamiltonian of the aggregate after the call [1/cm]:")
        print(numpy.round(agg.get_Hamiltonian().data, 2))
    dD = numpy.max(numpy.abs(agg.get_TransitionDipoleMoment().data-D0))
    print("    max change of H: %.3f 1/cm,  max change of dipole operator: %.3f"
          % (dH, dD))
    return dH > 1.0e-6 or dD > 1.0e-9


bad = False
time = qr.TimeAxis(0.0, 1000, 1.0)

print("(a) aggregate without bath")
agg = make(time, bath=False)
with qr.energy_units("1/cm"):
    H0 = agg.get_Hamiltonian().data.copy()
D0 = agg.get_TransitionDipoleMoment().data.copy()
calc = qr.AbsSpectrumCalculator(time, system=agg)
calc.bootstrap()
try:
    calc.calculate()
    print("    spectrum calculated")
except Exception as e:
    print("    calculate() raised:", repr(e))
    bad = True
bad = report(agg, H0, D0) or bad

print("(b) Redfield tensor in operator form (as_operators=True)")
agg = make(time, bath=True)
fresh = make(time, bath=True)
RT, ham = agg.get_RelaxationTensor(time, relaxation_theory="standard_Redfield",
                                   as_operators=True)
with qr.energy_units("1/cm"):
    H0 = agg.get_Hamiltonian().data.copy()
D0 = agg.get_TransitionDipoleMoment().data.copy()
calc = qr.AbsSpectrumCalculator(time, system=agg, relaxation_tensor=RT)
calc.bootstrap()
try:
    calc.calculate()
    print("    spectrum calculated")
except Exception as e:
    print("    calculate() raised:", repr(e))
bad = report(agg, H0, D0) or bad
# consequence: the next, perfectly valid, calculation on the same aggregate
c1 = qr.AbsSpectrumCalculator(time, system=agg)
c1.bootstrap()
s1 = c1.calculate(raw=True)
c2 = qr.AbsSpectrumCalculator(time, system=fresh)
c2.bootstrap()
s2 = c2.calculate(raw=True)
print("    next calculation on this aggregate versus a fresh copy:"
      " max|diff|/max = %.3e"
      % (numpy.max(numpy.abs(s1.data-s2.data))/numpy.max(s2.data)))

print("required: calculating a spectrum leaves Hamiltonian, dipole operator and"
      " relaxation tensor unchanged (and a bath-less aggregate is a legitimate"
      " system)")
if bad:
    print("VIOLATION")
    sys.exit(1)
print("no violation")
