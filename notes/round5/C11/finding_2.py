# Finding 2: MockAbsSpectrumCalculator.calculate() reads the frequency axis in
# the CURRENT energy units (o1 = self.oa1.data) while line centres and widths
# of the pathways are in internal units.  Called inside
# `with qr.energy_units("1/cm")` it silently returns a spectrum that is zero
# everywhere (axis values ~12000 are compared with centres ~2.3 rad/fs and
# widths ~0.02 rad/fs): no line at any transition energy and the integral is 0
# instead of (sum of squared dipoles)/3.
import sys
import warnings
warnings.filterwarnings("ignore")
import numpy
import quantarhei as qr
from quantarhei.spectroscopy.mockabscalculator import MockAbsSpectrumCalculator

time = qr.TimeAxis(0.0, 1000, 1.0)
E = [12000.0, 12300.0, 12100.0]
D = [[1.0, 0.0, 0.0], [0.3, 0.8, 0.1], [0.0, 0.5, 1.2]]


def make():
    mols = []
    with qr.energy_units("1/cm"):
        for e, d in zip(E, D):
            m = qr.Molecule([0.0, e])
            m.set_dipole(0, 1, d)
            m.set_transition_width((0, 1), 100.0)
            mols.append(m)
        agg = qr.Aggregate(molecules=mols)
        agg.set_resonance_coupling(0, 1, 100.0)
        agg.set_resonance_coupling(1, 2, -60.0)
    agg.build()
    return agg


def calculator():
    calc = MockAbsSpectrumCalculator(time, system=make())
    calc.bootstrap(rwa=qr.convert(12000.0, "1/cm", "int"))
    calc.set_width(qr.convert(100.0, "1/cm", "int"))
    return calc


sd2 = sum(numpy.dot(d, d) for d in D)

s_out = calculator().calculate(raw=True)
calc = calculator()            # built and bootstrapped outside any context
with qr.energy_units("1/cm"):
    s_in = calc.calculate(raw=True)

with qr.energy_units("int"):
    w = s_out.axis.data
    dw = w[1]-w[0]
    i_out = numpy.sum(s_out.data)*dw
    i_in = numpy.sum(s_in.data)*dw
with qr.energy_units("1/cm"):
    wcm = s_out.axis.data
    print("calculate() outside units context: max %.4f at %.1f 1/cm, integral"
          " %.5f" % (numpy.max(s_out.data), wcm[numpy.argmax(s_out.data)], i_out))
    print("calculate() inside  energy_units('1/cm'): max %.4f at %.1f 1/cm,"
          " integral %.5f, non-zero points: %d"
          % (numpy.max(s_in.data), wcm[numpy.argmax(s_in.data)], i_in,
             numpy.sum(numpy.abs(s_in.data) > 1.0e-12)))
print("required: same spectrum in both cases, lines at the exciton energies,"
      " integral = sum|d|^2/3 = %.5f" % (sd2/3.0))
if abs(i_in-sd2/3.0) > 1.0e-3*sd2 or not numpy.allclose(s_in.data, s_out.data):
    print("VIOLATION: spectrum calculated inside the units context differs")
    sys.exit(1)
print("no violation")
