# Finding 6: one_transition_spectrum builds the response as
#       exp(-g(t) - 1j*(w_a - rwa)*ta.data)
# with the ABSOLUTE values of the time axis, but the one-sided transform
# (numpy.fft.hfft) takes the first sample as t = 0.  On a TimeAxis that does
# not start at zero every line is multiplied by exp(-1j*(w_a-rwa)*t_start):
# it acquires a dispersive admixture, moves away from its transition energy,
# becomes negative and loses area - and all that depends on the arbitrary
# rotating-wave frequency passed to bootstrap().
import sys
import warnings
warnings.filterwarnings("ignore")
import numpy
import quantarhei as qr


def monomer_spectrum(t0, rwa):
    time = qr.TimeAxis(t0, 1000, 1.0)
    with qr.energy_units("1/cm"):
        m = qr.Molecule([0.0, 12000.0])
        m.set_dipole(0, 1, [1.0, 0.0, 0.0])
        cf = qr.CorrelationFunction(time, dict(ftype="OverdampedBrownian",
                                    reorg=30.0, cortime=100.0, T=300))
        m.set_transition_environment((0, 1), cf)
        calc = qr.AbsSpectrumCalculator(time, system=m)
        calc.bootstrap(rwa=rwa)
    sp = calc.calculate(raw=True)
    with qr.energy_units("int"):
        w = sp.axis.data.copy()
    return w, sp.data


res = {}
for t0 in (0.0, 20.0):
    for rwa in (12000.0, 11700.0):
        w, d = monomer_spectrum(t0, rwa)
        dw = w[1]-w[0]
        pk = qr.convert(w[numpy.argmax(d)], "int", "1/cm")
        area = numpy.sum(d)*dw/(2.0*numpy.pi)
        res[(t0, rwa)] = (pk, numpy.min(d)/numpy.max(d), area)
        print("time axis starts at %5.1f fs, rwa = %7.1f 1/cm:  maximum at %8.1f"
              " 1/cm,  min/max = %6.3f,  integral/(2 pi |d|^2) = %.3f"
              % (t0, rwa, pk, numpy.min(d)/numpy.max(d), area))

print("required: the line sits at its transition energy (12000 1/cm minus the"
      " bath shift, i.e. where it is for t_start = 0) to within the grid step"
      " of %.1f 1/cm, whatever rwa; integral = 2 pi |d|^2"
      % qr.convert(dw, "int", "1/cm"))
p0 = res[(0.0, 12000.0)][0]
bad = False
for key, (pk, mm, area) in res.items():
    if abs(pk-p0) > 17.0 or abs(area-1.0) > 0.01 or mm < -0.01:
        print("VIOLATION for (t_start, rwa) =", key)
        bad = True
if bad:
    sys.exit(1)
print("no violation")
