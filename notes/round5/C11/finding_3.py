# Finding 3: Aggregate.diagonalize() transforms the site line widths to exciton
# widths with the eigenvector matrix transposed (abs(SS[ii,nn])**4 instead of
# abs(SS[nn,ii])**4).  "Exciton ii" thereby inherits the participation of
# "site ii", so the widths used by MockAbsSpectrumCalculator depend on the
# order in which the molecules were added: the absorption spectrum changes
# under a mere relabelling of the molecules.
import sys
import warnings
warnings.filterwarnings("ignore")
import numpy
import quantarhei as qr
from quantarhei.spectroscopy.mockabscalculator import MockAbsSpectrumCalculator

time = qr.TimeAxis(0.0, 1000, 1.0)
E = [12000.0, 12300.0, 12100.0]
D = [[1.0, 0.0, 0.0], [0.3, 0.8, 0.1], [0.0, 0.5, 1.2]]
J = [(0, 1, 100.0), (1, 2, -60.0)]


def make(order):
    mols = []
    with qr.energy_units("1/cm"):
        for k in order:
            m = qr.Molecule([0.0, E[k]])
            m.set_dipole(0, 1, D[k])
            m.set_transition_width((0, 1), 100.0)   # same width on every site
            mols.append(m)
        agg = qr.Aggregate(molecules=mols)
        for (i, j, v) in J:
            agg.set_resonance_coupling(order.index(i), order.index(j), v)
    agg.build()
    return agg


def spectrum(agg):
    calc = MockAbsSpectrumCalculator(time, system=agg)
    calc.bootstrap(rwa=qr.convert(12000.0, "1/cm", "int"))
    calc.set_width(qr.convert(100.0, "1/cm", "int"))
    return calc.calculate(raw=True)


res = []
for order in ([0, 1, 2], [2, 0, 1]):
    agg = make(order)
    sp = spectrum(agg)          # bootstrap() diagonalizes the aggregate
    with qr.energy_units("1/cm"):
        en = [agg.convert_energy_2_current_u(agg.HH[a, a]) for a in (1, 2, 3)]
    Wint = qr.convert(100.0, "1/cm", "int")
    # widths of the exciton lines in units of the (common) site width
    wd = [agg.get_transition_width((a, 0))/Wint for a in (1, 2, 3)]
    # what they should be: sum_n |<n|a>|^4  (a = exciton, n = site)
    ee, SS = numpy.linalg.eigh(agg.Hs)
    ref = [sum(abs(SS[n, a])**4 for n in range(1, 4)) for a in (1, 2, 3)]
    bad = [sum(abs(SS[a, n])**4 for n in range(1, 4)) for a in (1, 2, 3)]
    print("order of molecules", order)
    print("   exciton energies [1/cm]      ", numpy.round(en, 2))
    print("   exciton width / site width used   ", numpy.round(wd, 4))
    print("   sum_n |<n|a>|^4 (participation of exciton a)", numpy.round(ref, 4))
    print("   sum_n |<a|n>|^4 with a read as SITE index   ", numpy.round(bad, 4))
    res.append(sp)

dev = numpy.max(numpy.abs(res[0].data-res[1].data))/numpy.max(res[0].data)
print("max|difference of the two spectra|/max = %.3e" % dev)
print("required: the spectrum is unchanged by relabelling of the molecules"
      " (difference at round-off level)")
if dev > 1.0e-8:
    print("VIOLATION")
    sys.exit(1)
print("no violation")
