# -*- coding: utf-8 -*-
"""C07 finding 1

The time-dependent Redfield tensor in OPERATOR form is not basis managed:
TDRedfieldRelaxationTensor overrides the managed properties Km, Lm, Ld of its
parent by plain class attributes (``Lm = None; Ld = None; Km = None``).
Reading them inside ``with eigenbasis_of(...)`` therefore never brings them
to the basis of the context, while the Hamiltonian and the density matrix are
transformed.  Propagation inside a basis context gives different dynamics
than outside, and than the four-index form; convert_2_tensor() called inside
a context produces a wrong tensor.

Run:  cd /tmp && PYTHONPATH=/tmp/w5_C07 /venv/bin/python /tmp/w5_C07/finding_1.py
"""
import sys, io, contextlib
import numpy
import quantarhei as qr
from quantarhei import ReducedDensityMatrix, ReducedDensityMatrixPropagator


def quiet(f, *a, **k):
    with contextlib.redirect_stdout(io.StringIO()):
        return f(*a, **k)


def mx(a):
    return numpy.max(numpy.abs(a))


time = qr.TimeAxis(0.0, 1000, 1.0)
with qr.energy_units("1/cm"):
    m1 = qr.Molecule([0.0, 12000.0])
    m2 = qr.Molecule([0.0, 12100.0])
    m3 = qr.Molecule([0.0, 12300.0])
    cf = qr.CorrelationFunction(time, dict(ftype="OverdampedBrownian",
                                reorg=30.0, T=300.0, cortime=100.0))
for m in (m1, m2, m3):
    m.set_transition_environment((0, 1), cf)
agg = qr.Aggregate([m1, m2, m3])
with qr.energy_units("1/cm"):
    agg.set_resonance_coupling(0, 1, 80.0)
    agg.set_resonance_coupling(1, 2, 50.0)
agg.build()

# public API: the same tensor in the two forms
TO, ham = agg.get_RelaxationTensor(time, relaxation_theory="stR",
                                   time_dependent=True, as_operators=True)
TT, ham = agg.get_RelaxationTensor(time, relaxation_theory="stR",
                                   time_dependent=True, as_operators=False)

rho = ReducedDensityMatrix(dim=ham.dim)
rho.data[2, 2] = 1.0

tp = qr.TimeAxis(0.0, 300, 1.0)
pO = ReducedDensityMatrixPropagator(tp, ham, TO)
pT = ReducedDensityMatrixPropagator(tp, ham, TT)

# outside of any basis context
eO = quiet(pO.propagate, rho)
eT = quiet(pT.propagate, rho)
d_out = mx(eO.data - eT.data)

# the same two calls inside the eigenbasis of the Hamiltonian
with qr.eigenbasis_of(ham):
    eO_in = quiet(pO.propagate, rho)
    eT_in = quiet(pT.propagate, rho)
# (results are compared after the context has been left, i.e. in site basis)
d_in = mx(eO_in.data - eT_in.data)
d_op = mx(eO_in.data - eO.data)
d_te = mx(eT_in.data - eT.data)

print("operator form vs tensor form, propagated outside a context : %.3e" % d_out)
print("operator form vs tensor form, propagated inside  a context : %.3e" % d_in)
print("tensor   form inside vs outside                            : %.3e" % d_te)
print("operator form inside vs outside                            : %.3e" % d_op)
print("population of site 2 at t = 299 fs: outside %.4f, inside (operator form)"
      " %.4f, inside (tensor form) %.4f" % (numpy.real(eO.data[-1, 2, 2]),
      numpy.real(eO_in.data[-1, 2, 2]), numpy.real(eT_in.data[-1, 2, 2])))

# conversion of the operator form inside a context
with qr.eigenbasis_of(ham):
    TO.convert_2_tensor()
d_conv = mx(TO.data - TT.data)
print("convert_2_tensor() inside a context, converted vs four-index form: %.3e"
      " (largest element %.3e)" % (d_conv, mx(TT.data)))

print("REQUIRED: all differences at the level of rounding errors (< 1e-10)")
if max(d_in, d_op, d_conv) > 1.0e-8:
    print("VIOLATION")
    sys.exit(1)
print("ok")
