# -*- coding: utf-8 -*-
"""C07 finding 5

Propagation with the time-dependent Redfield tensor in FOUR-INDEX form
(ReducedDensityMatrixPropagator.__propagate_short_exp_with_TD_relaxation and
its two field variants) derives its time step from the ROUNDED ratio of the
propagation step and the step of the tensor:

        Nref_max = round(self.TimeAxis.step/sysstep)
        stride   = Nref_max//Nref_req
        dt       = sysstep*stride

 * propagation step 0.5 fs, tensor known in steps of 1 fs: Nref_max = 0,
   stride = 0, dt = 0 - nothing is propagated at all (not even the
   Hamiltonian part), the initial state is returned for all times;
 * propagation step 1.5 fs: Nref_max = 2, dt = 2 fs - time runs 4/3 times
   too fast.
No exception is raised (the test "Nref_max % Nref_req == 0" passes).
For uncoupled sites the result must be exp(-i w t - g(t)) up to the time-step
error.

Run:  cd /tmp && PYTHONPATH=/tmp/w5_C07 /venv/bin/python -W ignore /tmp/w5_C07/finding_5.py
"""
import sys, io, contextlib
import numpy
import quantarhei as qr
from quantarhei import ReducedDensityMatrix, ReducedDensityMatrixPropagator
from quantarhei.qm.corfunctions.correlationfunctions import c2g


def quiet(f, *a, **k):
    with contextlib.redirect_stdout(io.StringIO()):
        return f(*a, **k)


def mx(a):
    return numpy.max(numpy.abs(a))


time = qr.TimeAxis(0.0, 1000, 1.0)         # tensor known in steps of 1 fs
with qr.energy_units("1/cm"):
    m1 = qr.Molecule([0.0, 12000.0])
    m2 = qr.Molecule([0.0, 12100.0])
    cf = qr.CorrelationFunction(time, dict(ftype="OverdampedBrownian",
                                reorg=30.0, T=300.0, cortime=100.0))
m1.set_transition_environment((0, 1), cf)
m2.set_transition_environment((0, 1), cf)
agg = qr.Aggregate([m1, m2])               # uncoupled sites
agg.build()
TT, ham = agg.get_RelaxationTensor(time, relaxation_theory="stR",
                                   time_dependent=True, as_operators=False)
rho = ReducedDensityMatrix(dim=ham.dim)
rho.data[:, :] = 1.0/3.0

gfull = c2g(time, cf.data)
with qr.energy_units("int"):
    E = numpy.diag(ham.data).copy()

bad = False
for step, nt in ((1.0, 300), (0.5, 600), (1.5, 200)):
    tp = qr.TimeAxis(0.0, nt, step)
    ev = quiet(ReducedDensityMatrixPropagator(tp, ham, TT).propagate, rho)
    moved = mx(ev.data - ev.data[0])     # in the rotating frame
    ev.convert_from_RWA(ham)
    g = numpy.interp(tp.data, time.data, gfull.real) \
        + 1j*numpy.interp(tp.data, time.data, gfull.imag)
    ana = (1.0/3.0)*numpy.exp(-1j*(E[1]-E[2])*tp.data - g - numpy.conj(g))
    err = mx(ev.data[:, 1, 2] - ana)
    print("propagation step %.1f fs: max|rho_12(t) - analytic| = %.3e ;"
          " |rho_12| at t=%.0f fs: %.4f (analytic %.4f) ; "
          "max|rho(t)-rho(0)| = %.2e"
          % (step, err, tp.data[-1], abs(ev.data[-1, 1, 2]), abs(ana[-1]),
             moved))
    if err > 2.0e-2:
        bad = True

print("REQUIRED: the analytic pure-dephasing solution up to the time-step "
      "error (about 3e-3 here), or a refusal of the incompatible time axes")
if bad:
    print("VIOLATION")
    sys.exit(1)
print("ok")
