# -*- coding: utf-8 -*-
"""C07 finding 4

A tensor in explicit four-index form (SuperOperator(data=...)) keeps the very
array handed to it and SuperOperator.transform() writes the transformed
elements back INTO this array, element block by element block:

 (a) if the array holds whole numbers (integer dtype) the transformed elements
     are truncated to integers: inside a basis context the four-index form
     acts differently from the operator (Lindblad) form of the same tensor,
     and it is still wrong after the context is left (and the caller's array
     has been overwritten);
 (b) two SuperOperators built on the same array (or one built on the .data of
     an existing relaxation tensor) are both transformed through the shared
     array - the array is transformed twice and the second object is wrong.

Run:  cd /tmp && PYTHONPATH=/tmp/w5_C07 /venv/bin/python -W ignore /tmp/w5_C07/finding_4.py
"""
import sys, io, contextlib
import numpy
import quantarhei as qr
from quantarhei.qm import LindbladForm, SuperOperator, RedfieldRelaxationTensor
from quantarhei.qm import SystemBathInteraction, Operator, ProjectionOperator
from quantarhei.qm.corfunctions import CorrelationFunctionMatrix


def quiet(f, *a, **k):
    with contextlib.redirect_stdout(io.StringIO()):
        return f(*a, **k)


def mx(a):
    return numpy.max(numpy.abs(a))


bad = False

# ---------------------------------------------------------------------- (a)
H = qr.Hamiltonian(data=[[0.0, 0.3], [0.3, 1.0]])
K = ProjectionOperator(0, 1, dim=2)                  # |0><1|
sbi = SystemBathInteraction([K], rates=(2.0,))       # rate 2/fs
LO = LindbladForm(H, sbi, as_operators=True)         # operator form

# the same Lindblad tensor written down explicitly; all elements are integers
k = numpy.array([[0, 1], [0, 0]])
kk = k.T @ k
D = numpy.zeros((2, 2, 2, 2), dtype=int)
for a in range(2):
    for b in range(2):
        for c in range(2):
            for d in range(2):
                D[a, b, c, d] = 2*k[a, c]*k[b, d]
                if b == d:
                    D[a, b, c, d] -= kk[a, c]
                if a == c:
                    D[a, b, c, d] -= kk[d, b]
D0 = D.copy()
ST = SuperOperator(data=D)                           # four-index form
rho = Operator(data=numpy.array([[0.2, 0.1+0.3j], [0.1-0.3j, 0.8]]))

d_out = mx(ST.apply(rho).data - quiet(LO.apply, rho).data)
with qr.eigenbasis_of(H):
    x = ST.apply(rho)
    y = quiet(LO.apply, rho)
    d_in = mx(x.data - y.data)
d_after = mx(ST.apply(rho).data - quiet(LO.apply, rho).data)
print("(a) Lindblad tensor given as whole-number four-index array")
print("    four-index vs operator form before the context : %.2e" % d_out)
print("    four-index vs operator form inside the context : %.2e" % d_in)
print("    four-index vs operator form after  the context : %.2e" % d_after)
print("    array handed in by the caller changed by       : %.2e" % mx(D - D0))
if max(d_in, d_after) > 1.0e-8:
    bad = True

# ---------------------------------------------------------------------- (b)
N = 3
time = qr.TimeAxis(0.0, 1000, 1.0)
with qr.energy_units("1/cm"):
    cf = qr.CorrelationFunction(time, dict(ftype="OverdampedBrownian",
                                reorg=30.0, T=300.0, cortime=100.0))
    H3 = qr.Hamiltonian(data=[[0.0, 100.0, 0.0],
                              [100.0, 50.0, 100.0],
                              [0.0, 100.0, 100.0]])
cm = CorrelationFunctionMatrix(time, N, 1)
cm.set_correlation_function(cf, [(0, 0), (1, 1), (2, 2)])
ops = []
for i in range(N):
    Kd = numpy.zeros((N, N))
    Kd[i, i] = 1.0
    ops.append(Operator(data=Kd))
sbi3 = SystemBathInteraction(ops, cm)
H3.protect_basis()
with qr.eigenbasis_of(H3):
    RT = RedfieldRelaxationTensor(H3, sbi3)
    RO = RedfieldRelaxationTensor(H3, sbi3, as_operators=True)
H3.unprotect_basis()

S2 = SuperOperator(data=RT.data)     # explicit four-index copy of the tensor
A = Operator(data=numpy.random.default_rng(0).normal(size=(N, N)))
ref = quiet(RO.apply, A).data.copy()
print("(b) SuperOperator(data=RT.data) next to the Redfield tensor RT")
print("    before the context: RT %.2e, S2 %.2e (vs operator form)"
      % (mx(RT.apply(A).data - ref), mx(S2.apply(A).data - ref)))
with qr.eigenbasis_of(H3):
    x1 = RT.apply(A)
    x2 = S2.apply(A)
    x0 = quiet(RO.apply, A)
    print("    inside the context: RT %.2e, S2 %.2e (vs operator form, "
          "size %.1e)" % (mx(x1.data-x0.data), mx(x2.data-x0.data), mx(x0.data)))
    if mx(x2.data-x0.data) > 1.0e-8 or mx(x1.data-x0.data) > 1.0e-8:
        bad = True

print("REQUIRED: all differences at the level of rounding errors, caller's "
      "array untouched")
if bad:
    print("VIOLATION")
    sys.exit(1)
print("ok")
