# -*- coding: utf-8 -*-
"""C07 finding 3

Operator form of Redfield tensor and Lindblad form keeps its operators
K_m (and for Lindblad also Lambda_m) in REAL arrays, transforms them IN PLACE
(so the imaginary parts are thrown away) and takes K_m^dagger as the plain
transpose of K_m.  In a basis with complex transformation matrix (eigenbasis
of a complex Hermitian operator) the operator form therefore acts differently
from the four-index form - and it stays damaged after the context is left.
The same real-typed storage makes the Redfield tensor of a complex Hermitian
Hamiltonian wrong (both forms) and the two forms disagree outside the
eigenbasis.

Run:  cd /tmp && PYTHONPATH=/tmp/w5_C07 /venv/bin/python -W ignore /tmp/w5_C07/finding_3.py
"""
import sys, io, contextlib
import numpy
import scipy.interpolate
import quantarhei as qr
from quantarhei.qm import RedfieldRelaxationTensor, LindbladForm
from quantarhei.qm import SystemBathInteraction, Operator
from quantarhei.qm import ProjectionOperator, SelfAdjointOperator
from quantarhei.qm.corfunctions import CorrelationFunctionMatrix
from quantarhei import ReducedDensityMatrix, ReducedDensityMatrixPropagator


def quiet(f, *a, **k):
    with contextlib.redirect_stdout(io.StringIO()):
        return f(*a, **k)


def mx(a):
    return numpy.max(numpy.abs(a))


N = 3
time = qr.TimeAxis(0.0, 1000, 1.0)
with qr.energy_units("1/cm"):
    cf = qr.CorrelationFunction(time, dict(ftype="OverdampedBrownian",
                                reorg=30.0, T=300.0, cortime=100.0))
    H = qr.Hamiltonian(data=[[0.0, 100.0, 0.0],
                             [100.0, 50.0, 100.0],
                             [0.0, 100.0, 100.0]])
cm = CorrelationFunctionMatrix(time, N, 1)
cm.set_correlation_function(cf, [(0, 0), (1, 1), (2, 2)])
ops = []
for i in range(N):
    K = numpy.zeros((N, N))
    K[i, i] = 1.0
    ops.append(Operator(data=K))
sbi = SystemBathInteraction(ops, cm)

H.protect_basis()
with qr.eigenbasis_of(H):
    RO = RedfieldRelaxationTensor(H, sbi, as_operators=True)
    RT = RedfieldRelaxationTensor(H, sbi, as_operators=False)
H.unprotect_basis()

sbiL = SystemBathInteraction([ProjectionOperator(0, 1, dim=N),
                              ProjectionOperator(1, 2, dim=N)],
                             rates=(1.0/100.0, 1.0/50.0))
LO = LindbladForm(H, sbiL, as_operators=True)
LT = LindbladForm(H, sbiL, as_operators=False)

rng = numpy.random.default_rng(1)
A = Operator(data=rng.normal(size=(N, N)) + 1j*rng.normal(size=(N, N)))

# a complex Hermitian operator defining the basis (e.g. a current operator)
B = SelfAdjointOperator(data=numpy.array([[1.0,  1.0j,       0.3],
                                          [-1.0j, 2.0,       0.5-0.2j],
                                          [0.3,   0.5+0.2j, -1.0]]))
bad = False
for name, FO, FT in (("Redfield", RO, RT), ("Lindblad", LO, LT)):
    ref = FT.apply(A).data.copy()
    d0 = mx(quiet(FO.apply, A).data - ref)
    with qr.eigenbasis_of(B):
        x = quiet(FO.apply, A)
        y = FT.apply(A)
        d_in = mx(x.data - y.data)
    # x, y are back in the original basis now
    d_te = mx(y.data - ref)
    d_op = mx(x.data - ref)
    d_after = mx(quiet(FO.apply, A).data - ref)
    print("%s: operator form vs four-index form (size of result %.1e)"
          % (name, mx(ref)))
    print("    before the context                         : %.2e" % d0)
    print("    inside eigenbasis_of(complex Hermitian op) : %.2e" % d_in)
    print("    four-index result brought back vs reference: %.2e" % d_te)
    print("    operator   result brought back vs reference: %.2e" % d_op)
    print("    operator form applied AFTER the context    : %.2e" % d_after)
    if max(d_in, d_op, d_after) > 1.0e-8:
        bad = True

# dynamics
LO = LindbladForm(H, sbiL, as_operators=True)
rho = ReducedDensityMatrix(data=[[0.0, 0, 0], [0, 0.5, 0.5], [0, 0.5, 0.5]])
tp = qr.TimeAxis(0.0, 300, 1.0)
with qr.eigenbasis_of(B):
    eO = quiet(ReducedDensityMatrixPropagator(tp, H, LO).propagate, rho)
    eT = quiet(ReducedDensityMatrixPropagator(tp, H, LT).propagate, rho)
dd = mx(eO.data - eT.data)
print("Lindblad dynamics propagated inside the complex basis, operator vs "
      "four-index form: %.2e" % dd)
print("    trace of rho(299 fs): operator form %.4f, four-index form %.4f"
      % (numpy.real(numpy.trace(eO.data[-1])), numpy.real(numpy.trace(eT.data[-1]))))
if dd > 1.0e-8:
    bad = True

# ------------------------------------------------ complex Hermitian Hamiltonian
J = 100.0
phi = 0.7      # flux through the ring: cannot be removed by a gauge change
with qr.energy_units("1/cm"):
    Hc = qr.Hamiltonian(data=numpy.array(
        [[0.0, J*numpy.exp(1j*phi), J],
         [J*numpy.exp(-1j*phi), 50.0, J],
         [J, J, 100.0]]))
Hc.protect_basis()
with qr.eigenbasis_of(Hc):
    RO = RedfieldRelaxationTensor(Hc, sbi, as_operators=True)
    RT = RedfieldRelaxationTensor(Hc, sbi, as_operators=False)
Hc.unprotect_basis()
Ar = Operator(data=rng.normal(size=(N, N)))
x = quiet(RO.apply, Ar).data
y = RT.apply(Ar).data
# Redfield by the same formulae, with complex K_m
with qr.energy_units("int"):
    hh = Hc.data.copy()
hD, SS = numpy.linalg.eigh(hh)
S1 = numpy.conj(SS.T)
tm = time.data
rr = S1 @ Ar.data @ SS
res = numpy.zeros((N, N), dtype=complex)
for m in range(N):
    K = S1 @ sbi.KK[m] @ SS
    L = numpy.zeros((N, N), dtype=complex)
    c = sbi.CC.get_coft(m, m)
    for a in range(N):
        for b in range(N):
            rc = c*numpy.exp(-1j*(hD[a]-hD[b])*tm)
            sr = scipy.interpolate.UnivariateSpline(tm, rc.real, s=0).antiderivative()(tm)[-1]
            si = scipy.interpolate.UnivariateSpline(tm, rc.imag, s=0).antiderivative()(tm)[-1]
            L[a, b] = (sr + 1j*si)*K[a, b]
    Ld = numpy.conj(L.T)
    Kd = numpy.conj(K.T)
    res += K @ rr @ Ld + L @ rr @ Kd - Kd @ L @ rr - rr @ Ld @ K
res = SS @ res @ S1
print("complex Hermitian Hamiltonian (ring with a flux), site basis, "
      "size of result %.1e" % mx(res))
print("    operator form vs four-index form              : %.2e" % mx(x-y))
print("    four-index form vs Redfield with complex K_m  : %.2e" % mx(y-res))
if mx(x-y) > 1.0e-8:
    bad = True

print("REQUIRED: all differences at the level of rounding errors")
if bad:
    print("VIOLATION")
    sys.exit(1)
print("ok")
