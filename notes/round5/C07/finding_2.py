# -*- coding: utf-8 -*-
"""C07 finding 2

Propagation with the time-dependent Redfield tensor in OPERATOR form
(ReducedDensityMatrixPropagator.__propagate_short_exp_with_TDrel_operators)
takes the operators Lambda_m(t) at the index "number of the propagation step"
instead of at the index of the elapsed time on the time axis of the tensor:

 (a) when the tensor is defined on a finer time axis than the propagation
     (the four-index form handles this case by a stride) the tensor runs
     too slowly, the exact pure-dephasing limit exp(-i w t - g(t)) of
     uncoupled sites is missed by far more than the time-step error and
     the two forms of the same tensor give different dynamics;
 (b) when the propagation axis is longer than the axis of the tensor the
     operator form stops with IndexError, the four-index form keeps the last
     value of the tensor and runs.

Run:  cd /tmp && PYTHONPATH=/tmp/w5_C07 /venv/bin/python /tmp/w5_C07/finding_2.py
"""
import sys, io, contextlib
import numpy
import quantarhei as qr
from quantarhei import ReducedDensityMatrix, ReducedDensityMatrixPropagator
from quantarhei.qm.corfunctions.correlationfunctions import c2g


def quiet(f, *a, **k):
    with contextlib.redirect_stdout(io.StringIO()):
        return f(*a, **k)


def mx(a):
    return numpy.max(numpy.abs(a))


def system(dt, Nt):
    """Two uncoupled two-level molecules with overdamped Brownian baths"""
    time = qr.TimeAxis(0.0, Nt, dt)
    with qr.energy_units("1/cm"):
        m1 = qr.Molecule([0.0, 12000.0])
        m2 = qr.Molecule([0.0, 12100.0])
        cf = qr.CorrelationFunction(time, dict(ftype="OverdampedBrownian",
                                    reorg=30.0, T=300.0, cortime=100.0))
    m1.set_transition_environment((0, 1), cf)
    m2.set_transition_environment((0, 1), cf)
    agg = qr.Aggregate([m1, m2])     # no resonance coupling: uncoupled sites
    agg.build()
    return time, agg, cf


bad = False

# ---------------------------------------------------------------------- (a)
time, agg, cf = system(0.5, 2000)          # tensor known in steps of 0.5 fs
TO, ham = agg.get_RelaxationTensor(time, relaxation_theory="stR",
                                   time_dependent=True, as_operators=True)
TT, ham = agg.get_RelaxationTensor(time, relaxation_theory="stR",
                                   time_dependent=True, as_operators=False)

rho = ReducedDensityMatrix(dim=ham.dim)
rho.data[:, :] = 1.0/3.0                   # all coherences excited

tp = qr.TimeAxis(0.0, 250, 2.0)            # propagation in steps of 2 fs
g = c2g(time, cf.data)[::4][:tp.length]    # lineshape function on tp
with qr.energy_units("int"):
    E = numpy.diag(ham.data).copy()
# analytic coherence between the excited states of molecule 1 and 2
ana12 = (1.0/3.0)*numpy.exp(-1j*(E[1]-E[2])*tp.data - g - numpy.conj(g))

print("(a) tensor on a 0.5 fs grid, propagation on a 2 fs grid")
for nref in (1, 2, 4):
    eT = quiet(ReducedDensityMatrixPropagator(tp, ham, TT).propagate, rho,
               Nref=nref)
    eO = quiet(ReducedDensityMatrixPropagator(tp, ham, TO).propagate, rho,
               Nref=nref)
    eT.convert_from_RWA(ham)
    eO.convert_from_RWA(ham)
    errT = mx(eT.data[:, 1, 2] - ana12)
    errO = mx(eO.data[:, 1, 2] - ana12)
    dOT = mx(eO.data - eT.data)
    print("    Nref=%d: |rho_12 - analytic|  four-index form %.2e, "
          "operator form %.2e ; operator vs four-index form %.2e"
          % (nref, errT, errO, dOT))
    if errO > 10*max(errT, 1.0e-3) or dOT > 1.0e-2:
        bad = True
print("    REQUIRED: both forms reproduce exp(-i w t - g(t) - g*(t)) up to "
      "the time-step error and agree with each other")

# ---------------------------------------------------------------------- (b)
time, agg, cf = system(1.0, 500)           # tensor known up to 499 fs
TO, ham = agg.get_RelaxationTensor(time, relaxation_theory="stR",
                                   time_dependent=True, as_operators=True)
TT, ham = agg.get_RelaxationTensor(time, relaxation_theory="stR",
                                   time_dependent=True, as_operators=False)
tp = qr.TimeAxis(0.0, 600, 1.0)            # propagation up to 599 fs
print("(b) tensor known on 0..499 fs, propagation on 0..599 fs")
eT = quiet(ReducedDensityMatrixPropagator(tp, ham, TT).propagate, rho)
print("    four-index form: runs, |rho_12(599 fs)| = %.4e"
      % abs(eT.data[-1, 1, 2]))
try:
    eO = quiet(ReducedDensityMatrixPropagator(tp, ham, TO).propagate, rho)
    print("    operator form: runs, difference %.2e" % mx(eO.data-eT.data))
    if mx(eO.data-eT.data) > 1.0e-8:
        bad = True
except Exception as e:
    print("    operator form: ", repr(e))
    bad = True
print("    REQUIRED: the same dynamics from both forms")

if bad:
    print("VIOLATION")
    sys.exit(1)
print("ok")
