# -*- coding: utf-8 -*-
"""C07 finding 6

Time-dependent Redfield tensor with a cut-off time, four-index form, tensor
known on a finer grid than the propagation grid.  The propagator bounds the
running index of the TENSOR by an index found on the PROPAGATION axis

    cutoff_indx = self.TimeAxis.nearest(self.RelaxationTensor.cutoff_time)
    ...
    indxR = min(indxR + stride, cutoff_indx - 1)

With a tensor step of 0.5 fs, a propagation step of 2 fs and a cut-off of
200 fs the tensor has 400 points but indxR is stopped at 99, i.e. the tensor
is frozen at 49.5 fs instead of at the cut-off time.  The same tensor
propagated on its own 0.5 fs grid is frozen at 199.5 fs, as it should be.
For uncoupled sites the coherence must follow exp(-2 Re g(t)) up to the
cut-off time and decay with the rate 2 Re g'(t_c) afterwards.

Run:  cd /tmp && PYTHONPATH=/tmp/w5_C07 /venv/bin/python -W ignore /tmp/w5_C07/finding_6.py
"""
import sys, io, contextlib
import numpy
import quantarhei as qr
from quantarhei import ReducedDensityMatrix, ReducedDensityMatrixPropagator
from quantarhei.qm.corfunctions.correlationfunctions import c2g, c2h


def quiet(f, *a, **k):
    with contextlib.redirect_stdout(io.StringIO()):
        return f(*a, **k)


def mx(a):
    return numpy.max(numpy.abs(a))


tcut = 200.0
time = qr.TimeAxis(0.0, 2000, 0.5)         # tensor known in steps of 0.5 fs
with qr.energy_units("1/cm"):
    m1 = qr.Molecule([0.0, 12000.0])
    m2 = qr.Molecule([0.0, 12100.0])
    cf = qr.CorrelationFunction(time, dict(ftype="OverdampedBrownian",
                                reorg=3.0, T=300.0, cortime=100.0))
m1.set_transition_environment((0, 1), cf)
m2.set_transition_environment((0, 1), cf)
agg = qr.Aggregate([m1, m2])               # uncoupled sites
agg.build()
TT, ham = agg.get_RelaxationTensor(time, relaxation_theory="stR",
                                   time_dependent=True, as_operators=False,
                                   relaxation_cutoff_time=tcut)
print("cut-off time %.0f fs, tensor stored at %d points with step %.1f fs"
      % (tcut, TT.data.shape[0], time.step))

rho = ReducedDensityMatrix(dim=ham.dim)
rho.data[:, :] = 1.0/3.0

# analytic |rho_12(t)| with the kernel cut at tcut
g = c2g(time, cf.data)
h = c2h(time, cf.data)
ic = time.nearest(tcut)
G = 2.0*numpy.real(g)
G[ic:] = G[ic] + 2.0*numpy.real(h[ic])*(time.data[ic:] - time.data[ic])

tfine = qr.TimeAxis(0.0, 1600, 0.5)
tcoarse = qr.TimeAxis(0.0, 400, 2.0)
ef = quiet(ReducedDensityMatrixPropagator(tfine, ham, TT).propagate, rho)
ana_f = numpy.exp(-G[:1600])/3.0
ana_c = numpy.exp(-G[:1600:4])/3.0
err_f = mx(numpy.abs(ef.data[:, 1, 2]) - ana_f)
print("propagation step 0.5 fs         : max | |rho_12| - analytic | = %.2e ;"
      " |rho_12(798 fs)| = %.4f (analytic %.4f)"
      % (err_f, abs(ef.data[1596, 1, 2]), ana_f[1596]))
bad = False
for nref in (1, 2, 4):
    ec = quiet(ReducedDensityMatrixPropagator(tcoarse, ham, TT).propagate, rho,
               Nref=nref)
    err_c = mx(numpy.abs(ec.data[:, 1, 2]) - ana_c)
    print("propagation step 2 fs, Nref = %d : max | |rho_12| - analytic | = "
          "%.2e ; |rho_12(798 fs)| = %.4f (analytic %.4f)"
          % (nref, err_c, abs(ec.data[399, 1, 2]), ana_c[399]))
    if err_c > 10*max(err_f, 1.0e-3):
        bad = True

print("REQUIRED: the same dynamics on both grids, up to the time-step error")
if bad:
    print("VIOLATION")
    sys.exit(1)
print("ok")
