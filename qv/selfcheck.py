"""setup_cmd: import the engine and run its built-in fixtures (no network, no
writes outside /verif).  A failing fixture means the engine is broken."""
import sys

from . import ta
from .ta import Array, Expr, Facts, a_dot, a_transpose, a_conj, is_zero, NOFACTS


def fixtures():
    K = Array.opaque("K", 2)
    L = Array.opaque("L", 2)
    Kd = a_transpose(K)
    Ld = a_conj(a_transpose(L))
    KdL = a_dot(Kd, L)
    LdK = a_dot(Ld, K)

    def R(a, b, c, d, swap=False):
        ld = Ld.at(b, d) if swap else Ld.at(d, b)
        return (K.at(a, c) * ld + L.at(a, c) * Kd.at(d, b)
                - Expr.delta(b, d) * KdL.at(a, c) - Expr.delta(a, c) * LdK.at(d, b))
    real = Facts(real=["K"])
    assert is_zero(R("x", "x", "c", "d").sum_over("x"), real), "trace identity fixture"
    assert is_zero(R("a", "b", "c", "d").conj() - R("b", "a", "d", "c"), real), "hermiticity fixture"
    assert not is_zero(R("a", "b", "c", "d").conj() - R("b", "a", "d", "c"), NOFACTS), \
        "hermiticity must need real(K)"
    # positive example: the index-swap mutant must be detected
    assert not is_zero(R("x", "x", "c", "d", True).sum_over("x"), real), "mutant must break trace"
    # inverse pair
    S = Array.opaque("S", 2)
    S1 = Array.opaque("S1", 2)
    inv = Facts(inverse=[("S1", "S")])
    A = Array.opaque("A", 2)
    At = a_dot(S1, a_dot(A, S))
    back = a_dot(S, a_dot(At, S1))
    assert is_zero(back.at("i", "j") - A.at("i", "j"), inv), "round trip fixture"
    assert not is_zero(back.at("i", "j") - A.at("i", "j"), NOFACTS)
    return 6


def main():
    n = fixtures()
    from . import loader, ta_front, report, main as _m, selftest  # noqa: F401
    from . import sa, cfg  # noqa: F401
    print("qv selfcheck: %d fixtures ok" % n)
    return 0


if __name__ == "__main__":
    sys.exit(main())
