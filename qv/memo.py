"""Memoised values: what a stored result depends on, and who invalidates it.

A method that keeps its result on `self` and hands the stored value out again on later calls
(`if self._c is None: self._c = compute(); return self._c`, or `if self._c is not None: return self._c`
before the computation) is correct only if the stored value is still what a fresh computation would
give.  The analysis finds the idiom, collects what the computation reads

  * attributes of self (transitively through the methods of self it calls),
  * parameters of the method,
  * the energy units current for the caller (the computation converts to current units, or reads a
    units-converting accessor outside energy_units('int')),
  * the basis current for the caller (the computation reads a basis-managed property),

and demands

  params      every parameter the computation reads takes part in the guard (is a key of the store);
  invalidate  every other method that writes one of the attributes read (assignment, element store,
              in-place operator, in-place mutator call; the raw storage `_x` of a managed property `x`
              counts as `x`) also writes the memo attribute;
  units       a units-dependent stored value is guarded by the current units;
  basis       a basis-dependent stored value is guarded by the current basis (and the in-place
              transformation of the raw storage invalidates it - covered by `invalidate`);
  skip        an early return that skips an update of objects other than self (children held in a
              collection) is sound only if nothing else can change those objects - reported.

A third form is treated like the first two: `if key == self._last: return` followed by effects and
`self._last = key` (an effect skipped because "nothing changed").
"""
import ast

from .loader import norm, walk_no_nested, call_name, parents_map, demangle

MUTATORS = ("append", "extend", "insert", "pop", "remove", "clear", "update", "sort", "fill", "setdefault", "popitem")
SKIP_METHODS = ("__init__", "__setstate__", "__new__")


def _self_attr(n):
    if isinstance(n, ast.Attribute) and isinstance(n.value, ast.Name) and n.value.id == "self":
        return n.attr
    if isinstance(n, ast.Call) and isinstance(n.func, ast.Name) and n.func.id == "getattr" and len(n.args) >= 2 \
            and isinstance(n.args[0], ast.Name) and n.args[0].id == "self" and isinstance(n.args[1], ast.Constant):
        return n.args[1].value
    return None


def attrs_read(node):
    out = set()
    for x in ast.walk(node):
        a = _self_attr(x)
        if a is not None and (not isinstance(x, ast.Attribute) or isinstance(x.ctx, ast.Load)):
            out.add(a)
    return out


def attrs_written(fnode):
    """attributes of self a function writes: {attr: first node}"""
    out = {}
    for n in walk_no_nested(fnode):
        tg = []
        if isinstance(n, ast.Assign):
            tg = n.targets
        elif isinstance(n, (ast.AugAssign, ast.AnnAssign)):
            tg = [n.target]
        elif isinstance(n, ast.Delete):
            tg = n.targets
        for t in tg:
            for x in (t.elts if isinstance(t, (ast.Tuple, ast.List)) else [t]):
                b = x
                while isinstance(b, ast.Subscript):
                    b = b.value
                a = _self_attr(b)
                if a is not None:
                    out.setdefault(a, n)
        if isinstance(n, ast.Call) and isinstance(n.func, ast.Attribute) and n.func.attr in MUTATORS:
            b = n.func.value
            while isinstance(b, ast.Subscript):
                b = b.value
            a = _self_attr(b)
            if a is not None:
                out.setdefault(a, n)
        if isinstance(n, ast.Call) and isinstance(n.func, ast.Name) and n.func.id == "setattr" and len(n.args) >= 2 \
                and isinstance(n.args[0], ast.Name) and n.args[0].id == "self" and isinstance(n.args[1], ast.Constant):
            out.setdefault(n.args[1].value, n)
    return out


class Memo:
    def __init__(self, func, attr, guard, region, kind, returns_stored):
        self.func, self.attr, self.guard, self.region, self.kind = func, attr, guard, region, kind
        self.returns_stored = returns_stored
        self.key_attrs = set()

    def __repr__(self):
        return "<Memo %s.%s %s>" % (self.func.short, self.attr, self.kind)


def _class_methods(prog, cls):
    methods = {}
    for b in reversed([x for x in prog.mro(cls) if x is not None]):
        for nme, fn in b.methods.items():
            methods[nme] = fn
    return methods


def find_memos(prog, cls, own_only=True, block_switch=False):
    out = []
    for nme, fn in cls.methods.items():
        if nme in SKIP_METHODS:
            continue
        body = list(fn.node.body)
        written = attrs_written(fn.node)
        pm = parents_map(fn.node)
        # "nothing to do" guards: `if <flags of self>: return` before work done by helper methods which set the flags
        methods_all = _class_methods(prog, cls)
        for iff in [n for n in fn.node.body if isinstance(n, ast.If)]:
            if not (len(iff.body) == 1 and isinstance(iff.body[0], ast.Return) and iff.body[0].value is None and not iff.orelse):
                continue
            tested = attrs_read(iff.test)
            if not tested or tested & set(written):
                continue
            region = fn.node.body[fn.node.body.index(iff) + 1:]
            deep = _transitive_writes(methods_all, fn, region)
            hit = sorted(tested & set(deep))
            if hit and any(not isinstance(deep[c], ast.Constant) or deep[c].value is not False for c in hit):
                m_ = Memo(fn, hit[0], iff, region, "effect-skip", False)
                m_.flag_attrs = set(hit)
                out.append(m_)
        # (D) "done already" switch: `if self.F: return` at the top, the work below transforms the state of self and
        # ends by setting self.F = True.  Whoever rebuilds the state the work starts from has to clear the switch.
        for iff in [n for n in fn.node.body if isinstance(n, ast.If)]:
            if not (len(iff.body) == 1 and isinstance(iff.body[0], ast.Return) and iff.body[0].value is None and not iff.orelse):
                continue
            t_ = iff.test
            flag = _self_attr(t_)
            if flag is None or flag not in written:
                continue
            sets = [n for n in walk_no_nested(fn.node) if isinstance(n, ast.Assign) and any(_self_attr(x) == flag for x in n.targets)]
            if sets and all(isinstance(n.value, ast.Constant) and n.value.value is True for n in sets):
                region = fn.node.body[fn.node.body.index(iff) + 1:]
                m_ = Memo(fn, flag, iff, region, "effect-skip", False)
                m_.flag_attrs = {flag}
                m_.switch = True
                out.append(m_)
        # (D') the same switch written as a block: `if not self.F: <work>; self.F = True` (the assignment is the last
        # statement of the block, every assignment of the flag in the method is the constant True)
        # (opt-in: a flag that describes the representation of the data - 'is in the rotating frame' - has the same shape
        # and is kept in step by the methods that recalculate; the caller says which flag is a 'done already' mark)
        for iff in [n for n in walk_no_nested(fn.node) if isinstance(n, ast.If) and block_switch]:
            t_ = iff.test
            if not (isinstance(t_, ast.UnaryOp) and isinstance(t_.op, ast.Not)) or iff.orelse or len(iff.body) < 2:
                continue
            flag = _self_attr(t_.operand)
            last = iff.body[-1]
            if flag is None or not (isinstance(last, ast.Assign) and any(_self_attr(x) == flag for x in last.targets)
                                    and isinstance(last.value, ast.Constant) and last.value.value is True):
                continue
            sets = [n for n in walk_no_nested(fn.node) if isinstance(n, ast.Assign) and any(_self_attr(x) == flag for x in n.targets)]
            if all(isinstance(n.value, ast.Constant) and n.value.value is True for n in sets):
                m_ = Memo(fn, flag, iff, list(iff.body[:-1]), "effect-skip", False)
                m_.flag_attrs = {flag}
                m_.switch = True
                out.append(m_)
        # (E) flag-guarded fill through a helper: `if not self.F: self.helper()` where the helper computes attributes of
        # self and ends with self.F = True; the stored attributes are used afterwards
        for iff in [n for n in walk_no_nested(fn.node) if isinstance(n, ast.If)]:
            t_ = iff.test
            if not (isinstance(t_, ast.UnaryOp) and isinstance(t_.op, ast.Not)):
                continue
            flag = _self_attr(t_.operand)
            if flag is None or iff.orelse or len(iff.body) != 1:
                continue
            c_ = iff.body[0].value if isinstance(iff.body[0], ast.Expr) else None
            if not (isinstance(c_, ast.Call) and isinstance(c_.func, ast.Attribute) and isinstance(c_.func.value, ast.Name)
                    and c_.func.value.id == "self"):
                continue
            helper = methods_all.get(demangle(fn, c_.func.attr))
            if helper is None:
                continue
            hw = attrs_written(helper.node)
            hsets = [n for n in walk_no_nested(helper.node) if isinstance(n, ast.Assign) and any(_self_attr(x) == flag for x in n.targets)]
            computed = [a for a, node in hw.items() if a != flag and isinstance(node, ast.Assign) and not isinstance(node.value, ast.Constant)]
            if hsets and all(isinstance(n.value, ast.Constant) and n.value.value is True for n in hsets) and computed:
                m_ = Memo(fn, flag, iff, list(helper.node.body), "lazy-fill", True)
                m_.flag_attrs = {flag}
                m_.helper = helper
                m_.stored = set(computed)
                out.append(m_)
        # (F) a fill guarded through a relay flag: `if self.F: ...; G = True  else: G = False`, later `if not G: <compute
        # self.X>; self.F = True`.  F says 'X is there' both for an X the user supplied and for one this method derived from
        # other inputs; after the first call the derived X is taken for a supplied one and never derived again.
        for iff in [n for n in walk_no_nested(fn.node) if isinstance(n, ast.If)]:
            flag = _self_attr(iff.test)
            if flag is None or not iff.orelse:
                continue

            def relay_sets(stmts, val):
                r = set()
                for st_ in stmts:
                    for x_ in ast.walk(st_):
                        if isinstance(x_, ast.Assign) and isinstance(x_.value, ast.Constant) and x_.value.value is val:
                            for t_ in x_.targets:
                                r.add(_self_attr(t_) and "self." + _self_attr(t_) or (t_.id if isinstance(t_, ast.Name) else None))
                return r - {None}
            relays = relay_sets(iff.body, True) & relay_sets(iff.orelse, False)
            relays.discard("self." + flag)
            blk = _block_of(pm, iff)
            if not relays or blk is None:
                continue
            for iff2 in blk[blk.index(iff) + 1:]:
                if not (isinstance(iff2, ast.If) and isinstance(iff2.test, ast.UnaryOp) and isinstance(iff2.test.op, ast.Not)):
                    continue
                g_ = iff2.test.operand
                gname = ("self." + _self_attr(g_)) if _self_attr(g_) else (g_.id if isinstance(g_, ast.Name) else None)
                if gname not in relays:
                    continue
                sets_flag = [x_ for st_ in iff2.body for x_ in ast.walk(st_) if isinstance(x_, ast.Assign)
                             and any(_self_attr(t_) == flag for t_ in x_.targets)
                             and isinstance(x_.value, ast.Constant) and x_.value.value is True]
                stored = [a for a, node in attrs_written(ast.Module(body=list(iff2.body), type_ignores=[])).items()
                          if a != flag and ("self." + a) not in relays and isinstance(node, ast.Assign)
                          and not isinstance(node.value, ast.Constant)]
                if sets_flag and stored:
                    m_ = Memo(fn, stored[0], iff, list(iff2.body), "lazy-fill", True)
                    m_.flag_attrs = {flag} | {r_[5:] for r_ in relays if r_.startswith("self.")}
                    m_.stored = set(stored)
                    m_.relay = True
                    out.append(m_)
        if not written:
            continue
        for iff in [n for n in walk_no_nested(fn.node) if isinstance(n, ast.If)]:
            tested = attrs_read(iff.test)
            for c in sorted(tested & set(written)):
                stores = [n for n in walk_no_nested(fn.node) if isinstance(n, (ast.Assign, ast.AugAssign))
                          and any(_self_attr(_base(t)) == c for t in (n.targets if isinstance(n, ast.Assign) else [n.target]))]
                if not stores:
                    continue
                # the stored value is a computed one (not a constant flag)
                vals = [s.value for s in stores]
                computed = [v for v in vals if not isinstance(v, ast.Constant)]
                in_body = [s for s in stores if _inside(pm, s, iff, "body")]
                early = [r for r in iff.body if isinstance(r, ast.Return)] and not iff.orelse
                if in_body and computed:
                    # (A) lazy fill: the store lies in the body of the guard
                    region = list(iff.body)
                    # the stored value is handed out or used after the guard without being recomputed
                    fparams = {a.arg for a in fn.node.args.args + fn.node.args.kwonlyargs}
                    # "remember the first argument and compare later ones with it" stores a parameter, not a result
                    if all(isinstance(s_.value, ast.Name) and s_.value.id in fparams for s_ in in_body):
                        continue
                    ret = []
                    for x in walk_no_nested(fn.node):
                        if _self_attr(x) == c and (not isinstance(x, ast.Attribute) or isinstance(x.ctx, ast.Load)) \
                                and getattr(x, "lineno", 0) > iff.body[-1].end_lineno:
                            # the base of an element store / in-place update is a write, not a use of the stored result
                            p_ = pm.get(x)
                            while isinstance(p_, ast.Subscript):
                                x, p_ = p_, pm.get(p_)
                            if isinstance(p_, (ast.Assign, ast.AugAssign)) and any(
                                    t_ is x for t_ in (p_.targets if isinstance(p_, ast.Assign) else [p_.target])):
                                continue
                            ret.append(x)
                    # a memo hands the stored value out; "allocate on first use" and "initialise or accumulate"
                    # (an else branch that updates the attribute) are not memos
                    else_updates = any(c in attrs_written(ast.Module(body=[s_], type_ignores=[])) for s_ in iff.orelse)
                    if ret and not else_updates:
                        out.append(Memo(fn, c, iff, region, "lazy-fill", True))
                elif early and computed and all(s.lineno > iff.lineno for s in stores):
                    # (B)/(C): early return when the memo is valid; computation / effects follow
                    blk = _block_of(pm, iff)
                    if blk is None:
                        continue
                    region = blk[blk.index(iff) + 1:]
                    rets = [r for r in iff.body if isinstance(r, ast.Return)]
                    returns_stored = any(r.value is not None and c in attrs_read(r.value) for r in rets)
                    kind = "early-return" if returns_stored else "effect-skip"
                    out.append(Memo(fn, c, iff, region, kind, returns_stored))
    # one memo per (function, attribute)
    uniq = {}
    for m in out:
        uniq.setdefault((m.func.qualname, m.attr), m)
    return list(uniq.values())


def _transitive_writes(methods, fn, stmts, depth=3):
    """{attribute: value node of a store} for the stores done by the statements and by the methods of self they
    call (to the given depth)"""
    out = {}
    seen = set()

    def scan(nodes, f, d):
        for st in nodes:
            for n in ast.walk(st):
                if isinstance(n, ast.Assign):
                    for t in n.targets:
                        a = _self_attr(_base(t))
                        if a is not None:
                            out.setdefault(a, n.value)
                if isinstance(n, ast.Call) and isinstance(n.func, ast.Attribute) and isinstance(n.func.value, ast.Name) \
                        and n.func.value.id == "self" and d > 0:
                    tgt = demangle(f, n.func.attr)
                    if tgt in methods and tgt not in seen:
                        seen.add(tgt)
                        scan(methods[tgt].node.body, methods[tgt], d - 1)
    scan(stmts, fn, depth)
    return out


def _base(t):
    while isinstance(t, ast.Subscript):
        t = t.value
    return t


def _inside(pm, node, iff, field):
    child, p = node, pm.get(node)
    while p is not None:
        if p is iff:
            return any(child is s for s in getattr(iff, field))
        child, p = p, pm.get(p)
    return False


def _block_of(pm, st):
    p = pm.get(st)
    for fld in ("body", "orelse", "finalbody"):
        b = getattr(p, fld, None)
        if isinstance(b, list) and st in b:
            return b
    return None


def region_inputs(prog, cls, memo, depth=3):
    """(attributes of self, parameters, units-dependent?, basis-dependent?) read by the compute region"""
    from . import unitflow
    methods = _class_methods(prog, cls)
    attrs, params = set(), set()
    fparams = {a.arg for a in memo.func.node.args.args + memo.func.node.args.kwonlyargs} - {"self"}
    units = basis = False
    seen = set()
    getters = unitflow.converting_getters(prog)
    managed_u = unitflow.converted_attributes(prog, cls)
    managed_b = basis_managed_attributes(prog, cls)

    def scan(stmts, fn, d, top):
        nonlocal units, basis
        pm = parents_map(fn.node)
        for st in stmts:
            for x in ast.walk(st):
                a = _self_attr(x)
                if a is not None and (not isinstance(x, ast.Attribute) or isinstance(x.ctx, ast.Load)):
                    if a in methods and not isinstance(methods[a].node, ast.FunctionDef):
                        continue
                    # the base of a plain element store is written, not read
                    y_, p_ = x, pm.get(x)
                    while isinstance(p_, ast.Subscript) and p_.value is y_:
                        y_, p_ = p_, pm.get(p_)
                    if y_ is not x and isinstance(p_, ast.Assign) and any(t_ is y_ for t_ in p_.targets):
                        continue
                    attrs.add(a)
                    if a in managed_u and not unitflow.in_int_context(pm, x):
                        units = True
                    if a in managed_b:
                        basis = True
                # a units-managed property of a held axis object (a frequency axis converts its points, start and step to
                # the current units on every read)
                if isinstance(x, ast.Attribute) and isinstance(x.ctx, ast.Load) and x.attr in ("data", "start", "step", "min", "max") \
                        and isinstance(x.value, ast.Attribute) and _self_attr(x.value) is not None \
                        and "axis" in x.value.attr.lower() and not unitflow.in_int_context(pm, x):
                    units = True
                if top and isinstance(x, ast.Name) and isinstance(x.ctx, ast.Load) and x.id in fparams:
                    params.add(x.id)
                if isinstance(x, ast.Call):
                    nm = call_name(x) or ""
                    if nm.endswith("2_current_u") or (isinstance(x.func, ast.Attribute) and nm in getters
                                                       and not unitflow.in_int_context(pm, x)):
                        units = True
                    if isinstance(x.func, ast.Attribute) and isinstance(x.func.value, ast.Name) and x.func.value.id == "self":
                        tgt = demangle(fn, x.func.attr)
                        if tgt in methods and tgt not in seen and d > 0:
                            seen.add(tgt)
                            scan(methods[tgt].node.body, methods[tgt], d - 1, False)
    scan(memo.region, getattr(memo, "helper", None) or memo.func, depth, getattr(memo, "helper", None) is None)
    if memo.kind == "lazy-fill" and getattr(memo, "helper", None) is None:
        # locals computed before the guard feed the computation: backward slice over the names the region loads
        need = {x.id for st in memo.region for x in ast.walk(st) if isinstance(x, ast.Name) and isinstance(x.ctx, ast.Load)}
        pre = [st for st in walk_no_nested(memo.func.node) if isinstance(st, (ast.Assign, ast.AugAssign))
               and getattr(st, "lineno", 0) < memo.guard.lineno]
        changed = True
        chosen = []
        while changed:
            changed = False
            for st in pre:
                if st in chosen:
                    continue
                tg = st.targets if isinstance(st, ast.Assign) else [st.target]
                names = {x.id for t in tg for x in ast.walk(t) if isinstance(x, ast.Name)}
                if names & need:
                    chosen.append(st)
                    need |= {x.id for x in ast.walk(st.value) if isinstance(x, ast.Name)}
                    changed = True
        scan(chosen, memo.func, depth, True)
    attrs.discard(memo.attr)
    attrs -= getattr(memo, "flag_attrs", set())
    attrs -= {a for a in attrs if a in methods}
    return attrs, params, units, basis


def basis_managed_attributes(prog, cls):
    out = set()
    for b in prog.mro(cls):
        if b is None:
            continue
        for nme, val in b.attrs.items():
            if isinstance(val, ast.Call) and norm(val.func).split(".")[-1] in (
                    "BasisManagedRealArray", "BasisManagedComplexArray", "ManagedRealArray", "ManagedComplexArray",
                    "basis_managed_array_property", "managed_array_property"):
                out.add(nme)
    return out


def _alias(a):
    """raw storage of a managed property and the property are the same state"""
    return a[1:] if a.startswith("_") and not a.startswith("__") else a


def check_class(run, rid, prog, cls, what, known_ok=(), subclasses=None):
    """obligations for every memo found in the methods the class defines; returns the memos.
    subclasses: names of the subclasses whose methods count as writers (None: all subclasses)"""
    memos = find_memos(prog, cls)
    methods = _class_methods(prog, cls)
    # subclasses may write the inputs too
    for sub in prog.all_classes():
        if subclasses is not None and sub.name not in subclasses:
            continue
        if sub is not cls and cls in [x for x in prog.mro(sub) if x is not None]:
            for nme, fn in sub.methods.items():
                methods.setdefault("%s.%s" % (sub.name, nme), fn)
    for m in memos:
        if (m.func.short, m.attr) in known_ok:
            continue
        prog.consulted.add(m.func.relpath)
        attrs, params, units, basis = region_inputs(prog, cls, m)
        guard_names = {x.id for x in ast.walk(m.guard.test) if isinstance(x, ast.Name)}
        guard_attrs = attrs_read(m.guard.test)
        guard_text = norm(m.guard.test)
        key = "memo:%s" % m.attr
        if m.kind == "effect-skip":
            flags = sorted(getattr(m, "flag_attrs", {m.attr}))
            lead = "%s returns at once when %s (nothing is recomputed)" % (m.func.short, norm(m.guard.test)[:60])
        elif getattr(m, "helper", None) is not None:
            lead = "%s computes %s once (%s, guarded by self.%s) and uses the stored values on later calls" % (
                m.func.short, sorted("self." + a for a in m.stored)[:3], m.helper.short, m.attr)
        else:
            lead = "%s keeps its result in self.%s and hands the stored value out on later calls" % (m.func.short, m.attr)
        # params
        missing = sorted(p for p in params if p not in guard_names)
        run.obligation(rid, m.func.short, not missing, key=key + ":params",
                       message="%s without looking at %s, which the computation reads: a later call with other arguments "
                               "gets the result of the first (%s)" % (lead, missing, what), loc=m.func.loc(m.guard),
                       sample={"memo": m.attr, "kind": m.kind, "parameters_read": sorted(params)})
        # invalidation
        stale = []
        inputs = {_alias(a) for a in attrs} - {_alias(m.attr)} - {_alias(a) for a in guard_attrs if a != m.attr and _is_key(m, a)}
        if getattr(m, "switch", False):
            # a "done already" switch guards a transformation of the object's own state: the state it starts from is what
            # the work both reads and rewrites; whoever rebuilds that state has to clear the switch
            rewritten = {_alias(a) for a in _transitive_writes(methods, m.func, m.region)}
            inputs &= rewritten
        for nme, fn in sorted(methods.items()):
            if fn is m.func or fn.name in SKIP_METHODS:
                continue
            w = dict(attrs_written(fn.node))
            touched = sorted({a for a in w if _alias(a) in inputs})
            if touched:
                # resets done by the methods of self it calls (hooks) count as its own
                for a_, v_ in _transitive_writes(methods, fn, fn.node.body).items():
                    w.setdefault(a_, v_)
            flags = getattr(m, "flag_attrs", set())
            # a writer that also rewrites the stored values keeps them in step with what it changed
            stored = getattr(m, "stored", set())
            if touched and m.attr not in w and not (flags & set(w)) and not (stored & set(w)) \
                    and not any(_is_key(m, k) and k in w for k in guard_attrs):
                stale.append("%s writes self.%s" % (fn.short, touched[0]))
        run.obligation(rid, m.func.short, not stale, key=key + ":invalidate",
                       message="%s; the computation reads %s, and %s without resetting it: the next call returns the "
                               "result for the old state (%s)" % (lead, sorted(inputs)[:6], "; ".join(stale[:4]), what),
                       loc=m.func.loc(m.guard), sample={"memo": m.attr, "inputs": sorted(inputs), "stale_writers": stale[:40]})
        # ambient units
        ok_units = (not units) or ("units" in guard_text)
        run.obligation(rid, m.func.short, ok_units, key=key + ":units",
                       message="%s; the computation converts to (or reads in) the energy units current at the first call, "
                               "and the stored value is used unchanged under any later units context (%s)" % (lead, what),
                       loc=m.func.loc(m.guard), sample={"memo": m.attr, "units_dependent": units})
        # ambient basis
        # every change of basis of a managed object goes through its transform(): a stored value that was computed from
        # basis-managed data is kept in step only if transform() resets (or rewrites) it.  A guard on the basis *id* is
        # not enough - the id is the depth of the context stack, two contexts at the same depth share it.
        ok_basis = not basis
        lazy_note = False
        if basis:
            trs = [fn_ for nme_, fn_ in methods.items() if fn_.name == "transform"]
            watched = {m.attr} | set(getattr(m, "flag_attrs", set())) | set(getattr(m, "stored", set()))
            ok_basis = any(watched & set(attrs_written(fn_.node)) for fn_ in trs)
            # the change of basis is carried out when the managed data are read, not when the context is entered: the
            # reset in transform() happens in time only if the managed data are touched before the stored value is tested
            mb_ = basis_managed_attributes(prog, cls)
            inreg = {id(x_) for st_ in m.region for x_ in ast.walk(st_)}
            touched_first = any(_self_attr(x_) in mb_ and id(x_) not in inreg and getattr(x_, "lineno", 10**9) <= m.guard.lineno
                                for x_ in walk_no_nested(m.func.node) if isinstance(x_, ast.Attribute))
            if ok_basis and not touched_first:
                ok_basis = False
                lazy_note = True
        run.obligation(rid, m.func.short, ok_basis, key=key + ":basis",
                       message=("%s; the computation reads basis-managed data in the basis current at the first call; transform() "
                                "resets the stored value, but a change of basis is carried out only when the managed data are read, "
                                "and the stored value is tested before any such read: inside a new basis context the value of the "
                                "old basis is handed out (%s)" % (lead, what)) if lazy_note else
                               "%s; the computation reads basis-managed data in the basis current at the first call, and no transform() of "
                               "the class resets the stored value, so it is used unchanged in another basis (a guard on the basis id does "
                               "not tell two contexts of the same depth apart) (%s)" % (lead, what),
                       loc=m.func.loc(m.guard), sample={"memo": m.attr, "basis_dependent": basis})
        # effects skipped on objects other than self
        if m.kind == "effect-skip" and not getattr(m, "switch", False):
            foreign = _foreign_effects(m)
            run.obligation(rid, m.func.short, not foreign, key=key + ":skip",
                           message="%s returns early when its argument equals self.%s and skips %s: these objects can be "
                                   "changed without this method (directly, or by other methods), so the skipped update may "
                                   "be needed (%s)" % (m.func.short, m.attr, foreign[:2], what),
                           loc=m.func.loc(m.guard), sample={"memo": m.attr, "skipped_effects": foreign[:5]})
    return memos


def _is_key(m, a):
    """attribute a is a companion key of the memo: tested in the guard and stored next to the memo"""
    w = attrs_written(m.func.node)
    return a in w and a != m.attr


def _foreign_effects(m):
    out = []
    for st in m.region:
        for x in ast.walk(st):
            if isinstance(x, ast.Call) and isinstance(x.func, ast.Attribute) and isinstance(x.func.value, ast.Name) \
                    and x.func.value.id != "self":
                out.append(norm(x)[:50])
            if isinstance(x, (ast.Assign, ast.AugAssign)):
                for t in (x.targets if isinstance(x, ast.Assign) else [x.target]):
                    b = _base(t)
                    while isinstance(b, ast.Attribute):
                        b2 = b.value
                        if isinstance(b2, ast.Name) and b2.id != "self":
                            out.append(norm(x)[:50])
                            break
                        b = b2 if isinstance(b2, ast.Attribute) else None
                        if b is None:
                            break
    return out
