"""A constructor argument recorded under its own name is what the new object reports.

    def __init__(self, ..., flag=False):
        self.flag = flag
        ...
        self.set_initial_condition(rhoi)     # writes self.flag = False

The caller who says `Cls(..., flag=True)` gets an object with flag False.  For every class and every parameter P of its
__init__ that is assigned to `self.P` directly: on every path to the end of __init__ the last thing written to self.P is
the parameter (statements in order, both arms of an `if`, methods of the object called later followed through the class
hierarchy for stores to self.P).
"""
import ast

from .loader import norm, walk_no_nested
from .memo import _class_methods, attrs_written

KEPT, LOST, UNSET = "kept", "lost", "unset"


def _writes(methods, name, attr, depth=3, seen=None):
    """Does method `name` (or a method of self it calls) store self.<attr>?  Returns the storing node or None."""
    seen = seen if seen is not None else set()
    if name in seen or name not in methods or depth < 0:
        return None
    seen.add(name)
    fn = methods[name]
    if not isinstance(fn.node, ast.FunctionDef):
        return None
    w = attrs_written(fn.node)
    if attr in w:
        return (fn, w[attr])
    for c in walk_no_nested(fn.node):
        if isinstance(c, ast.Call) and isinstance(c.func, ast.Attribute) and norm(c.func.value) == "self":
            r = _writes(methods, c.func.attr, attr, depth - 1, seen)
            if r:
                return r
    return None


def analyse(prog, cls, flags_only=True, all_paths=False):
    """[(parameter, ok, node, why)] for the parameters of cls.__init__ stored under their own name."""
    init = cls.methods.get("__init__")
    if init is None or not isinstance(init.node, ast.FunctionDef):
        return []
    methods = _class_methods(prog, cls)
    a_ = init.node.args
    pos = a_.posonlyargs + a_.args
    dflt = dict(zip([x.arg for x in pos[len(pos) - len(a_.defaults):]], a_.defaults))
    dflt.update({k.arg: d for k, d in zip(a_.kwonlyargs, a_.kw_defaults) if d is not None})
    params = [x.arg for x in pos[1:] + a_.kwonlyargs]
    if flags_only:
        params = [x for x in params if isinstance(dflt.get(x), ast.Constant) and isinstance(dflt[x].value, bool)]
    out = []
    for p in params:
        direct = [st for st in walk_no_nested(init.node) if isinstance(st, ast.Assign) and isinstance(st.value, ast.Name)
                  and st.value.id == p and any(isinstance(t_, ast.Attribute) and norm(t_.value) == "self" and t_.attr == p
                                               for t_ in st.targets)]
        if not direct:
            continue
        # the parameter must not be re-bound (a default filled in is still 'the parameter')
        culprit = [None]

        def block(stmts, state):
            """state: set of 'U' (nothing stored yet), 'K' (the parameter is what is stored), 'O' (something else was stored on a
            path on which the parameter was not); culprit is set when a path that held the parameter is overwritten."""
            for st in stmts:
                if isinstance(st, ast.Assign) and any(isinstance(t_, ast.Attribute) and norm(t_.value) == "self" and t_.attr == p
                                                      for t_ in st.targets):
                    if isinstance(st.value, ast.Name) and st.value.id == p:
                        state = {"K"}
                    else:
                        if "K" in state and culprit[0] is None:
                            culprit[0] = (st, "`%s`" % norm(st)[:60])
                        state = {"O"}
                    continue
                if isinstance(st, ast.If):
                    state = block(st.body, set(state)) | block(st.orelse, set(state))
                    continue
                if isinstance(st, (ast.For, ast.While, ast.With)):
                    state = state | block(st.body, set(state))
                    continue
                if isinstance(st, ast.Try):
                    s1 = block(st.body, set(state))
                    for h in st.handlers:
                        s1 = s1 | block(h.body, set(state) | s1)
                    state = block(st.finalbody, s1)
                    continue
                if isinstance(st, (ast.Return, ast.Raise)):
                    return set()
                for c in ast.walk(st):
                    if isinstance(c, ast.Call) and isinstance(c.func, ast.Attribute) and norm(c.func.value) == "self" \
                            and c.func.attr != "__init__":
                        r = _writes(methods, c.func.attr, p)
                        if r and "K" in state:
                            if culprit[0] is None:
                                culprit[0] = (st, "`%s` (%s stores self.%s at line %d)" % (norm(c)[:50], r[0].short, p, r[1].lineno))
                            state = {"O"}
            return state

        final = block(init.node.body, {"U"})
        if all_paths and culprit[0] is None and final and final != {"K"}:
            # on some path to the end of the constructor something else (or nothing) is stored under the parameter's name
            other = [st for st in walk_no_nested(init.node) if isinstance(st, ast.Assign)
                     and any(isinstance(t_, ast.Attribute) and norm(t_.value) == "self" and t_.attr == p for t_ in st.targets)
                     and not (isinstance(st.value, ast.Name) and st.value.id == p)]
            culprit[0] = (other[0] if other else direct[0],
                          "`%s` on a path on which the parameter is not stored" % (norm(other[0])[:60] if other else "nothing"))
        ok = culprit[0] is None
        out.append((p, ok, culprit[0][0] if (not ok and culprit[0]) else direct[0], culprit[0][1] if (not ok and culprit[0]) else ""))
    return out
