"""May-alias names of arrays and in-place operations on them.

`aliases(func, roots)`: local names that may denote the same storage as one of the root expressions (a
parameter name, or a dotted chain such as `self.KK`): plain rebinding, numpy functions that return their
argument or a view of it when they can (`asarray`, `asanyarray`, `ascontiguousarray`, `atleast_nd`,
`ravel`, `reshape`, `transpose`, `squeeze`, `real`, `imag`, `diagonal` ...), the same as methods or
attributes (`.T`, `.real`, `.view()`, `.reshape()`), and basic slices.  `x.copy()`, `numpy.array(x)`
(copy by default) and arithmetic give fresh arrays.

`inplace_effects(func, names)`: statements of the function that write into the storage of one of the
names: augmented assignment, element/slice store, numpy routines that write into an argument
(`fill_diagonal`, `copyto`, `put`, `place`, `putmask`, `add.at`), in-place methods, and `out=`.
"""
import ast

from .loader import norm, walk_no_nested, call_name

VIEW_FUNCS = ("asarray", "asanyarray", "ascontiguousarray", "asfortranarray", "atleast_1d", "atleast_2d", "atleast_3d",
              "ravel", "reshape", "transpose", "squeeze", "real", "imag", "diagonal", "swapaxes", "moveaxis", "flipud",
              "fliplr", "flip", "broadcast_to", "expand_dims", "view")
VIEW_ATTRS = ("T", "real", "imag", "flat")
VIEW_METHODS = ("view", "reshape", "ravel", "transpose", "squeeze", "swapaxes", "diagonal")
WRITE_FUNCS = {"fill_diagonal": 0, "copyto": 0, "put": 0, "place": 0, "putmask": 0, "put_along_axis": 0}
WRITE_METHODS = ("fill", "sort", "resize", "itemset", "partition", "put", "setfield", "byteswap")


def _is_root(e, roots, names):
    if isinstance(e, ast.Name):
        return e.id in names or norm(e) in roots
    if isinstance(e, ast.Attribute):
        if norm(e) in roots:
            return True
        return e.attr in VIEW_ATTRS and _is_root(e.value, roots, names)
    if isinstance(e, ast.Subscript):
        # basic slicing gives a view; integer-array (fancy) indexing copies - only slices/ints/ellipsis count
        sl = e.slice
        parts = sl.elts if isinstance(sl, ast.Tuple) else [sl]
        basic = all(isinstance(p, (ast.Slice, ast.Constant)) or (isinstance(p, ast.UnaryOp) and isinstance(p.operand, ast.Constant))
                    or isinstance(p, ast.Name) for p in parts)
        return basic and any(isinstance(p, ast.Slice) for p in parts) and _is_root(e.value, roots, names)
    if isinstance(e, ast.Call):
        nm = call_name(e)
        if isinstance(e.func, ast.Attribute) and nm in VIEW_METHODS and _is_root(e.func.value, roots, names):
            return True
        if nm in VIEW_FUNCS and e.args and _is_root(e.args[0], roots, names):
            # numpy.array(x, copy=False) also aliases; numpy.array(x) copies
            return True
        if nm == "array" and e.args and any(k.arg == "copy" and isinstance(k.value, ast.Constant) and k.value.value is False
                                            for k in e.keywords) and _is_root(e.args[0], roots, names):
            return True
    return False


def aliases(func_node, roots):
    """set of local names that may alias one of the roots (flow-insensitive, to a fixpoint)"""
    roots = set(roots)
    names = set()
    changed = True
    while changed:
        changed = False
        for n in walk_no_nested(func_node):
            if isinstance(n, ast.Assign) and _is_root(n.value, roots, names):
                for t in n.targets:
                    if isinstance(t, ast.Name) and t.id not in names:
                        names.add(t.id)
                        changed = True
    return names


def inplace_effects(func_node, names, roots=()):
    """[(node, text)] of writes into the storage of the names / roots"""
    roots = set(roots)

    def hits(e):
        b = e
        while isinstance(b, ast.Subscript):
            b = b.value
        if isinstance(b, ast.Attribute) and b.attr in VIEW_ATTRS:
            b = b.value
        return (isinstance(b, ast.Name) and b.id in names) or norm(b) in roots
    out = []
    for n in walk_no_nested(func_node):
        if isinstance(n, ast.AugAssign) and hits(n.target):
            out.append((n, norm(n)[:70]))
        elif isinstance(n, ast.Assign):
            for t in n.targets:
                for x in (t.elts if isinstance(t, (ast.Tuple, ast.List)) else [t]):
                    if isinstance(x, ast.Subscript) and hits(x):
                        out.append((n, norm(n)[:70]))
        elif isinstance(n, ast.Call):
            nm = call_name(n)
            if nm in WRITE_FUNCS and len(n.args) > WRITE_FUNCS[nm] and hits(n.args[WRITE_FUNCS[nm]]):
                out.append((n, norm(n)[:70]))
            elif isinstance(n.func, ast.Attribute) and nm in WRITE_METHODS and hits(n.func.value):
                out.append((n, norm(n)[:70]))
            for k in n.keywords:
                if k.arg == "out" and hits(k.value):
                    out.append((n, norm(n)[:70]))
            if isinstance(n.func, ast.Attribute) and n.func.attr == "at" and isinstance(n.func.value, ast.Attribute) \
                    and n.args and hits(n.args[0]):
                out.append((n, norm(n)[:70]))
    return out


# ----------------------------------------------------------------------
# inputs kept on self without a copy and later written in place
def stored_input_aliases(prog, cls, depth=4):
    """{attribute of self: (description, FuncInfo, node)} for attributes that are bound - directly, through a local,
    or through helper methods of self that receive it - to an array belonging to an argument of a *public* method
    (or of the constructor) of the class: `param`, `param.field`, or a view of them, without a copy.  Arguments of
    private helpers count only when a public method hands them one of its own arguments."""
    from .loader import demangle
    methods = {}
    for b in reversed([x for x in prog.mro(cls) if x is not None]):
        for nme, fn in b.methods.items():
            methods[nme] = fn
    res = {}
    seen = set()

    def flow(fn, tainted, d, origin):
        key = (fn.qualname, tuple(sorted(tainted)))
        if key in seen or d < 0:
            return
        seen.add(key)
        part_roots = set()
        for n in walk_no_nested(fn.node):
            if isinstance(n, ast.Attribute) and isinstance(n.ctx, ast.Load):
                b = n
                while isinstance(b, ast.Attribute):
                    b = b.value
                if isinstance(b, ast.Name) and b.id in tainted:
                    part_roots.add(norm(n))
        roots = set(tainted) | part_roots
        al = aliases(fn.node, roots)

        def is_alias(v):
            return (isinstance(v, ast.Name) and (v.id in al or v.id in tainted)) or norm(v) in part_roots \
                or _is_root(v, roots, al)
        for n in walk_no_nested(fn.node):
            if isinstance(n, ast.Assign) and is_alias(n.value):
                for t in n.targets:
                    if isinstance(t, ast.Attribute) and isinstance(t.value, ast.Name) and t.value.id == "self":
                        res.setdefault(t.attr, ("%s (%s) in %s" % (norm(n.value), origin, fn.short), fn, n))
            tgt = None
            if isinstance(n, ast.Call) and isinstance(n.func, ast.Attribute) and isinstance(n.func.value, ast.Name) \
                    and n.func.value.id == "self":
                tgt = methods.get(demangle(fn, n.func.attr))
            elif isinstance(n, ast.Call) and isinstance(n.func, ast.Attribute) and isinstance(n.func.value, ast.Call) \
                    and isinstance(n.func.value.func, ast.Name) and n.func.value.func.id == "super" and fn.cls is not None:
                tgt = prog.find_method(cls, n.func.attr, after=fn.cls)
            if tgt is not None and tgt is not fn:
                tps = [a.arg for a in tgt.node.args.args if a.arg != "self"]
                passed = set()
                for k, a in enumerate(n.args):
                    if k < len(tps) and is_alias(a):
                        passed.add(tps[k])
                for kw in n.keywords:
                    if kw.arg in tps and is_alias(kw.value):
                        passed.add(kw.arg)
                if passed:
                    flow(tgt, passed, d - 1, origin)
    for nme, fn in methods.items():
        if nme.startswith("_") and nme != "__init__":
            continue
        params = {a.arg for a in fn.node.args.args if a.arg != "self"}
        if params:
            flow(fn, params, depth, "argument of %s" % fn.short)
    return res, methods


def inplace_writes_to_attributes(methods, attrs):
    """[(FuncInfo, node, text)] of in-place writes (element store, in-place operator, writing numpy routine) to
    self.<a> or to its raw storage self._<a> for a in attrs, in any of the methods"""
    names = set()
    for a in attrs:
        names |= {"self.%s" % a, "self._%s" % a.lstrip("_"), "self.%s" % a.lstrip("_")}
    out = []
    for fn in methods.values():
        al = aliases(fn.node, names)
        for node, text in inplace_effects(fn.node, al, roots=names):
            out.append((fn, node, text))
    return out


# ---------------------------------------------------------------------------------------------------------------------
# element type inherited from the caller

_KEEP = ("dot", "cross", "array", "asarray", "subtract", "add", "multiply", "copy", "transpose", "reshape", "vdot", "inner", "outer")


def inherits_input_dtype(e, inputs):
    """True if the value of expression e has the element type of the function's inputs: built only from parameters (and
    locals already classified so, `inputs`), their elements and attributes, integer constants and the operations + - *
    // % and numpy calls that keep the element type (dot, cross, array/asarray without dtype).  A float constant, a true
    division, a call of anything else makes the value floating point (or unknown): False."""
    if isinstance(e, ast.Name):
        return e.id in inputs
    if isinstance(e, (ast.Subscript, ast.Attribute)):
        return inherits_input_dtype(e.value, inputs)
    if isinstance(e, ast.Constant):
        return isinstance(e.value, int) and not isinstance(e.value, bool)
    if isinstance(e, ast.UnaryOp):
        return inherits_input_dtype(e.operand, inputs)
    if isinstance(e, ast.BinOp):
        if isinstance(e.op, (ast.Add, ast.Sub, ast.Mult, ast.FloorDiv, ast.Mod)):
            a, b = inherits_input_dtype(e.left, inputs), inherits_input_dtype(e.right, inputs)
            # an integer constant does not decide; at least one side must come from the inputs
            def from_inputs(x):
                return any(isinstance(y, ast.Name) and y.id in inputs for y in ast.walk(x))
            return a and b and (from_inputs(e.left) or from_inputs(e.right))
        return False
    if isinstance(e, ast.Call):
        fn = e.func.attr if isinstance(e.func, ast.Attribute) else (e.func.id if isinstance(e.func, ast.Name) else "")
        if fn in _KEEP and not any(k.arg == "dtype" for k in e.keywords) and e.args:
            return all(inherits_input_dtype(a, inputs) for a in e.args)
        return False
    return False


def inplace_on_inherited_dtype(func_node):
    """In-place true divisions (`x /= ...`) and in-place operations with a floating-point operand whose target has the
    element type of the function's inputs (statement order; a re-binding to a floating-point value ends the dependence).
    On integer input numpy refuses the cast (UFuncTypeError): `R = r1 - r2; R /= norm` works for float positions only.
    Returns [(AugAssign node, target name, reason)]."""
    params = {a.arg for a in func_node.args.args + func_node.args.kwonlyargs} - {"self"}
    inputs = set(params)
    out = []
    stmts = sorted((x for x in ast.walk(func_node) if isinstance(x, (ast.Assign, ast.AugAssign)) and x is not func_node),
                   key=lambda x: (x.lineno, x.col_offset))
    for st in stmts:
        if isinstance(st, ast.Assign):
            for t_ in st.targets:
                if isinstance(t_, ast.Name):
                    if inherits_input_dtype(st.value, inputs):
                        inputs.add(t_.id)
                    else:
                        inputs.discard(t_.id)
        else:
            t_ = st.target
            b_ = t_
            while isinstance(b_, ast.Subscript):
                b_ = b_.value
            if isinstance(b_, ast.Name) and b_.id in inputs:
                floaty = isinstance(st.op, ast.Div) or (
                    isinstance(st.op, (ast.Mult, ast.Add, ast.Sub)) and any(
                        isinstance(y, ast.Constant) and isinstance(y.value, (float, complex)) for y in ast.walk(st.value)))
                if floaty:
                    out.append((st, b_.id, "true division" if isinstance(st.op, ast.Div) else "floating-point operand"))
    return out, params


# ---------------------------------------------------------------------------------------------------------------------
# accumulators that outlive the call

_FRESH = ("zeros", "zeros_like", "empty", "empty_like", "ones", "array", "copy", "full")


def persistent_accumulators(func_node):
    """In-place accumulations (`x[...] += e`, `x += e` on an array) whose target is storage that outlives the call: an
    attribute of self, or a local bound to one (`II = self.Iterm`), without a fresh allocation of that attribute earlier in
    the same function.  Returns [(AugAssign node, text of the storage)].  Locals bound to a new array in this call
    (numpy.zeros(...), a copy, an arithmetic expression) are fresh."""
    out = []
    fresh_attrs = set()           # self.X = numpy.zeros(...) seen so far (statement order)
    local = {}                    # name -> 'fresh' | 'self.X'
    stmts = sorted((x for x in walk_no_nested(func_node) if isinstance(x, (ast.Assign, ast.AugAssign))),
                   key=lambda x: (x.lineno, x.col_offset))
    for st in stmts:
        if isinstance(st, ast.Assign):
            v = st.value
            is_fresh = (isinstance(v, ast.Call) and (call_name(v) or "").split(".")[-1] in _FRESH) or isinstance(v, (ast.BinOp, ast.Constant))
            for t_ in st.targets:
                if isinstance(t_, ast.Name):
                    if isinstance(v, ast.Attribute) and norm(v.value) == "self":
                        local[t_.id] = norm(v)
                    elif isinstance(v, ast.Name) and v.id in local:
                        local[t_.id] = local[v.id]
                    else:
                        local[t_.id] = "fresh"
                elif isinstance(t_, ast.Attribute) and norm(t_.value) == "self":
                    if is_fresh or (isinstance(v, ast.Name) and local.get(v.id) == "fresh"):
                        fresh_attrs.add(norm(t_))
            continue
        if not isinstance(st.op, (ast.Add, ast.Sub)):
            continue
        b_ = st.target
        while isinstance(b_, ast.Subscript):
            b_ = b_.value
        store = None
        if isinstance(b_, ast.Attribute) and norm(b_.value) == "self":
            store = norm(b_)
        elif isinstance(b_, ast.Name) and local.get(b_.id, "fresh") != "fresh" and b_ is not st.target:
            store = local[b_.id]
        if store is not None and store not in fresh_attrs:
            out.append((st, store))
    return out
