"""Run context of one property check: obligations, findings, known findings,
evidence and replay files."""
import hashlib
import json
import os
import time

from .loader import AnalysisError

VERIF = os.path.dirname(os.path.dirname(os.path.abspath(__file__)))
KNOWN = os.path.join(VERIF, "known_findings.json")
EVID = os.path.join(VERIF, "evidence")


class Finding:
    def __init__(self, prop, rule, construct, key, message, loc, detail=None):
        self.prop = prop
        self.rule = rule
        self.construct = construct      # qualified construct, position independent
        self.key = key                  # normalised statement / instance key
        self.message = message
        self.loc = loc                  # file:line (diagnostic only, not part of identity)
        self.detail = detail

    def ident(self):
        return (self.prop, self.rule, self.construct, self.key)

    def as_dict(self):
        return {"property": self.prop, "rule": self.rule, "construct": self.construct,
                "key": self.key, "message": self.message, "loc": self.loc,
                "detail": self.detail}


class Run:
    def __init__(self, prop, tier, seed=0):
        self.prop = prop
        self.tier = tier
        self.seed = seed
        self.t0 = time.time()
        self.rules = {}           # rule id -> dict(desc, instances, min, obligations, discharged, samples)
        self.findings = []
        self.assumptions = []
        self.notes = []
        self.samples = []
        self.explanation = ""
        self.trusted_base = []
        self.extra = {}
        self.only = None          # replay filter: ident tuple
        self._distinct = set()

    # ------------------------------------------------------------------
    def rule(self, rid, desc, minimum=1):
        r = self.rules.setdefault(rid, {"desc": desc, "instances": 0, "min": minimum,
                                        "obligations": 0, "discharged": 0, "samples": []})
        return rid

    def instance(self, rid, what=None):
        self.rules[rid]["instances"] += 1
        self._distinct.add((rid, json.dumps(what, sort_keys=True, default=str)))
        if what is not None and len(self.rules[rid]["samples"]) < 6:
            self.rules[rid]["samples"].append(what)

    def obligation(self, rid, construct, ok, key="", message="", loc="", detail=None,
                   sample=None):
        """One proof obligation / rule instance.  ok=False records a finding."""
        r = self.rules[rid]
        r["instances"] += 1
        r["obligations"] += 1
        self._distinct.add((rid, construct, key))
        if ok:
            r["discharged"] += 1
            if sample is not None and len(r["samples"]) < 6:
                r["samples"].append(sample)
        else:
            self.findings.append(Finding(self.prop, rid, construct, key, message, loc, detail))

    def assume(self, text):
        if text not in self.assumptions:
            self.assumptions.append(text)

    def note(self, text):
        self.notes.append(text)

    # ------------------------------------------------------------------
    def finish(self, prog=None, interrupted=None):
        """interrupted: text of an analysis error met after some rules had completed.  Findings of completed
        obligations stand (exit 1, with the note that the analysis is incomplete); without a finding the run is
        an analysis error (exit 2) as before."""
        # instance-count floor: a rule that matches fewer sites than were
        # confirmed by hand would pass vacuously
        failed_rules = {f.rule for f in self.findings}
        for rid, r in self.rules.items():
            if interrupted is not None:
                break
            # a rule that already reports a finding may stop early; the floor guards
            # only against vacuous passes
            if r["instances"] < r["min"] and rid not in failed_rules:
                raise AnalysisError("rule %s matched %d instance(s), confirmed minimum is %d "
                                    "(anchor vanished or construct no longer recognised)"
                                    % (rid, r["instances"], r["min"]))
        known = load_known()
        open_known = {(k["property"], k["rule"], k["construct"], k["key"]): k
                      for k in known if k.get("status") == "open"}
        violations = []
        known_hits = []
        for f in self.findings:
            if self.only is not None and f.ident() != tuple(self.only):
                continue
            if f.ident() in open_known:
                known_hits.append((f, open_known[f.ident()]))
            else:
                violations.append(f)
        for rid in sorted(self.rules):
            r = self.rules[rid]
            print("rule %-8s instances=%-3d obligations=%-3d discharged=%-3d %s" % (
                rid, r["instances"], r["obligations"], r["discharged"], r["desc"]))
        seen = set()
        for f, k in known_hits:
            if f.ident() in seen:
                continue
            seen.add(f.ident())
            print("KNOWN-FINDING: property=%s rule=%s construct=%s %s [%s]" % (
                f.prop, f.rule, f.construct, k.get("what", f.message), f.loc))
        noev = bool(os.environ.get("QV_NO_EVIDENCE"))
        if not noev:
            os.makedirs(os.path.join(EVID, "replay"), exist_ok=True)
        for f in violations:
            h = hashlib.sha1(repr(f.ident()).encode()).hexdigest()[:12]
            path = os.path.join(EVID, "replay", "%s-%s-%s.json" % (f.prop, f.rule, h))
            if not noev:
                with open(path, "w") as fh:
                    json.dump(f.as_dict(), fh, indent=1)
            print("FINDING rule=%s construct=%s at %s: %s" % (f.rule, f.construct, f.loc, f.message))
            if f.detail:
                print("        detail: %s" % (json.dumps(f.detail)[:400]))
            print("VIOLATION property=%s replay=%s" % (f.prop, path))
        if interrupted is not None:
            if not violations:
                print("ANALYSIS-ERROR property=%s %s" % (self.prop, interrupted))
                return 2
            print("ANALYSIS-INCOMPLETE property=%s the rules after the ones reported could not be completed: %s"
                  % (self.prop, interrupted))
            return 1
        if not noev:
            self.write_evidence(prog, violations, known_hits)
        return 1 if violations else 0

    def write_evidence(self, prog, violations, known_hits):
        obligations = sum(r["obligations"] for r in self.rules.values())
        discharged = sum(r["discharged"] for r in self.rules.values())
        instances = sum(r["instances"] for r in self.rules.values())
        samples = []
        for rid in sorted(self.rules):
            for s in self.rules[rid]["samples"][:3]:
                samples.append({"rule": rid, "case": s})
        samples.extend(self.samples[:10])
        if not samples:
            samples = [{"rule": rid, "case": r["desc"]} for rid, r in self.rules.items()][:3]
        distinct = len({json.dumps(s, sort_keys=True, default=str) for s in samples})
        cov = {
            "explanation": self.explanation,
            "obligations": obligations,
            "discharged": discharged,
            "checker_cmd": "./check %s --tier %s" % (self.prop, self.tier),
            "trusted_base": self.trusted_base,
            "evaluations": max(instances, 1),
            "distinct_nontrivial": len(self._distinct),
            "rule": "one evaluation = one rule instance (a construct of /repo's current source "
                    "matched by a rule and decided); distinct = distinct (rule, construct) pairs; "
                    "distinct_nontrivial counts distinct (rule, construct, obligation-key) "
                    "triples measured on this run; each is non-trivial in that the construct was "
                    "located in the parsed source and the rule was evaluated on it",
            "samples": samples,
            "rules": {rid: {k: r[k] for k in ("desc", "instances", "min", "obligations", "discharged")}
                      for rid, r in self.rules.items()},
            "known_findings_reported": [f.ident()[1:] for f, _ in known_hits],
            "notes": self.notes,
        }
        cov.update(self.extra)
        if prog is not None:
            n, dg = prog.digest(prog.consulted if self.tier == "quick" and prog.consulted else None)
            cov["files_consulted"] = n
            cov["files_parsed"] = len(prog.modules)
            cov["source_digest_sha256"] = dg
            cov["files"] = sorted(prog.consulted)[:60]
            ren = [r for r in getattr(prog, "renamed", []) if r[0] in prog.consulted]
            cov["locals_renamed_to_reference_naming"] = {
                "functions": len(ren), "sample": [{"file": a, "function": b, "map": c} for a, b, c in ren[:5]]}
        ev = {
            "property_id": self.prop,
            "tier": self.tier,
            "seed": self.seed,
            "level": "other",
            "coverage": cov,
            "assumptions": self.assumptions,
            "wall_s": round(time.time() - self.t0, 3),
            "violations": len(violations),
        }
        os.makedirs(EVID, exist_ok=True)
        if self.only is None:
            with open(os.path.join(EVID, "%s.json" % self.prop), "w") as fh:
                json.dump(ev, fh, indent=1, default=str)


def load_known():
    if not os.path.exists(KNOWN):
        return []
    with open(KNOWN) as fh:
        data = json.load(fh)
    return data.get("findings", [])


class RuleProxy:
    """forwards the obligations of a rule borrowed from another property under this property's rule id"""

    def __init__(self, run, rid, keep=None):
        self._run, self._rid, self._keep = run, rid, keep

    def obligation(self, rid, construct, ok, **kw):
        if self._keep is None or self._keep(construct, kw.get("key", "")):
            return self._run.obligation(self._rid, construct, ok, **kw)

    def instance(self, rid, what=None):
        return self._run.instance(self._rid, what)

    def __getattr__(self, name):
        return getattr(self._run, name)
