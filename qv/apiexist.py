"""API existence: every attribute chain rooted at an imported external module
(numpy.int, numpy.save_compressed, numpy.math.factorial, scipy.integrate.trapz)
in a set of functions is resolved with importlib/getattr against the
interpreter that runs the test suite.  Importing NumPy/SciPy is not running
quantarhei.
"""
import ast
import importlib

from .loader import norm, walk_no_nested, FuncInfo

CHECKED_ROOTS = ("numpy", "scipy", "math", "cmath", "copy", "numbers", "os", "json", "pickle")
_cache = {}


def exists(dotted_name):
    if dotted_name in _cache:
        return _cache[dotted_name]
    parts = dotted_name.split(".")
    ok = False
    obj = None
    # longest importable module prefix
    for k in range(len(parts), 0, -1):
        try:
            obj = importlib.import_module(".".join(parts[:k]))
        except Exception:
            continue
        ok = True
        for p in parts[k:]:
            if hasattr(obj, p):
                obj = getattr(obj, p)
            else:
                ok = False
                break
        break
    _cache[dotted_name] = ok
    return ok


def external_chains(prog, func):
    """(dotted external name, node) for the maximal attribute chains in func."""
    out = []
    seen = set()
    inner = set()
    for n in ast.walk(func.node):
        if isinstance(n, ast.Attribute):
            inner.add(id(n.value))
    for n in ast.walk(func.node):
        if isinstance(n, ast.Attribute) and id(n) not in inner:
            ext = prog.external_name(func, n)
            if ext is None:
                # a shorter prefix may be external (method call on an external object's result)
                e = n
                while isinstance(e, ast.Attribute) and ext is None:
                    e = e.value
                    if isinstance(e, ast.Attribute):
                        ext = prog.external_name(func, e)
                if ext is None:
                    continue
            root = ext.split(".")[0]
            if root in CHECKED_ROOTS:
                out.append((ext, n))
    return out


def closure(prog, funcs, depth=3):
    """call closure (resolved, exact calls only) of a list of FuncInfo"""
    seen = {}
    work = [(f, depth) for f in funcs]
    while work:
        f, d = work.pop()
        if f.qualname in seen:
            continue
        seen[f.qualname] = f
        if d <= 0:
            continue
        for c in [x for x in walk_no_nested(f.node) if isinstance(x, ast.Call)]:
            for t in prog.resolve_call(f, c, may=False):
                if t.qualname not in seen:
                    work.append((t, d - 1))
    return list(seen.values())


def check_functions(run, rid, prog, funcs, what):
    """one obligation per distinct external chain used by funcs"""
    n = 0
    for f in funcs:
        prog.consulted.add(f.relpath)
        done = set()
        for ext, node in external_chains(prog, f):
            if ext in done:
                continue
            done.add(ext)
            n += 1
            run.obligation(rid, f.short, exists(ext), key="api:" + ext,
                           message="%s uses %s, which does not exist in the installed library (%s raises "
                                   "AttributeError on this path)" % (f.short, ext, what), loc=f.loc(node),
                           sample={"function": f.short, "api": ext})
    return n
