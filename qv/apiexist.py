"""API existence: every attribute chain rooted at an imported external module
(numpy.int, numpy.save_compressed, numpy.math.factorial, scipy.integrate.trapz)
in a set of functions is resolved with importlib/getattr against the
interpreter that runs the test suite.  Importing NumPy/SciPy is not running
quantarhei.
"""
import ast
import importlib

from .loader import norm, walk_no_nested, FuncInfo

CHECKED_ROOTS = ("numpy", "scipy", "math", "cmath", "copy", "numbers", "os", "json", "pickle")
_cache = {}


def exists(dotted_name):
    if dotted_name in _cache:
        return _cache[dotted_name]
    parts = dotted_name.split(".")
    ok = False
    obj = None
    # longest importable module prefix
    for k in range(len(parts), 0, -1):
        try:
            obj = importlib.import_module(".".join(parts[:k]))
        except Exception:
            continue
        ok = True
        for p in parts[k:]:
            if hasattr(obj, p):
                obj = getattr(obj, p)
            else:
                ok = False
                break
        break
    _cache[dotted_name] = ok
    return ok


def external_chains(prog, func):
    """(dotted external name, node) for the maximal attribute chains in func."""
    out = []
    seen = set()
    inner = set()
    for n in ast.walk(func.node):
        if isinstance(n, ast.Attribute):
            inner.add(id(n.value))
    for n in ast.walk(func.node):
        if isinstance(n, ast.Attribute) and id(n) not in inner:
            ext = prog.external_name(func, n)
            if ext is None:
                # a shorter prefix may be external (method call on an external object's result)
                e = n
                while isinstance(e, ast.Attribute) and ext is None:
                    e = e.value
                    if isinstance(e, ast.Attribute):
                        ext = prog.external_name(func, e)
                if ext is None:
                    continue
            root = ext.split(".")[0]
            if root in CHECKED_ROOTS:
                out.append((ext, n))
    return out


def closure(prog, funcs, depth=3):
    """call closure (resolved, exact calls only) of a list of FuncInfo"""
    seen = {}
    work = [(f, depth) for f in funcs]
    while work:
        f, d = work.pop()
        if f.qualname in seen:
            continue
        seen[f.qualname] = f
        if d <= 0:
            continue
        for c in [x for x in walk_no_nested(f.node) if isinstance(x, ast.Call)]:
            for t in prog.resolve_call(f, c, may=False):
                if t.qualname not in seen:
                    work.append((t, d - 1))
    return list(seen.values())


def check_functions(run, rid, prog, funcs, what):
    """one obligation per distinct external chain used by funcs"""
    n = 0
    for f in funcs:
        prog.consulted.add(f.relpath)
        done = set()
        for ext, node in external_chains(prog, f):
            if ext in done:
                continue
            done.add(ext)
            n += 1
            run.obligation(rid, f.short, exists(ext), key="api:" + ext,
                           message="%s uses %s, which does not exist in the installed library (%s raises "
                                   "AttributeError on this path)" % (f.short, ext, what), loc=f.loc(node),
                           sample={"function": f.short, "api": ext})
    n += check_self_attributes(run, rid, prog, funcs, what)
    n += check_call_arity(run, rid, prog, funcs, what)
    return n


# ----------------------------------------------------------------------
# attributes of self: every `self.X` that a method reads must be defined somewhere the object
# can have got it from - a method, property or class attribute in the MRO, or an assignment
# `self.X = ...` / `setattr` in any method of the class, its bases or its subclasses.
def _class_universe(prog, cls):
    """classes whose definitions can contribute attributes to an instance that runs cls's methods:
    the MRO of cls and the MRO of every subclass of cls.  Returns (classes, fully_resolved)"""
    out = []
    resolved = True
    subs = [c for m_ in prog.modules.values() for c in m_.classes.values() if c is cls or cls in prog.mro(c)]
    for c in subs:
        for b in prog.mro(c):
            if b is None:
                resolved = False
            elif b not in out:
                out.append(b)
        # an external base other than object hides what it defines
        for be, bc in zip(c.base_exprs, c.bases):
            if bc is None and norm(be) not in ("object",):
                resolved = False
    return out, resolved


def defined_attributes(prog, cls):
    classes, resolved = _class_universe(prog, cls)
    names = set()
    dynamic = False
    for c in classes:
        names.update(c.methods)
        names.update(k.split(".")[0] for k in c.methods)
        names.update(c.attrs)
        # managed-property descriptors keep their value under the underscored name
        for nme, val in c.attrs.items():
            if isinstance(val, ast.Call):
                names.add("_" + nme)
                for a in val.args:
                    if isinstance(a, ast.Constant) and isinstance(a.value, str):
                        names.add("_" + a.value)
        for st in c.node.body:
            if isinstance(st, ast.AnnAssign) and isinstance(st.target, ast.Name):
                names.add(st.target.id)
            if isinstance(st, (ast.Assign,)):
                for t_ in st.targets:
                    for n in ast.walk(t_):
                        if isinstance(n, ast.Name):
                            names.add(n.id)
        if "__getattr__" in c.methods or "__getattribute__" in c.methods:
            dynamic = True
        for f in c.methods.values():
            selfname = f.node.args.args[0].arg if f.node.args.args else None
            for n in ast.walk(f.node):
                if isinstance(n, ast.Attribute) and isinstance(n.ctx, (ast.Store, ast.Del)) and \
                        isinstance(n.value, ast.Name) and n.value.id == selfname:
                    names.add(n.attr)
                if isinstance(n, ast.Call) and isinstance(n.func, ast.Name) and n.func.id == "setattr" and n.args:
                    if isinstance(n.args[0], ast.Name) and n.args[0].id == selfname:
                        if len(n.args) > 1 and isinstance(n.args[1], ast.Constant):
                            names.add(n.args[1].value)
                        else:
                            dynamic = True
                if isinstance(n, ast.Attribute) and n.attr == "__dict__":
                    dynamic = True
    return names, resolved and not dynamic


_OBJECT_ATTRS = set(dir(object)) | {"__dict__", "__class__", "__module__", "__name__", "__qualname__"}


def check_self_attributes(run, rid, prog, funcs, what):
    """one obligation per (method, attribute read from self that nothing defines)"""
    n = 0
    cache = {}
    for f in funcs:
        if f.cls is None or not f.node.args.args:
            continue
        prog.consulted.add(f.relpath)
        if f.cls not in cache:
            cache[f.cls] = defined_attributes(prog, f.cls)
        names, closed = cache[f.cls]
        selfname = f.node.args.args[0].arg
        if selfname != "self":
            continue
        reads = {}
        guarded = set()
        for x in ast.walk(f.node):
            # hasattr(self, "X") / getattr(self, "X", d) / try: ... except AttributeError guard the read
            if isinstance(x, ast.Call) and isinstance(x.func, ast.Name) and x.func.id in ("hasattr", "getattr") and \
                    len(x.args) >= 2 and isinstance(x.args[1], ast.Constant):
                guarded.add(x.args[1].value)
            if isinstance(x, ast.Try):
                for h in x.handlers:
                    if h.type is None or "AttributeError" in norm(h.type) or norm(h.type) in ("Exception", "BaseException"):
                        for y in ast.walk(ast.Module(body=x.body, type_ignores=[])):
                            if isinstance(y, ast.Attribute) and isinstance(y.value, ast.Name) and y.value.id == "self":
                                guarded.add(y.attr)
        for x in walk_no_nested(f.node):
            if isinstance(x, ast.Attribute) and isinstance(x.ctx, ast.Load) and isinstance(x.value, ast.Name) \
                    and x.value.id == selfname:
                reads.setdefault(x.attr, x)
        n += 1
        missing = sorted(a for a in reads if a not in names and a not in _OBJECT_ATTRS and a not in guarded)
        ok = not missing or not closed
        first = reads[missing[0]] if missing else None
        run.obligation(rid, f.short, ok, key="self-attributes",
                       message="%s reads self.%s, which no method, class attribute or assignment of %s, its bases or "
                               "its subclasses defines (%s raises AttributeError on this path)"
                               % (f.short, ", self.".join(missing), f.cls.name, what),
                       loc=f.loc(first) if first is not None else f.loc(),
                       sample={"function": f.short, "attributes_read": len(reads), "class_closed": closed})
    return n


# ----------------------------------------------------------------------
# arity of calls that resolve exactly to a function of the package
def check_call_arity(run, rid, prog, funcs, what):
    """one obligation per function: every call in it that resolves (exactly) to a package function or
    method supplies all required parameters and no more positional arguments than the callee takes"""
    n = 0
    for f in funcs:
        bad = []
        ncalls = 0
        for c in [x for x in walk_no_nested(f.node) if isinstance(x, ast.Call)]:
            if any(isinstance(a, ast.Starred) for a in c.args) or any(k.arg is None for k in c.keywords):
                continue
            try:
                targets = prog.resolve_call(f, c, may=False)
            except Exception:
                targets = []
            if len(targets) != 1:
                continue
            t = targets[0]
            a = t.node.args
            params = [x.arg for x in a.posonlyargs + a.args]
            # bound method / constructor: self is supplied by the call machinery
            skip_self = t.cls is not None and params and params[0] in ("self", "cls") and \
                not any(isinstance(d, ast.Name) and d.id == "staticmethod" for d in t.node.decorator_list)
            if skip_self:
                # unbound call Class.method(obj, ...) passes self explicitly
                if isinstance(c.func, ast.Attribute) and isinstance(c.func.value, ast.Name):
                    from .loader import ClassInfo
                    if isinstance(prog.resolve_name(f.module, c.func.value.id, f), ClassInfo):
                        skip_self = False
            if skip_self:
                params = params[1:]
            ndef = len(a.defaults)
            required = params[:len(params) - ndef] if ndef else list(params)
            kwonly_req = [x.arg for x, d in zip(a.kwonlyargs, a.kw_defaults) if d is None]
            given_kw = {k.arg for k in c.keywords}
            npos = len(c.args)
            ncalls += 1
            missing = [p for i, p in enumerate(required) if i >= npos and p not in given_kw] + \
                      [p for p in kwonly_req if p not in given_kw]
            extra = npos > len(params) and a.vararg is None
            unknown_kw = [k for k in given_kw if k not in params and k not in [x.arg for x in a.kwonlyargs]
                          and a.kwarg is None]
            if missing or extra or unknown_kw:
                bad.append((c, t, missing, extra, unknown_kw))
        if ncalls:
            n += 1
            prog.consulted.add(f.relpath)
            run.obligation(rid, f.short, not bad, key="call-arity",
                           message="%s: %s" % (what, "; ".join(
                               "%s calls %s %s" % (norm(c)[:50], t.short,
                                                   ("without " + ", ".join(ms)) if ms else
                                                   ("with too many positional arguments" if ex else
                                                    "with unknown keyword(s) %s" % uk))
                               for c, t, ms, ex, uk in bad[:2])),
                           loc=f.loc(bad[0][0]) if bad else f.loc(),
                           sample={"function": f.short, "resolved_calls": ncalls})
    return n


# ----------------------------------------------------------------------
# isinstance(x, T): every member of T must be a class.  isinstance walks a tuple from the left and
# stops at the first match, so a member that is not a class (numpy.array is a function) raises
# TypeError exactly for the argument kinds listed after it - the documented kinds of the branch.
def _resolve_object(dotted_name):
    parts = dotted_name.split(".")
    for k in range(len(parts), 0, -1):
        try:
            obj = importlib.import_module(".".join(parts[:k]))
        except Exception:
            continue
        for p in parts[k:]:
            if not hasattr(obj, p):
                return None, False
            obj = getattr(obj, p)
        return obj, True
    return None, False


def check_isinstance_types(run, rid, prog, funcs, what):
    import builtins
    import typing
    n = 0
    for f in funcs:
        prog.consulted.add(f.relpath)
        for c in [x for x in walk_no_nested(f.node) if isinstance(x, ast.Call) and isinstance(x.func, ast.Name)
                  and x.func.id in ("isinstance", "issubclass") and len(x.args) == 2]:
            t = c.args[1]
            members = list(t.elts) if isinstance(t, ast.Tuple) else [t]
            bad = []
            for i, m in enumerate(members):
                verdict = None       # True: a class, False: certainly not a class, None: unknown
                ext = prog.external_name(f, m) if isinstance(m, (ast.Attribute, ast.Name)) else None
                if ext is not None:
                    obj, found = _resolve_object(ext)
                    if found:
                        verdict = isinstance(obj, type) or type(obj).__module__ == "typing" \
                            or isinstance(obj, getattr(typing, "_GenericAlias", ()))
                elif isinstance(m, ast.Name):
                    r = prog.resolve_name(f.module, m.id, f)
                    if r is not None and not isinstance(r, tuple):
                        verdict = not isinstance(r, FuncInfo)
                    elif r is None and hasattr(builtins, m.id):
                        verdict = isinstance(getattr(builtins, m.id), type)
                if verdict is False:
                    bad.append((i, norm(m)))
            n += 1
            after = [norm(x) for i, _ in bad[:1] for x in members[i + 1:]]
            run.obligation(rid, f.short, not bad, key="isinstance:" + norm(c)[:70],
                           message="%s tests %s, but %s is not a class: the test raises TypeError for every argument "
                                   "that is none of the kinds listed before it (%s and anything else)"
                                   % (f.short, norm(c), ", ".join(b for _, b in bad), ", ".join(after) or "the last kind"),
                           loc=f.loc(c), sample={"function": f.short, "test": norm(c)})
    return n


# ----------------------------------------------------------------------
# options are handed on: a method that receives an option and delegates to a method of the same object
# which has an option of the same name must pass it (otherwise the callee silently uses its default)
def check_option_forwarding(run, rid, prog, cls, names=None, what=""):
    n = 0
    methods = {}
    for b in reversed([x for x in prog.mro(cls) if x is not None]):
        for nme, fn in b.methods.items():
            methods[nme] = fn
    from .loader import demangle
    for fn in cls.methods.values():
        own = [a.arg for a in fn.node.args.args[1:]] + [a.arg for a in fn.node.args.kwonlyargs]
        for c in walk_no_nested(fn.node):
            if not (isinstance(c, ast.Call) and isinstance(c.func, ast.Attribute) and isinstance(c.func.value, ast.Name)
                    and c.func.value.id == "self"):
                continue
            tgt = methods.get(demangle(fn, c.func.attr))
            if tgt is None or tgt is fn:
                continue
            tparams = [a.arg for a in tgt.node.args.args[1:]]
            tkw = [a.arg for a in tgt.node.args.kwonlyargs]
            shared = [p for p in own if (p in tparams or p in tkw) and (names is None or p in names)]
            if not shared:
                continue
            if any(isinstance(a, ast.Starred) for a in c.args) or any(k.arg is None for k in c.keywords):
                continue
            for p in shared:
                passed = None
                for k in c.keywords:
                    if k.arg == p:
                        passed = k.value
                if passed is None and p in tparams and tparams.index(p) < len(c.args):
                    passed = c.args[tparams.index(p)]
                n += 1
                prog.consulted.add(fn.relpath)
                run.obligation(rid, fn.short, passed is not None, key="forwards:%s->%s" % (p, tgt.name),
                               message="%s receives %s but calls %s without it: the callee falls back to its default "
                                       "whatever the caller asked for (%s)" % (fn.short, p, tgt.short, what),
                               loc=fn.loc(c), sample={"caller": fn.short, "callee": tgt.short, "option": p,
                                                      "passed": norm(passed) if passed is not None else None})
    return n
