"""Self-test cases for C16."""
H = "quantarhei/qm/liouvillespace/heom.py"


def m(name, rule, old, new, count=1):
    return {"name": name, "kind": "mutant", "rule": rule, "edits": [(H, old, new, count)]}


def t(name, old, new, count=1):
    return {"name": name, "kind": "twin", "edits": [(H, old, new, count)]}


CASES = [
    m("Psi term loses its i (not Hermiticity preserving)", "C16-A",
      "                    ado3[nn,:,:] += (1j*dt)*2.0*nk* \\", "                    ado3[nn,:,:] += (dt)*2.0*nk* \\"),
    m("Theta uses commutator", "C16-A", "                                    (rr+rl)", "                                    (rr-rl)"),
    m("self rhs: step dropped from decay", "C16-A",
      "                                + self.hy.Gamma[nn]*ado1[nn,:,:])", "                                ) - self.hy.Gamma[nn]*ado1[nn,:,:]"),
    m("Psi- becomes anticommutator (root not trace-free)", "C16-A",
      "                    ado3[nn,:,:] += (1j*dt)*(rr-rl)", "                    ado3[nn,:,:] += (1j*dt)*(rr+rl)"),
    m("Gamma counts orders only", "C16-A",
      "                self.Gamma[nn] += self.hinds[nn,kk]*self.gamma[kk]", "                self.Gamma[nn] += self.hinds[nn,kk]"),
    m("propagate: only the self term", "C16-B",
      "                    ado1 = self._ado_cros_rhs(ado1, (self.dt/ll), slevel) \\\n                         + self._ado_self_rhs(ado1, (self.dt/ll), slevel)",
      "                    ado1 = self._ado_self_rhs(ado1, (self.dt/ll), slevel)"),
    m("propagate: dt instead of dt/ll in cross term", "C16-B",
      "                    ado1 = self._ado_cros_rhs(ado1, (self.dt/ll), slevel) \\",
      "                    ado1 = self._ado_cros_rhs(ado1, (self.dt), slevel) \\"),
    m("propagate stores member 1", "C16-B", "                rhot.data[indx,:,:] = ado2[0,:,:]", "                rhot.data[indx,:,:] = ado2[1,:,:]"),
    m("lower guard admits the sentinel", "C16-C", "                if nk*jj >= 0:", "                if nk >= 0:"),
    m("upper guard admits the sentinel", "C16-C", "                if jj > 0:\n   \n", "                if jj != 0:\n   \n"),
    m("missing lower link recorded as 0", "C16-C", "                venm = -1", "                venm = 0"),
    m("reset removed (the repaired defect)", "C16-D", "        self.hy.reset_ados()\n        \n        if free_hierarchy:", "        if free_hierarchy:"),
    m("reset after the initial condition", "C16-D",
      "        self.hy.reset_ados()\n        \n        if free_hierarchy:\n            \n            # first act with lifting superoperators\n            self.hy.ado[1,:,:] = rhoi.data",
      "        if free_hierarchy:\n            \n            # first act with lifting superoperators\n            self.hy.ado[1,:,:] = rhoi.data\n            self.hy.reset_ados()"),
    t("Psi- written with numpy.dot inline", "                    ado3[nn,:,:] += (1j*dt)*(rr-rl)",
      "                    ado3[nn,:,:] += 1j*dt*rr - 1j*dt*rl"),
    t("upper guard jj >= 1", "                if jj > 0:\n   \n", "                if jj >= 1:\n   \n"),
]

CASES += [
    m("multi-indices reached along two paths are kept twice", "C16-E",
      "                            if nlist not in new_level_prev:\n                                new_level_prev.append(nlist)",
      "                            if True:\n                                new_level_prev.append(nlist)"),
    m("upper link points two orders up", "C16-E",
      "                indxp[kk] += 1\n", "                indxp[kk] += 2\n"),
    m("lower link searched among all indices but the first", "C16-E",
      "                for ll in range(nn):\n                    if numpy.array_equal(self.hinds[ll,:], indxm):",
      "                for ll in range(1, nn):\n                    if numpy.array_equal(self.hinds[ll,:], indxm):"),
    m("level offsets not accumulated", "C16-E",
      "            start = start+lngth", "            start = lngth"),
    m("decay factor ignores the order", "C16-E",
      "                self.Gamma[nn] += self.hinds[nn,kk]*self.gamma[kk]", "                self.Gamma[nn] += self.gamma[kk]"),
    t("index generation with a set of seen tuples", 
      "                            if nlist not in new_level_prev:\n                                new_level_prev.append(nlist)",
      "                            if new_level_prev.count(nlist) == 0:\n                                new_level_prev.append(nlist)"),
]

OSY = "quantarhei/builders/opensystem.py"
CASES += [
    {"name": "propagator getter ignores the requested depth", "kind": "mutant", "rule": "C16-F", "edits": [
        (OSY, "        kth = self.get_KTHierarchy(depth)", "        kth = self.get_KTHierarchy()", 1)]},
    {"name": "hierarchy getter builds with a fixed depth", "kind": "mutant", "rule": "C16-F", "edits": [
        (OSY, "        return KTHierarchy(HH, sbi, depth=depth)", "        return KTHierarchy(HH, sbi, depth=2)", 1)]},
    {"name": "hierarchy bound to a local before it is returned", "kind": "twin", "edits": [
        (OSY, "        return KTHierarchy(HH, sbi, depth=depth)", "        hy = KTHierarchy(HH, sbi, depth)\n        return hy", 1)]},
]

SBI = "quantarhei/qm/liouvillespace/systembathinteraction.py"
CASES += [
    {"name": "reorganisation-energy getter counts baths from one", "kind": "mutant", "rule": "C16-G", "edits": [
        (SBI, "            return self.CC.get_reorganization_energy(i,j)", "            return self.CC.get_reorganization_energy(i-1,j-1)", 1)]},
]

CASES += [
    m("reorganisation energies read in the caller's units (the repaired defect)", "C16-H",
      "        with energy_units(\"int\"):\n            for ii in range(self.nbath):\n                self.lam[ii] = self.sbi.get_reorganization_energy(ii)",
      "        if True:\n            for ii in range(self.nbath):\n                self.lam[ii] = self.sbi.get_reorganization_energy(ii)"),
    m("right-hand side reads the Hamiltonian in the caller's units (the repaired defect)", "C16-H",
      "        with energy_units(\"int\"):\n            if self.hy.ham.has_rwa:\n                HH = self.hy.ham.data  - self.HOmega",
      "        if True:\n            if self.hy.ham.has_rwa:\n                HH = self.hy.ham.data  - self.HOmega"),
    m("frame energies taken from the units-managed data in the constructor", "C16-H",
      "                HOmega[ii,ii] = self.hy.ham.rwa_energies[ii]", "                HOmega[ii,ii] = HH[ii,ii]"),
    t("internal-units block around the whole constructor loop pair",
      "        self.lam = numpy.zeros(self.nbath, dtype=REAL)\n        # the hierarchy works with internal units, whatever units are\n        # current for the caller\n        with energy_units(\"int\"):\n            for ii in range(self.nbath):\n                self.lam[ii] = self.sbi.get_reorganization_energy(ii)",
      "        self.lam = numpy.zeros(self.nbath, dtype=REAL)\n        with energy_units(\"int\"):\n            lam_int = [self.sbi.get_reorganization_energy(ii) for ii in range(self.nbath)]\n        for ii in range(self.nbath):\n            self.lam[ii] = lam_int[ii]"),
    {"name": "Hamiltonian read moved into a private helper called under internal units", "kind": "twin", "edits": [
        (H, "        with energy_units(\"int\"):\n            if self.hy.ham.has_rwa:\n                HH = self.hy.ham.data  - self.HOmega\n            else:\n                HH = self.hy.ham.data\n",
         "        with energy_units(\"int\"):\n            HH = self._hamiltonian_matrix()\n", 1),
        (H, "    def _ado_self_rhs(self, ado1, dt, slevel=0):",
         "    def _hamiltonian_matrix(self):\n        if self.hy.ham.has_rwa:\n            return self.hy.ham.data - self.HOmega\n        return self.hy.ham.data\n\n    def _ado_self_rhs(self, ado1, dt, slevel=0):", 1)]},
]

CASES += [
    m("hierarchy result not marked as rotating-frame (the repaired defect)", "C16-I",
      "        rhot = DensityMatrixEvolution(timeaxis=self.timeaxis, rhoi=rhoi,\n                                      is_in_rwa=True)",
      "        rhot = DensityMatrixEvolution(timeaxis=self.timeaxis, rhoi=rhoi)"),
    m("initial state enters the frame with the conjugate phase", "C16-I",
      "        Ut = numpy.diag(numpy.exp(1j*HOmega*t0))", "        Ut = numpy.diag(numpy.exp(-1j*HOmega*t0))"),
    m("initial state used as submitted", "C16-I",
      "        rhoi = self._initial_state_in_RWA(rhoi)\n", ""),
    t("result marked by assignment", 
      "        rhot = DensityMatrixEvolution(timeaxis=self.timeaxis, rhoi=rhoi,\n                                      is_in_rwa=True)",
      "        rhot = DensityMatrixEvolution(timeaxis=self.timeaxis, rhoi=rhoi)\n        rhot.is_in_rwa = True"),
]

CASES += [
    {"name": "composite bath silently collapsed to its first component (the repaired defect)", "kind": "mutant", "rule": "C16-J", "edits": [
        ("quantarhei/qm/liouvillespace/heom.py", "            if len(cc.params) != 1:\n                raise Exception(\"HEOM is implemented for baths with a single\"\n                                +\" component; bath \"+str(ii)+\" has \"\n                                +str(len(cc.params)))\n", "", 1)]},
]

_DME = "quantarhei/qm/propagators/dmevolution.py"
_RWA_OLD = ("            for i, t in enumerate(self.TimeAxis.data):\n                # evolution operator\n"
            "                Ut = numpy.diag(numpy.exp(-sgn*1j*HOmega*t))\n")
CASES += [
    {"name": "frame left at times counted from the start of the axis (seeded changes of rounds 5 and 6)", "kind": "mutant", "rule": "C16-K", "edits": [
        (_DME, _RWA_OLD, "            for i in range(self.TimeAxis.length):\n                t = i*self.TimeAxis.step\n                # evolution operator\n"
                         "                Ut = numpy.diag(numpy.exp(-sgn*1j*HOmega*t))\n", 1)]},
]

CASES += [
    {"name": "reduced density matrix renormalised to unit trace when stored", "kind": "mutant", "rule": "C16-L", "edits": [
        ("quantarhei/qm/liouvillespace/heom.py", "                rhot.data[indx,:,:] = ado2[0,:,:]", "                rhot.data[indx,:,:] = ado2[0,:,:]/numpy.trace(ado2[0,:,:])", 1)]},
]

CASES += [
    {"name": "site operators: vibrational branch chosen by the ground state's sub-levels (seeded change of round 7)", "kind": "mutant", "rule": "C16-M", "edits": [
        ("quantarhei/builders/aggregate_base.py", "            if self.nmono != self.Nb[1]:\n                # create a projection operator for each monomer", "            if len(self.vibindices[0]) > 1:\n                # create a projection operator for each monomer", 1)]},
    {"name": "site operators: branch chosen by total and electronic state counts", "kind": "twin", "edits": [
        ("quantarhei/builders/aggregate_base.py", "            if self.nmono != self.Nb[1]:\n                # create a projection operator for each monomer", "            if self.Ntot != self.Nel:\n                # create a projection operator for each monomer", 1)]},
]

_MOL16 = "quantarhei/builders/molecules.py"
_D_OLD = ("                    # for each bath, save the state of the \n                    # transition g -> j\n"
          "                    d[nob] = j\n                    \n                    nob += 1\n")
CASES += [
    {"name": "states of the transitions appended for every transition, baths counted for those with an environment "
             "(seeded change of round 8)", "kind": "mutant", "rule": "C16-N", "edits": [
        (_MOL16, "                eg = self.egcf[self.triangle.locate(i,j)]\n                if eg is not None:\n                    # we save where",
                 "                eg = self.egcf[self.triangle.locate(i,j)]\n                trstates.append(j)\n                if eg is not None:\n                    # we save where", 1),
        (_MOL16, "        d = {}\n        where = {}\n        for i in range(self.nel):\n            if i > 0:\n                break # transitions not",
                 "        d = {}\n        trstates = []\n        where = {}\n        for i in range(self.nel):\n            if i > 0:\n                break # transitions not", 1),
        (_MOL16, "            state = d[n]\n", "            state = trstates[n]\n", 1)]},
    {"name": "state of the transition recorded after the counter advanced", "kind": "mutant", "rule": "C16-N", "edits": [
        (_MOL16, _D_OLD, "                    nob += 1\n                    d[nob] = j\n", 1)]},
    {"name": "states of the transitions appended where the baths are counted", "kind": "twin", "edits": [
        (_MOL16, _D_OLD, "                    d[nob] = j\n                    trstates.append(j)\n                    nob += 1\n", 1),
        (_MOL16, "        d = {}\n        where = {}\n        for i in range(self.nel):\n            if i > 0:\n                break # transitions not",
                 "        d = {}\n        trstates = []\n        where = {}\n        for i in range(self.nel):\n            if i > 0:\n                break # transitions not", 1),
        (_MOL16, "            state = d[n]\n", "            state = trstates[n]\n", 1)]},
]

CASES += [
    {"name": "bath counter advanced with nob = nob + 1", "kind": "twin", "edits": [
        (_MOL16, _D_OLD, "                    d[nob] = j\n                    nob = nob + 1\n", 1)]},
    {"name": "bath counter written out, state recorded after it advanced", "kind": "mutant", "rule": "C16-N", "edits": [
        (_MOL16, _D_OLD, "                    nob = nob + 1\n                    d[nob] = j\n", 1)]},
]

_HE9 = "quantarhei/qm/liouvillespace/heom.py"
CASES += [
    {"name": "rho.V taken as the adjoint of V.rho in the cross-tier terms (seeded change of round 9)", "kind": "mutant", "rule": "C16-O",
     "edits": [(_HE9, "                    rl = numpy.dot(ado1[jj,:,:],self.hy.Vs[kk,:,:])\n", "                    rl = numpy.conj(rr.T)\n", 2)]},
    {"name": "rho.V taken as the conjugate transpose of V.rho in the raising term only", "kind": "mutant", "rule": "C16-O",
     "edits": [(_HE9, "                    rr = numpy.dot(self.hy.Vs[kk,:,:], ado1[jj, :,:])\n                    rl = numpy.dot(ado1[jj,:,:],self.hy.Vs[kk,:,:])\n",
                "                    rr = numpy.dot(self.hy.Vs[kk,:,:], ado1[jj, :,:])\n                    rl = rr.conj().transpose()\n", 1)]},
    {"name": "rho.V written with the @ operator", "kind": "twin",
     "edits": [(_HE9, "                    rl = numpy.dot(ado1[jj,:,:],self.hy.Vs[kk,:,:])\n", "                    rl = ado1[jj,:,:] @ self.hy.Vs[kk,:,:]\n", 2)]},
]
