"""Self-test cases for C04."""
L = "quantarhei/qm/liouvillespace/"
M = "quantarhei/core/managers.py"


def m(name, rule, path, old, new, count=1):
    return {"name": name, "kind": "mutant", "rule": rule, "edits": [(path, old, new, count)]}


def t(name, path, old, new, count=1):
    return {"name": name, "kind": "twin", "edits": [(path, old, new, count)]}


CASES = [
    m("exit: pop of transformations made conditional", "C04-B1", M,
      "        SS = self.manager.basis_transformations.pop()\n",
      "        if len(self.manager.basis_transformations) > 1:\n            SS = self.manager.basis_transformations.pop()\n"),
    m("exit: registry entry not deleted", "C04-B1", M,
      "        del self.manager.basis_registered[bb]\n", "        pass\n"),
    m("exit: objects not re-tagged", "C04-B1", M,
      "            op.set_current_basis(nb)\n", "            pass\n"),
    m("exit: returns True (swallows exceptions)", "C04-B1", M,
      "        if len(self.manager.basis_stack) == 1:\n            self.manager._in_eigenbasis_of_context = False\n",
      "        if len(self.manager.basis_stack) == 1:\n            self.manager._in_eigenbasis_of_context = False\n        return True\n"),
    m("exit: transform back with the forward matrix", "C04-B1", M,
      "                op.transform(S1,inv=SS) ", "                op.transform(SS,inv=S1) "),
    m("set_new_basis forgets the transformation", "C04-B1", M,
      "        self.basis_transformations.append(SS)\n", ""),
    m("library code pops the basis stack", "C04-B2", "quantarhei/qm/hilbertspace/hamiltonian.py",
      "        if self._has_remainder_coupling:\n            self._data += self.JR ",
      "        self.manager.basis_stack.pop()\n        if self._has_remainder_coupling:\n            self._data += self.JR "),
    m("context constructed and entered by hand", "C04-B2", "quantarhei/builders/opensystem.py",
      "        with eigenbasis_of(H):\n            \n            if numpy.abs(T) < 1.0e-10:",
      "        ctx = eigenbasis_of(H)\n        ctx.__enter__()\n        if True:\n            \n            if numpy.abs(T) < 1.0e-10:"),
    m("Operator no longer tags itself", "C04-B3", "quantarhei/qm/hilbertspace/operators.py",
      "            cb = self.manager.get_current_basis()\n            self.set_current_basis(cb)\n            # unless it is the basis outside any context\n            if cb != 0:\n                self.manager.register_with_basis(cb, self)\n                \n            self.name=name",
      "            self.name=name"),
    m("StateVector tagging removed (the repaired defect)", "C04-B3", "quantarhei/qm/hilbertspace/statevector.py",
      "        cb = self.manager.get_current_basis()\n        self.set_current_basis(cb)\n", "        cb = 0\n"),
    m("SuperOperator right index pair S1.M.S (the repaired defect)", "C04-B4", L + "superoperator.py",
      "numpy.dot(SS.T,numpy.dot(self._data[a,b,:,:],S1.T))", "numpy.dot(S1,numpy.dot(self._data[a,b,:,:],SS))"),
    m("RelaxationTensor rank-5 right pair reverted", "C04-B4", L + "relaxationtensor.py",
      "numpy.dot(SS.T,numpy.dot(self._data[tt,a,b,:,:],S1.T))", "numpy.dot(S1,numpy.dot(self._data[tt,a,b,:,:],SS))"),
    m("TDRedfield right pair reverted", "C04-B4", L + "tdredfieldtensor.py",
      "numpy.dot(SS.T,numpy.dot(self._data[tt,a,b,:,:],S1.T))", "numpy.dot(S1,numpy.dot(self._data[tt,a,b,:,:],SS))"),
    m("Hamiltonian.transform forgets JR", "C04-B4", "quantarhei/qm/hilbertspace/hamiltonian.py",
      "            self.JR = numpy.dot(S1,numpy.dot(self.JR,SS))", "            pass"),
    m("Operator.transform swaps S and S1", "C04-B4", "quantarhei/qm/hilbertspace/operators.py",
      "        self._data = numpy.dot(S1,numpy.dot(self._data,SS))\n        \n                \n    def assert_square_matrix",
      "        self._data = numpy.dot(SS,numpy.dot(self._data,S1))\n        \n                \n    def assert_square_matrix"),
    m("Redfield operator form: Ld not transformed", "C04-B4", L + "redfieldtensor.py",
      "                self._Ld[m,:,:] = numpy.dot(S1,numpy.dot(self._Ld[m,:,:], SS))\n", ""),
    m("DensityMatrixEvolution ignores inv", "C04-B4", "quantarhei/qm/propagators/dmevolution.py",
      "            S1 = inv\n\n        #S1 = scipy.linalg.inv(SS)                 ", "            S1 = SS\n\n        #S1 = scipy.linalg.inv(SS)                 "),
    m("setter skips the basis transformation", "C04-B5", "quantarhei/utils/types.py",
      "        if cb == ob:\n            pass\n        else:\n            # change basis\n            self.manager.transform_to_current_basis(self)\n\n        try:\n            vl = check_numpy_array(value)\n            if not (shape == None):\n                if not (shape == vl.shape):\n                    raise TypeError(\n                    '{} must be of shape {}'.format(name,shape))  \n            setattr(self,storage_name,vl)",
      "        try:\n            vl = check_numpy_array(value)\n            if not (shape == None):\n                if not (shape == vl.shape):\n                    raise TypeError(\n                    '{} must be of shape {}'.format(name,shape))  \n            setattr(self,storage_name,vl)"),
    m("lazy transform does not register the object", "C04-B5", M,
      "            self.register_with_basis(cb,operator)\n", ""),
    m("stacked transformations composed in the wrong order", "C04-B5", M,
      "                    SS = numpy.dot(ZZ,SS)                ", "                    SS = numpy.dot(SS,ZZ)                "),
    # twins
    t("SuperOperator left pair via @", L + "superoperator.py",
      "                    self._data[:,:,c,d] = \\\n                    numpy.dot(S1,numpy.dot(self._data[:,:,c,d],SS))",
      "                    self._data[:,:,c,d] = \\\n                    S1 @ self._data[:,:,c,d] @ SS"),
    t("SuperOperator right pair via einsum", L + "superoperator.py",
      "                    self._data[a,b,:,:] = \\\n                    numpy.dot(SS.T,numpy.dot(self._data[a,b,:,:],S1.T))",
      "                    self._data[a,b,:,:] = \\\n                    numpy.einsum('cx,cd,yd->xy', SS, self._data[a,b,:,:], S1)"),
    t("Operator.transform regrouped", "quantarhei/qm/hilbertspace/operators.py",
      "        self._data = numpy.dot(S1,numpy.dot(self._data,SS))\n        \n                \n    def assert_square_matrix",
      "        self._data = numpy.dot(numpy.dot(S1,self._data),SS)\n        \n                \n    def assert_square_matrix"),
]

CASES += [
    t("exit: local variables renamed", M,
      "        bb = self.manager.basis_stack.pop()\n        # this is the transformation we got here with\n        SS = self.manager.basis_transformations.pop()\n        # This is the new basis\n        bss = len(self.manager.basis_stack)\n        nb = self.manager.basis_stack[bss-1]\n        \n        # inverse of the transformation matrix\n        S1 = numpy.linalg.inv(SS)     \n        \n        # transform all registered objects\n        operators = self.manager.basis_registered[bb]\n        \n        if nb != 0:\n            # operators registered with the context above this one\n            ops_above = self.manager.basis_registered[nb]\n\n        # an object that cannot be transformed back (e.g. one created inside\n        # the context which holds no data yet) must not leave the other\n        # objects and the bookkeeping in the basis we are leaving; its\n        # exception is raised when everything else is back\n        failed = None\n\n        for op in operators:\n            # the operator might have been set to protected mode\n            # inside the context\n            if not op.is_basis_protected:\n                try:\n                    op.transform(S1,inv=SS) \n                except Exception as exc:\n                    if failed is None:\n                        failed = exc\n            op.set_current_basis(nb)\n            \n            # operators which appeared in this context and where not\n            # register in the one above are now registerd\n            if nb != 0:\n                if op not in ops_above:\n                    self.manager.register_with_basis(nb,op)\n            \n        self.manager.store_current_basis_operator(self._op_backup.pop())\n            \n        del self.manager.basis_registered[bb]",
      "        left = self.manager.basis_stack.pop()\n        TT = self.manager.basis_transformations.pop()\n        top = self.manager.basis_stack[-1]\n        Tinv = numpy.linalg.inv(TT)     \n        \n        if top != 0:\n            ops_above = self.manager.basis_registered[top]\n\n        failed = None\n        for obj in self.manager.basis_registered[left]:\n            if not obj.is_basis_protected:\n                try:\n                    obj.transform(Tinv,inv=TT) \n                except Exception as exc:\n                    if failed is None:\n                        failed = exc\n            obj.set_current_basis(top)\n            if top != 0:\n                if obj not in ops_above:\n                    self.manager.register_with_basis(top,obj)\n            \n        self.manager.store_current_basis_operator(self._op_backup.pop())\n            \n        del self.manager.basis_registered[left]"),
]

OPS = "quantarhei/qm/hilbertspace/operators.py"
CASES += [
    {"name": "diagonalisation by the general eigen-solver (unsorted)", "kind": "mutant", "rule": "C04-B1", "edits": [
        (OPS, "        dd, SS = numpy.linalg.eigh(self._data)\n        return SS", "        dd, SS = numpy.linalg.eig(self._data)\n        return SS", 1)]},
    {"name": "diagonalisation matrix remembered from the first call", "kind": "mutant", "rule": "C04-B1", "edits": [
        (OPS, "        dd, SS = numpy.linalg.eigh(self._data)\n        return SS", "        if getattr(self, \"_SSd\", None) is None:\n            dd, self._SSd = numpy.linalg.eigh(self._data)\n        return self._SSd", 1)]},
    {"name": "eigenvectors taken by index", "kind": "twin", "edits": [
        (OPS, "        dd, SS = numpy.linalg.eigh(self._data)\n        return SS", "        return numpy.linalg.eigh(self._data)[1]", 1)]},
]

CASES += [
    {"name": "copy made by apply() left unknown to the basis manager (the repaired defect)", "kind": "mutant", "rule": "C04-B3", "edits": [
        ("quantarhei/qm/liouvillespace/superoperator.py", "            if ob != 0:\n                oper_ven.manager.register_with_basis(ob, oper_ven)\n", "", 1)]},
    {"name": "copy registered through a named manager", "kind": "twin", "edits": [
        ("quantarhei/qm/liouvillespace/superoperator.py", "            if ob != 0:\n                oper_ven.manager.register_with_basis(ob, oper_ven)\n",
         "            mgr = oper_ven.manager\n            if ob != 0:\n                mgr.register_with_basis(ob, oper_ven)\n", 1)]},
]

CASES += [
    {"name": "basis operator cleared on exit instead of restored (the repaired defect)", "kind": "mutant", "rule": "C04-B1", "edits": [
        ("quantarhei/core/managers.py", "        self.manager.store_current_basis_operator(self._op_backup.pop())", "        self._op_backup.pop()\n        self.manager.remove_current_basis_operator()", 1)]},
    {"name": "basis operator registered when the context object is created (the repaired defect)", "kind": "mutant", "rule": "C04-B1", "edits": [
        ("quantarhei/core/managers.py", "        self._op_backup = []\n", "        self._op_backup = []\n        self.manager.store_current_basis_operator(self.op)\n", 1)]},
    {"name": "previous basis operator kept in a differently named stack", "kind": "twin", "edits": [
        ("quantarhei/core/managers.py", "self._op_backup", "self._previous_ops", 3)]},
]

DMEV = "quantarhei/qm/propagators/dmevolution.py"
CASES += [
    m("TD Redfield class body rebinds the managed operators (the repaired defect)", "C04-B6", L + "tdredfieldtensor.py",
      "    # the operators Km, Lm and Ld are the basis-managed ones of the\n    # time-independent tensor; Lm and Ld carry a leading time index\n",
      "    Lm = None\n    Ld = None\n    Km = None\n"),
    m("Lindblad form rebinds the tensor data to a plain class attribute", "C04-B6", L + "lindbladform.py",
      "class LindbladForm(RedfieldRelaxationTensor):\n", "class LindbladForm(RedfieldRelaxationTensor):\n    Km = []\n"),
    m("at() hands out a view of the evolution (the repaired defect)", "C04-B7", DMEV,
      "        return DensityMatrix(data=self.data[ti, :, :].copy())", "        return DensityMatrix(data=self.data[ti, :, :])"),
    t("at() copies with numpy.array", DMEV,
      "        return DensityMatrix(data=self.data[ti, :, :].copy())", "        return DensityMatrix(data=numpy.array(self.data[ti, :, :]))"),
    m("exit leaves at once when a transform raises (the repaired defect)", "C04-B1", M,
      "                try:\n                    op.transform(S1,inv=SS) \n                except Exception as exc:\n                    if failed is None:\n                        failed = exc\n",
      "                op.transform(S1,inv=SS) \n"),
    m("exit swallows the failure of a transform", "C04-B1", M,
      "        if failed is not None:\n            raise failed\n", ""),
    m("exit re-raises before the bookkeeping is back", "C04-B1", M,
      "                except Exception as exc:\n                    if failed is None:\n                        failed = exc\n",
      "                except Exception as exc:\n                    raise\n"),
    m("superoperator transform writes into storage of any type (the repaired defect)", "C04-B8", L + "superoperator.py",
      "        # the values are written back into the storage\n        self._data = self._storage_for_transform(self._data, SS)\n", ""),
    m("dipole transform writes into storage of any type", "C04-B8", "quantarhei/qm/hilbertspace/dmoment.py",
      "        self._data = self._storage_for_transform(self._data, SS)\n", ""),
    m("storage promoted only after the first loop", "C04-B8", L + "relaxationtensor.py",
      "        # the values are written back into the storage\n        self._data = self._storage_for_transform(self._data, SS)\n        \n        if self._data.ndim == 4:\n            for c in range(dim):",
      "        if self._data.ndim == 4:\n            self._data = self._storage_for_transform(self._data, SS) if False else self._data\n            for c in range(dim):"),
    m("promotion helper ignores the transformation matrix", "C04-B8", M,
      "        rtype = numpy.result_type(data.dtype, SS.dtype, numpy.float64)", "        rtype = numpy.result_type(data.dtype, numpy.float64)"),
    t("promotion written with astype in place", L + "superoperator.py",
      "        self._data = self._storage_for_transform(self._data, SS)\n",
      "        self._data = self._data.astype(numpy.result_type(self._data.dtype, SS.dtype, numpy.float64))\n"),
    m("deep copy not registered (the repaired defect)", "C04-B3", "quantarhei/core/saveable.py",
      "                new.manager.register_with_basis(ob, new)\n", "                pass\n"),
]

CASES += [
    {"name": "conjugated operators kept across calls, keyed on the basis id (seeded change of round 5)", "kind": "mutant", "rule": "C04-B10", "edits": [
        (L + "redfieldtensor.py", "            Kd = numpy.zeros(Km.shape, dtype=Km.dtype)\n            Nm = Km.shape[0]\n            ven = numpy.zeros(oper.data.shape, dtype=numpy.complex128)\n            for mm in range(Nm):\n                Kd[mm, :, :] = numpy.conj(numpy.transpose(Km[mm, :, :]))\n",
         "            Nm = Km.shape[0]\n            if (self._Kd is None) or (self._Kd_basis != self.get_current_basis()):\n                self._Kd = numpy.conj(numpy.transpose(Km, (0, 2, 1)))\n                self._Kd_basis = self.get_current_basis()\n            Kd = self._Kd\n            ven = numpy.zeros(oper.data.shape, dtype=numpy.complex128)\n            for mm in range(Nm):\n", 1),
        (L + "redfieldtensor.py", "    Km = BasisManagedComplexArray(\"Km\")\n", "    Km = BasisManagedComplexArray(\"Km\")\n    _Kd = None\n    _Kd_basis = None\n", 1)]},
]

CASES += [
    {"name": "component operator built on a view of the dipole storage (the repaired defect)", "kind": "mutant", "rule": "C04-B11", "edits": [
        ("quantarhei/qm/hilbertspace/dmoment.py", "                                   data=self.data[:,:,n].copy())", "                                   data=self.data[:,:,n])", 1)]},
    {"name": "tensors added through their raw storages (the repaired defect)", "kind": "mutant", "rule": "C04-B12", "edits": [
        ("quantarhei/qm/liouvillespace/relaxationtensor.py", "        self.data = self.data + other.data\n        return self", "        self._data += other._data\n        return self", 1)]},
]

CASES += [
    {"name": "leaving a context reads the transformation without popping it", "kind": "mutant", "rule": "C04-B13", "edits": [
        ("quantarhei/core/managers.py", "        SS = self.manager.basis_transformations.pop()\n", "        SS = self.manager.basis_transformations[-1]\n", 1)]},
    {"name": "new transformations are put in front of the list", "kind": "mutant", "rule": "C04-B13", "edits": [
        ("quantarhei/core/managers.py", "        self.basis_stack.append(nb)\n        self.basis_transformations.append(SS)\n", "        self.basis_stack.append(nb)\n        self.basis_transformations.insert(0, SS)\n", 1)]},
]

CASES += [
    {"name": "tensor form computed from the raw operator storage (seeded change of round 8, under C02)", "kind": "mutant", "rule": "C04-B14", "edits": [
        ("quantarhei/qm/liouvillespace/redfieldtensor.py", "            RR = self._convert_operators_2_tensor(self.Km, self.Lm, self.Ld)", "            RR = self._convert_operators_2_tensor(self._Km, self._Lm, self._Ld)", 1)]},
]

_MG4 = "quantarhei/core/managers.py"
CASES += [
    {"name": "context flag set before the operator is asked for its diagonalisation (the repaired defect)", "kind": "mutant", "rule": "C04-B15", "edits": [
        (_MG4, "        cb = self.manager.get_current_basis()\n        ob = self.op.get_current_basis()\n",
               "        self.manager._in_eigenbasis_of_context = True\n        cb = self.manager.get_current_basis()\n        ob = self.op.get_current_basis()\n", 1)]},
    {"name": "diagonalisation asked for before the basis of the operator", "kind": "twin", "edits": [
        (_MG4, "        #SS = self.op.diagonalize()\n        SS = self.op.get_diagonalization_matrix()\n\n        # the operator which defines",
               "        SS = self.op.get_diagonalization_matrix()\n        SS = numpy.array(SS)\n\n        # the operator which defines", 1)]},
]

_OP4 = "quantarhei/qm/hilbertspace/operators.py"
CASES += [
    {"name": "is_diagonal answers from the raw storage (the repaired defect)", "kind": "mutant", "rule": "C04-B16", "edits": [
        (_OP4, "        dat = self.data.copy()\n        for i in range(self.dim):\n            dat[i,i] = 0.0\n", "        dat = self._data.copy()\n        for i in range(self.dim):\n            dat[i,i] = 0.0\n", 1)]},
    {"name": "is_diagonal touches the managed data and then uses the storage", "kind": "twin", "edits": [
        (_OP4, "        dat = self.data.copy()\n        for i in range(self.dim):\n            dat[i,i] = 0.0\n", "        self.data\n        dat = self._data.copy()\n        for i in range(self.dim):\n            dat[i,i] = 0.0\n", 1)]},
]

CASES += [
    t("stacked transformations: locals renamed, product written with @", M,
      "                    ZZ = self.basis_transformations[sl-k]\n\n                    # included it into the transformation matrix\n                    SS = numpy.dot(ZZ,SS)                ",
      "                    Zk = self.basis_transformations[sl-k]\n\n                    # included it into the transformation matrix\n                    SS = Zk @ SS"),
    t("stacked transformations: element of the stack used directly", M,
      "                    SS = numpy.dot(ZZ,SS)                ",
      "                    SS = numpy.dot(self.basis_transformations[sl-k],SS)"),
    m("stacked transformations walked from the bottom of the stack", "C04-B5", M,
      "                    ZZ = self.basis_transformations[sl-k]\n", "                    ZZ = self.basis_transformations[k]\n"),
]

_DM9 = "quantarhei/qm/hilbertspace/dmoment.py"
CASES += [
    m("a component operator built on the accessor's view of the dipole data (seeded change of round 9)", "C04-B17", _DM9,
      "data=self.data[:,:,n].copy())", "data=self.get_compoment_data(n))"),
    m("a component operator built on a slice of the dipole data", "C04-B17", _DM9,
      "data=self.data[:,:,n].copy())", "data=self.data[:,:,n])"),
    t("a component operator built on a numpy.array copy of the slice", _DM9,
      "data=self.data[:,:,n].copy())", "data=numpy.array(self.data[:,:,n]))"),
    t("a component operator built on a copy of what the accessor returns", _DM9,
      "data=self.data[:,:,n].copy())", "data=self.get_compoment_data(n).copy())"),
]
