"""Self-test cases for C20."""
P = "quantarhei/core/parallel.py"
R = "quantarhei/qm/liouvillespace/redfieldtensor.py"


def m(name, rule, path, old, new, count=1):
    return {"name": name, "kind": "mutant", "rule": rule, "edits": [(path, old, new, count)]}


def t(name, path, old, new, count=1):
    return {"name": name, "kind": "twin", "edits": [(path, old, new, count)]}


CASES = [
    m("start ignored (the repaired defect)", "C20-A", P, "        N1_local = start + rank*per_worker", "        N1_local = rank*per_worker"),
    m("remainder distributed off by one", "C20-B", P, "                N1_local += rank-1\n                N2_local += rank", "                N1_local += rank\n                N2_local += rank"),
    m("high ranks not shifted by the remainder", "C20-B", P, "            N1_local += remainder\n            N2_local += remainder", "            N1_local += remainder\n            N2_local += remainder - 1"),
    m("strict comparison moves the boundary case", "C20-B", P, "        if rank <= remainder:", "        if rank < remainder:"),
    m("block of another rank returned", "C20-B", P, "    return ranges[config.rank]", "    return ranges[0]"),
    m("remainder computed from stop", "C20-B", P, "    remainder = whole_range % config.size  ", "    remainder = stop % config.size  "),
    m("reduction moved after the region", "C20-C", R,
      "        distributed_configuration().allreduce(RR, operation=\"sum\")\n        #tt2 = time.time()\n        \n        close_parallel_region()",
      "        close_parallel_region()\n        distributed_configuration().allreduce(RR, operation=\"sum\")\n        #tt2 = time.time()\n        "),
    m("reduction dropped", "C20-C", R, "        distributed_configuration().allreduce(Lm, operation=\"sum\")\n", ""),
    m("distributed kernel assigns instead of accumulating", "C20-C", "quantarhei/implementations/python/redfieldrates.py",
      "                    RR[i,j] += (cc[k,i,j]*KK[i,j]*KK[j,i])", "                    RR[i,j] = (cc[k,i,j]*KK[i,j]*KK[j,i])"),
    t("boundaries computed in one expression", P,
      "        N1_local = start + rank*per_worker\n        N2_local = N1_local+per_worker", "        N1_local = rank*per_worker + start\n        N2_local = start + (rank+1)*per_worker"),
    t("nested ifs merged", P,
      "        if rank <= remainder:\n            if rank != 0:\n                N1_local += rank-1\n                N2_local += rank\n        else:",
      "        if rank <= remainder and rank != 0:\n            N1_local += rank-1\n            N2_local += rank\n        elif rank <= remainder:\n            pass\n        else:"),
]

CASES += [
    m("list helper numbers the elements of the block from zero", "C20-E", P,
      "            for a in range(rng[0],rng[1]):\n                lst.append((a, dlist[a]))", "            for a in range(rng[0],rng[1]):\n                lst.append((a-rng[0], dlist[a]))"),
    m("array helper hands out the whole array again (the repaired defect)", "C20-E", P,
      "            for a in range(rng[0],rng[1]):\n                lst.append((a, array[a]))", "            for a in range(array.shape[0]):\n                lst.append((a, array[a]))"),
]

CASES += [
    {"name": "conjugated operators filled inside the distributed loop and never reduced", "kind": "mutant", "rule": "C20-C", "edits": [
        ("quantarhei/qm/liouvillespace/redfieldtensor.py",
         "        Lm = numpy.zeros((Nb, Na, Na), dtype=numpy.complex128)\n", "        Lm = numpy.zeros((Nb, Na, Na), dtype=numpy.complex128)\n        Ld = numpy.zeros((Nb, Na, Na), dtype=numpy.complex128)\n", 1),
        ("quantarhei/qm/liouvillespace/redfieldtensor.py",
         "                self._guts_Cmplx_Splines(ms, Lm, Km, Na, Om, length, rc1, tm)\n", "                self._guts_Cmplx_Splines(ms, Lm, Km, Na, Om, length, rc1, tm)\n                Ld[ms, :, :] = numpy.conj(numpy.transpose(Lm[ms,:,:]))\n", 1),
        ("quantarhei/qm/liouvillespace/redfieldtensor.py",
         "        Ld = numpy.zeros((Nb, Na, Na), dtype=numpy.complex128)\n        for ms in range(Nb):\n            Ld[ms, :, :] += numpy.conj(numpy.transpose(Lm[ms,:,:]))        \n", "", 1)]},
    {"name": "conjugated operators filled inside the distributed loop and reduced with the others", "kind": "twin", "edits": [
        ("quantarhei/qm/liouvillespace/redfieldtensor.py",
         "        Lm = numpy.zeros((Nb, Na, Na), dtype=numpy.complex128)\n", "        Lm = numpy.zeros((Nb, Na, Na), dtype=numpy.complex128)\n        Ld = numpy.zeros((Nb, Na, Na), dtype=numpy.complex128)\n", 1),
        ("quantarhei/qm/liouvillespace/redfieldtensor.py",
         "                self._guts_Cmplx_Splines(ms, Lm, Km, Na, Om, length, rc1, tm)\n", "                self._guts_Cmplx_Splines(ms, Lm, Km, Na, Om, length, rc1, tm)\n                Ld[ms, :, :] += numpy.conj(numpy.transpose(Lm[ms,:,:]))\n", 1),
        ("quantarhei/qm/liouvillespace/redfieldtensor.py",
         "        distributed_configuration().allreduce(Lm, operation=\"sum\")\n", "        distributed_configuration().allreduce(Lm, operation=\"sum\")\n        distributed_configuration().allreduce(Ld, operation=\"sum\")\n", 1),
        ("quantarhei/qm/liouvillespace/redfieldtensor.py",
         "        Ld = numpy.zeros((Nb, Na, Na), dtype=numpy.complex128)\n        for ms in range(Nb):\n            Ld[ms, :, :] += numpy.conj(numpy.transpose(Lm[ms,:,:]))        \n", "", 1)]},
]

CASES += [
    {"name": "serial path of the range helper does not record its block (the repaired defect)", "kind": "mutant", "rule": "C20-F", "edits": [
        ("quantarhei/core/parallel.py", "        if config.parallel_region == 1:\n            config.range = [start, stop]\n        \n        return range(start, stop)", "        return range(start, stop)", 1)]},
    {"name": "serial block recorded as a tuple", "kind": "twin", "edits": [
        ("quantarhei/core/parallel.py", "            config.range = [start, stop]\n", "            config.range = (start, stop)\n", 1)]},
]

CASES += [
    {"name": "nested loop overwrites the recorded block: range helper (the repaired defect)", "kind": "mutant", "rule": "C20-F", "edits": [
        ("quantarhei/core/parallel.py", "        if config.parallel_region == 1:\n            config.range = [start, stop]\n", "        config.range = [start, stop]\n", 1)]},
    {"name": "nested loop overwrites the recorded block: list helper (the repaired defect)", "kind": "mutant", "rule": "C20-F", "edits": [
        ("quantarhei/core/parallel.py", "        rng = [0, len(dlist)]\n        # in a nested region the record belongs to the outermost loop\n        if config.parallel_region == 1:\n            config.range = rng\n", "        rng = [0, len(dlist)]\n        config.range = rng\n", 1)]},
    {"name": "array helper records for the wrong nesting depth", "kind": "mutant", "rule": "C20-F", "edits": [
        ("quantarhei/core/parallel.py", "        rng = [0, array.shape[0]]\n        # in a nested region the record belongs to the outermost loop\n        if config.parallel_region == 1:", "        rng = [0, array.shape[0]]\n        # in a nested region the record belongs to the outermost loop\n        if config.parallel_region > 1:", 1)]},
    {"name": "allreduce writes back with two indices (the repaired defect)", "kind": "mutant", "rule": "C20-F", "edits": [
        ("quantarhei/core/parallel.py", "            A[...] = B", "            A[:,:] = B", 1)]},
    {"name": "allreduce writes back with a full slice", "kind": "twin", "edits": [
        ("quantarhei/core/parallel.py", "            A[...] = B", "            A[:] = B", 1)]},
]

CASES += [
    {"name": "allreduce guarded by the 'in parallel' flag (seeded change of round 5)", "kind": "mutant", "rule": "C20-G", "edits": [
        ("quantarhei/core/parallel.py", "        # only in parallel_level == 1 we share the work\n        if self.parallel_level != 1:\n            return \n", "        if not self.inparallel:\n            return \n", 1)]},
    {"name": "reduce acts at every depth", "kind": "mutant", "rule": "C20-G", "edits": [
        ("quantarhei/core/parallel.py", "        if self.parallel_level != 1:\n            return A\n", "        if self.parallel_level < 1:\n            return A\n", 1)]},
]

CASES += [
    {"name": "empty range answered before the block is recorded (seeded change of round 6)", "kind": "mutant", "rule": "C20-F", "edits": [
        ("quantarhei/core/parallel.py", "        raise Exception(\"This code has to be run from a declared parallel_region\")\n        \n    if config.parallel_level==1:\n        \n        config.inparallel_entered = True\n        \n        rng = _calculate_ranges(config, start, stop)",
         "        raise Exception(\"This code has to be run from a declared parallel_region\")\n        \n    if stop <= start:\n        return range(0)\n\n    if config.parallel_level==1:\n        \n        config.inparallel_entered = True\n        \n        rng = _calculate_ranges(config, start, stop)", 1)]},
    {"name": "empty range short cut that records the block", "kind": "twin", "edits": [
        ("quantarhei/core/parallel.py", "        raise Exception(\"This code has to be run from a declared parallel_region\")\n        \n    if config.parallel_level==1:\n        \n        config.inparallel_entered = True\n        \n        rng = _calculate_ranges(config, start, stop)",
         "        raise Exception(\"This code has to be run from a declared parallel_region\")\n        \n    distributing = (config.parallel_level == 1)\n    if stop <= start and not distributing:\n        if config.parallel_region == 1:\n            config.range = [start, stop]\n        return range(start, stop)\n\n    if config.parallel_level==1:\n        \n        config.inparallel_entered = True\n        \n        rng = _calculate_ranges(config, start, stop)", 1)]},
]

CASES += [
    {"name": "array helper counts the elements instead of the rows (seeded change of round 7)", "kind": "mutant", "rule": "C20-D", "edits": [
        ("quantarhei/core/parallel.py", "    ln = array.shape[0]", "    ln = array.size", 1)]},
    {"name": "array helper takes the number of rows with len()", "kind": "twin", "edits": [
        ("quantarhei/core/parallel.py", "    ln = array.shape[0]", "    ln = len(array)", 1)]},
]

_PAR20 = "quantarhei/core/parallel.py"
_RB_OLD = "                        data = numpy.zeros(data_shape, dtype=data_type)\n"
CASES += [
    {"name": "one receive buffer per sending process (seeded change of round 8)", "kind": "mutant", "rule": "C20-H", "edits": [
        (_PAR20, _RB_OLD, "                        if buffer is None:\n                            buffer = numpy.zeros(data_shape, dtype=data_type)\n                        data = buffer\n", 1),
        (_PAR20, "                rng = config.ranges[ii]\n                #print(\"recieving from:\", ii)\n", "                rng = config.ranges[ii]\n                buffer = None\n", 1)]},
    {"name": "receive buffer allocated before the loops", "kind": "mutant", "rule": "C20-H", "edits": [
        (_PAR20, _RB_OLD, "                        data = recvbuf\n", 1),
        (_PAR20, "            data_type = COMPLEX\n", "            data_type = COMPLEX\n            recvbuf = numpy.zeros(data_shape, dtype=data_type)\n", 1)]},
    {"name": "receive buffer allocated per item under another name", "kind": "twin", "edits": [
        (_PAR20, _RB_OLD, "                        recvbuf = numpy.empty(data_shape, dtype=data_type)\n                        data = recvbuf\n", 1)]},
]

CASES += [
    {"name": "receive buffer allocated per item with numpy.empty", "kind": "twin", "edits": [
        (_PAR20, _RB_OLD, "                        data = numpy.empty(data_shape, dtype=data_type)\n", 1)]},
]

CASES += [
    {"name": "blocks of a list remembered by its length and taken from config.ranges (seeded change of round 9)",
     "kind": "mutant", "rule": "C20-I", "edits": [
        (_PAR20, "    ln = len(dlist)\n    start = 0\n    stop = ln\n",
                 "    ln = len(dlist)\n    if config.__dict__.get('_list_length') == (ln, config.size):\n        return config.ranges[config.rank]\n"
                 "    config._list_length = (ln, config.size)\n    start = 0\n    stop = ln\n", 1)]},
    {"name": "the calculator of array blocks returns the blocks of the last loop when the extent is the same",
     "kind": "mutant", "rule": "C20-I", "edits": [
        (_PAR20, "    ln = array.shape[0]\n    start = 0\n    stop = ln\n",
                 "    ln = array.shape[0]\n    if config.ranges is not None and config.ranges[-1][1] == ln:\n        return config.ranges[config.rank]\n    start = 0\n    stop = ln\n", 1)]},
    {"name": "the list calculator looks at what identifies the process (size) before it divides", "kind": "twin", "edits": [
        (_PAR20, "    ln = len(dlist)\n    start = 0\n    stop = ln\n",
                 "    ln = len(dlist)\n    if config.size < 1:\n        raise Exception('no process')\n    start = 0\n    stop = ln\n", 1)]},
]
