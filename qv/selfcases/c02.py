"""Self-test cases for C02."""
P = "quantarhei/qm/propagators/rdmpropagator.py"
S = "quantarhei/qm/propagators/svpropagator.py"


def m(name, rule, path, old, new, count=1):
    return {"name": name, "kind": "mutant", "rule": rule, "edits": [(path, old, new, count)]}


def t(name, path, old, new, count=1):
    return {"name": name, "kind": "twin", "edits": [(path, old, new, count)]}


CASES = [
    m("_COM: dt/ll -> dt", "C02-A", P, "    ret = (1j*dt/ll)*(numpy.dot(HH,rho1) - numpy.dot(rho1,H2))",
      "    ret = (1j*dt)*(numpy.dot(HH,rho1) - numpy.dot(rho1,H2))"),
    m("_TTI: tensor term without 1/ll", "C02-A", P,
      "    rhoY += (dt/ll)*(numpy.tensordot(RR,rho1)) + dt*IR/numpy.real(L)",
      "    rhoY += (dt)*(numpy.tensordot(RR,rho1)) + dt*IR/numpy.real(L)"),
    m("expansion loop range(1,L)", "C02-A", P,
      "                for ll in range(1,L+1):\n                   \n                    rho1 = -_COM(HH, ll, self.dt, rho1, ",
      "                for ll in range(1,L):\n                   \n                    rho1 = -_COM(HH, ll, self.dt, rho1, "),
    m("restart dropped", "C02-A", P,
      "                if self.has_PDeph:\n                    rho2 = self._APPLY_DEPH(tt, rho2)\n                    \n                rho1 = rho2    \n                \n            pr.data[indx,:,:] = rho2                        \n            indx += 1                       \n            \n        self._CLOSE_RWA(pr)",
      "                if self.has_PDeph:\n                    rho2 = self._APPLY_DEPH(tt, rho2)\n                    \n                \n            pr.data[indx,:,:] = rho2                        \n            indx += 1                       \n            \n        self._CLOSE_RWA(pr)"),
    m("restart moved inside the expansion loop", "C02-A", P,
      "                if self.has_PDeph:\n                    rho2 = self._APPLY_DEPH(tt, rho2)\n                    \n                rho1 = rho2    \n                \n            pr.data[indx,:,:] = rho2                        \n            indx += 1                       \n            \n        self._CLOSE_RWA(pr)",
      "                    rho1 = rho2\n                if self.has_PDeph:\n                    rho2 = self._APPLY_DEPH(tt, rho2)\n                    \n                \n            pr.data[indx,:,:] = rho2                        \n            indx += 1                       \n            \n        self._CLOSE_RWA(pr)"),
    m("state vector: accumulate replaced by assignment", "C02-A", S,
      "                    psi1 = -1j*pref*numpy.dot(HH,psi1)\n                    psi2 = psi2 + psi1\n\n                psi1 = psi2    \n                \n            pr.data[indx,:] = psi2                        \n            indx += 1       \n            \n        if self.ham.has_rwa:\n            pr.is_in_rwa = True\n            \n        return pr\n\n    def _propagate_short_exp_nonlin",
      "                    psi1 = -1j*pref*numpy.dot(HH,psi1)\n                    psi2 = psi1\n\n                psi1 = psi2    \n                \n            pr.data[indx,:] = psi2                        \n            indx += 1       \n            \n        if self.ham.has_rwa:\n            pr.is_in_rwa = True\n            \n        return pr\n\n    def _propagate_short_exp_nonlin"),
    m("slot index advanced twice", "C02-A", P,
      "                indxR = min(indxR + stride, cutoff_indx - 1)\n                \n            pr.data[indx,:,:] = rho2 \n            indx += 1             \n",
      "                indxR = min(indxR + stride, cutoff_indx - 1)\n                \n            pr.data[indx,:,:] = rho2 \n            indx += 2             \n"),
    m("TD routine uses the unrefined step", "C02-A", P,
      "        IR = 0.0 \n        dt = sysstep*stride\n        for ii in self.TimeAxis.data[1:self.Nt]:\n            \n            for jj in range(self.Nref):\n                \n                \n                RR = self.RelaxationTensor.data[indxR,:,:,:,:]\n                if self.has_Iterm:\n                    IR = self.RelaxationTensor.Iterm[indxR,:,:]                           \n                \n",
      "        IR = 0.0 \n        dt = sysstep\n        for ii in self.TimeAxis.data[1:self.Nt]:\n            \n            for jj in range(self.Nref):\n                \n                \n                RR = self.RelaxationTensor.data[indxR,:,:,:,:]\n                if self.has_Iterm:\n                    IR = self.RelaxationTensor.Iterm[indxR,:,:]                           \n                \n"),
    m("setDtRefinement multiplies", "C02-A", P, "        self.dt = self.Odt/self.Nref", "        self.dt = self.Odt*self.Nref"),
    m("commutator sign", "C02-B", P, "(numpy.dot(HH,rho1) - numpy.dot(rho1,H2))", "(numpy.dot(HH,rho1) + numpy.dot(rho1,H2))"),
    m("non-Hermitian branch drops conj", "C02-B", P, "        H2 = numpy.conj(numpy.transpose(HH))", "        H2 = numpy.transpose(HH)"),
    m("_OTI index slip", "C02-B", P,
      "       +numpy.dot(Lm[mm,:,:],numpy.dot(rho1, Kd[mm,:,:]))\n       -numpy.dot(numpy.dot(Kd[mm,:,:],Lm[mm,:,:]), rho1)\n       -numpy.dot(rho1, numpy.dot(Ld[mm,:,:],Km[mm,:,:]))\n       )\n\n            \ndef _COM",
      "       +numpy.dot(Lm[mm,:,:],numpy.dot(rho1, Kd[mm,:,:]))\n       -numpy.dot(numpy.dot(Lm[mm,:,:],Kd[mm,:,:]), rho1)\n       -numpy.dot(rho1, numpy.dot(Ld[mm,:,:],Km[mm,:,:]))\n       )\n\n            \ndef _COM"),
    m("state vector: missing -i", "C02-B", S,
      "                    psi1 = -1j*pref*numpy.dot(HH,psi1)\n                    psi2 = psi2 + psi1\n\n                psi1 = psi2    \n                \n            pr.data[indx,:] = psi2                        \n            indx += 1       \n            \n        if self.ham.has_rwa:\n            pr.is_in_rwa = True\n            \n        return pr\n\n    def _propagate_short_exp_nonlin",
      "                    psi1 = -pref*numpy.dot(HH,psi1)\n                    psi2 = psi2 + psi1\n\n                psi1 = psi2    \n                \n            pr.data[indx,:] = psi2                        \n            indx += 1       \n            \n        if self.ham.has_rwa:\n            pr.is_in_rwa = True\n            \n        return pr\n\n    def _propagate_short_exp_nonlin"),
    m("Lindblad: factor 1/2 dropped", "C02-C", "quantarhei/qm/liouvillespace/lindbladform.py",
      "llm[i, :, :] = sbi.rates[i]*sbi.KK[i, :, :]/2.0", "llm[i, :, :] = sbi.rates[i]*sbi.KK[i, :, :]"),
    m("RWA flag not set in TD routine", "C02-D", P,
      "            indx += 1\n  \n                \n        if self.Hamiltonian.has_rwa:\n            pr.is_in_rwa = True\n            \n        return pr     \n\n\n    def __propagate_short_exp_with_TDrel_operators",
      "            indx += 1\n  \n                \n        return pr     \n\n\n    def __propagate_short_exp_with_TDrel_operators"),
    m("_CLOSE_RWA marks unconditionally false", "C02-D", P, "            pr.is_in_rwa = True  \n\n\n    def __propagate_short_exp_efield",
      "            pr.is_in_rwa = False  \n\n\n    def __propagate_short_exp_efield"),
    m("RWA back-conversion without conj", "C02-D", "quantarhei/qm/propagators/dmevolution.py",
      "                                              numpy.conj(Ut)))", "                                              Ut))"),
    m("in-place accumulate mutates the caller's state", "C02-E", P,
      "                    rho1 = -_COM(HH, ll, self.dt, rho1, \n                                 has_NonHerm=self.has_NonHerm)\n                             \n                    rho2 = rho2 + rho1",
      "                    rho1 = -_COM(HH, ll, self.dt, rho1, \n                                 has_NonHerm=self.has_NonHerm)\n                             \n                    rho2 += rho1"),
    # twins
    t("_COM: prefactor regrouped", P, "    ret = (1j*dt/ll)*(numpy.dot(HH,rho1) - numpy.dot(rho1,H2))",
      "    ret = 1j*(dt/ll)*(HH @ rho1 - rho1 @ H2)"),
    t("sv: prefactor inlined", S,
      "                    pref = (self.dt/ll)\n                    psi1 = -1j*pref*numpy.dot(HH,psi1)\n                    psi2 = psi2 + psi1\n\n                psi1 = psi2    \n                \n            pr.data[indx,:] = psi2                        \n            indx += 1       \n            \n        if self.ham.has_rwa:\n            pr.is_in_rwa = True\n            \n        return pr\n\n    def _propagate_short_exp_nonlin",
      "                    psi1 = numpy.dot(HH,psi1)*(-1j*self.dt/ll)\n                    psi2 = psi1 + psi2\n\n                psi1 = psi2    \n                \n            pr.data[indx,:] = psi2                        \n            indx += 1       \n            \n        if self.ham.has_rwa:\n            pr.is_in_rwa = True\n            \n        return pr\n\n    def _propagate_short_exp_nonlin"),
    t("_TTI: einsum instead of tensordot", P,
      "    rhoY += (dt/ll)*(numpy.tensordot(RR,rho1)) + dt*IR/numpy.real(L)",
      "    rhoY += (dt/ll)*numpy.einsum('abcd,cd->ab', RR, rho1) + dt*IR/numpy.real(L)"),
]

CASES += [
    m("dephasing factors computed once per object (tensor form)", "C02-F", P,
      "        if self.has_PDeph:\n            \n            self._BOOT_DEPH()\n            \n            IR = 0.0",
      "        if self.has_PDeph:\n            \n            if not hasattr(self, \"expo\"):\n                self._BOOT_DEPH()\n            \n            IR = 0.0"),
]

SVE = "quantarhei/qm/propagators/statevectorevolution.py"
CASES += [
    m("state-vector conversion by a scalar product (the repaired defect)", "C02-D", SVE,
      "                rhot = Ut*self.data[i,:]", "                rhot = numpy.dot(Ut,self.data[i,:])"),
    m("initial state not brought into the rotating frame (the repaired defect)", "C02-D", P,
      "        if self.Hamiltonian.has_rwa:\n            rhoi = self._initial_state_in_RWA(rhoi)\n", "        pass\n"),
    m("initial state rotated with the sign of the back conversion", "C02-D", S,
      "        return StateVector(data=numpy.exp(1j*HOmega*t0)*psii.data)", "        return StateVector(data=numpy.exp(-1j*HOmega*t0)*psii.data)"),
    m("rotating-frame helper overwrites the caller's state", "C02-D", P,
      "        return ReducedDensityMatrix(data=numpy.dot(Ut,\n                                    numpy.dot(rhoi.data, numpy.conj(Ut))))",
      "        rhoi.data = numpy.dot(Ut, numpy.dot(rhoi.data, numpy.conj(Ut)))\n        return rhoi"),
    t("state-vector conversion with numpy.multiply", SVE,
      "                rhot = Ut*self.data[i,:]", "                rhot = numpy.multiply(Ut, self.data[i,:])"),
]

CASES += [
    {"name": "density-matrix propagator keeps the Hamiltonian matrix from construction", "kind": "mutant", "rule": "C02-G", "edits": [
        (P, "            self.dt = self.Odt\n            self.Nref = 1", "            self.dt = self.Odt\n            self.Nref = 1\n            self._HHcache = self.Hamiltonian.data", 1),
        (P, "        HH = self._INIT_RWA()\n            \n        RR = self.RelaxationTensor.data", "        HH = self._HHcache\n            \n        RR = self.RelaxationTensor.data", 1)]},
]

DME = "quantarhei/qm/propagators/dmevolution.py"
CASES += [
    {"name": "propagate() no longer runs the propagation under internal units (the repaired defect)", "kind": "mutant", "rule": "C02-H", "edits": [
        (P, "        with energy_units(\"int\"):\n            return self._propagate(rhoi, method=method, mdata=mdata,\n                                   Nref=Nref)",
         "        if True:\n            return self._propagate(rhoi, method=method, mdata=mdata,\n                                   Nref=Nref)", 1)]},
    {"name": "state vector propagation outside internal units (the repaired defect)", "kind": "mutant", "rule": "C02-H", "edits": [
        (S, "        with energy_units(\"int\"):\n            # The rotating frame is tied to absolute time.", "        if True:\n            # The rotating frame is tied to absolute time.", 1)]},
    {"name": "frame frequencies read in the caller's units when converting back (the repaired defect)", "kind": "mutant", "rule": "C02-H", "edits": [
        (DME, "            with energy_units(\"int\"):\n                HOmega = ham.get_RWA_skeleton()", "            if True:\n                HOmega = ham.get_RWA_skeleton()", 1)]},
    {"name": "a second public entry calls the propagation proper without protection", "kind": "mutant", "rule": "C02-H", "edits": [
        (P, "    def _propagate(self, rhoi, method=\"short-exp\", mdata=None, Nref=1):",
         "    def propagate_again(self, rhoi):\n        return self._propagate(rhoi)\n\n    def _propagate(self, rhoi, method=\"short-exp\", mdata=None, Nref=1):", 1)]},
    {"name": "dimension taken from the units-managed data outside any block (no number is read)", "kind": "twin", "edits": [
        (S, "        N = self.ham.data.shape[0]", "        HH = self.ham.data\n        N = HH.shape[0]", 1)]},
    {"name": "frame frequencies read in a block of their own before the guard", "kind": "twin", "edits": [
        (DME, "        if (self.is_in_rwa and sgn == 1) or sgn == -1:\n            \n            # the frame frequencies multiply times in femtoseconds\n            with energy_units(\"int\"):\n                HOmega = ham.get_RWA_skeleton()\n",
         "        with energy_units(\"int\"):\n            HOmega = ham.get_RWA_skeleton()\n        if (self.is_in_rwa and sgn == 1) or sgn == -1:\n", 1)]},
]

CASES += [
    m("dispatch on has_relaxation again: pure dephasing without a tensor reads an unassigned tensor (the repaired defect)", "C02-I", P,
      "        if self.has_RTensor:\n\n            ####", "        if self.has_relaxation:\n\n            ####"),
    m("Hamiltonian-only routine consults the initial term of a tensor it may not have", "C02-I", P,
      "        if self.has_PDeph:\n            self._BOOT_DEPH()\n        \n        indx = 1\n        for ii in self.TimeAxis.data[1:self.Nt]:",
      "        if self.has_PDeph:\n            self._BOOT_DEPH()\n            IR = self.RelaxationTensor.Iterm\n        \n        indx = 1\n        for ii in self.TimeAxis.data[1:self.Nt]:"),
    m("dephasing factors of the Hamiltonian-only routine booted under another flag", "C02-F", P,
      "        if self.has_PDeph:\n            self._BOOT_DEPH()\n        \n        indx = 1\n        for ii in self.TimeAxis.data[1:self.Nt]:",
      "        if self.has_NonHerm:\n            self._BOOT_DEPH()\n        \n        indx = 1\n        for ii in self.TimeAxis.data[1:self.Nt]:"),
    m("Hamiltonian-only routine restarts from the iterate before the dephasing is applied", "C02-A", P,
      "                if self.has_PDeph:\n                    rho2 = self._APPLY_DEPH(tt, rho2)\n                    \n                rho1 = rho2    \n",
      "                rho1 = rho2    \n                if self.has_PDeph:\n                    rho2 = self._APPLY_DEPH(tt, rho2)\n"),
    t("dispatch tests both flags", P,
      "        if self.has_RTensor:\n\n            ####", "        if self.has_RTensor and self.has_relaxation:\n\n            ####"),
    t("tensor stored before the flags are set", P,
      "                self.RelaxationTensor = RTensor\n                self.has_RTensor = True\n                self.has_relaxation = True",
      "                self.has_RTensor = True\n                self.has_relaxation = True\n                self.RelaxationTensor = RTensor"),
]

CASES += [
    m("requested order not handed to the operator-form routine", "C02-J", P,
      "            return self.__propagate_short_exp_with_rel_operators(rhoi, L=L)", "            return self.__propagate_short_exp_with_rel_operators(rhoi)"),
    m("time-dependent operator-form routine called with the default order", "C02-J", P,
      "            return self.__propagate_short_exp_with_TDrel_operators(rhoi,L=L)", "            return self.__propagate_short_exp_with_TDrel_operators(rhoi)"),
    t("order handed on positionally", P,
      "            return self.__propagate_short_exp_with_rel_operators(rhoi, L=L)", "            return self.__propagate_short_exp_with_rel_operators(rhoi, L)"),
]

CASES += [
    m("state vector evolution does not define its frame flag (the repaired defect)", "C02-D", SVE,
      "        # propagators which work in the rotating frame set this to True\n        self.is_in_rwa = False\n", ""),
    m("density matrix evolution derived from amplitudes loses the frame (the repaired defect)", "C02-D", SVE,
      "        rhot = DensityMatrixEvolution(timeaxis=self.TimeAxis,\n                                      is_in_rwa=self.is_in_rwa)",
      "        rhot = DensityMatrixEvolution(timeaxis=self.TimeAxis)"),
    t("frame handed on by assignment", SVE,
      "        rhot = DensityMatrixEvolution(timeaxis=self.TimeAxis,\n                                      is_in_rwa=self.is_in_rwa)",
      "        rhot = DensityMatrixEvolution(timeaxis=self.TimeAxis)\n        rhot.is_in_rwa = self.is_in_rwa"),
]

CASES += [
    {"name": "at() of the density-matrix evolution takes the lower neighbour (the repaired defect)", "kind": "mutant", "rule": "C02-K", "edits": [
        ("quantarhei/qm/propagators/dmevolution.py", "        ti = self.TimeAxis.nearest(time)\n\n        # the state handed out owns its data: it changes basis on its own and\n        # writing into it does not change the evolution\n        return DensityMatrix(",
         "        ti, dt = self.TimeAxis.locate(time)\n\n        return DensityMatrix(", 1)]},
    {"name": "at() indexes with a shifted grid point", "kind": "mutant", "rule": "C02-K", "edits": [
        ("quantarhei/qm/propagators/dmevolution.py", "        return ReducedDensityMatrix(data=self.data[ti, :, :].copy())", "        return ReducedDensityMatrix(data=self.data[ti-1, :, :].copy())", 1)]},
]

CASES += [
    {"name": "propagator conjugates the operators by plain transposition (the repaired defect)", "kind": "mutant", "rule": "C02-B", "edits": [
        ("quantarhei/qm/propagators/rdmpropagator.py", "            Kd[m, :, :] = numpy.conj(numpy.transpose(Km[m, :, :]))", "            Kd[m, :, :] = numpy.transpose(Km[m, :, :])", 2)]},
    {"name": "propagator keeps the conjugated operators in a real array", "kind": "mutant", "rule": "C02-B", "edits": [
        ("quantarhei/qm/propagators/rdmpropagator.py", "        Kd = numpy.zeros(Km.shape, dtype=Km.dtype)", "        Kd = numpy.zeros(Km.shape, dtype=numpy.float64)", 2)]},
]

HAMF = "quantarhei/qm/hilbertspace/hamiltonian.py"
CASES += [
    {"name": "scalar product without conjugation (the repaired defect)", "kind": "mutant", "rule": "C02-L", "edits": [
        ("quantarhei/qm/hilbertspace/statevector.py", "        return numpy.vdot(self.data, vec.data)", "        return numpy.dot(self.data, vec.data)", 1)]},
    {"name": "norm without conjugation (the repaired defect)", "kind": "mutant", "rule": "C02-L", "edits": [
        ("quantarhei/qm/hilbertspace/statevector.py", "        return numpy.sqrt(numpy.real(numpy.vdot(self.data, self.data)))", "        return numpy.sqrt(numpy.dot(self.data, self.data))", 1)]},
    {"name": "norm written with an explicit conjugate", "kind": "twin", "edits": [
        ("quantarhei/qm/hilbertspace/statevector.py", "        return numpy.sqrt(numpy.real(numpy.vdot(self.data, self.data)))", "        return numpy.sqrt(numpy.real(numpy.dot(numpy.conj(self.data), self.data)))", 1)]},
    {"name": "undiagonalize inverts with the bare transpose (the repaired defect)", "kind": "mutant", "rule": "C02-L", "edits": [
        (HAMF, "        S1 = numpy.conj(self.SS.T)", "        S1 = self.SS.T", 1)]},
    {"name": "diagonalize transforms the remainder with the bare transpose", "kind": "mutant", "rule": "C02-L", "edits": [
        (HAMF, "                self.JR = numpy.dot(numpy.conj(SS.T),numpy.dot(self.JR,SS))", "                self.JR = numpy.dot(SS.T,numpy.dot(self.JR,SS))", 1)]},
]

CASES += [
    {"name": "dephasing type misspelt in the conversion (the repaired defect)", "kind": "mutant", "rule": "C02-N", "edits": [
        ("quantarhei/qm/liouvillespace/puredephasing.py", "            elif dtype == \"Gaussian\" and self.dtype == \"Lorentzian\":", "            elif dtype == \"Gaussian\" and self.dtype == \"Lorenzian\":", 1)]},
]

_DME = "quantarhei/qm/propagators/dmevolution.py"
_RWA_OLD = ("            for i, t in enumerate(self.TimeAxis.data):\n                # evolution operator\n"
            "                Ut = numpy.diag(numpy.exp(-sgn*1j*HOmega*t))\n")
CASES += [
    {"name": "frame left at times counted from the start of the axis (seeded changes of rounds 5 and 6)", "kind": "mutant", "rule": "C02-M", "edits": [
        (_DME, _RWA_OLD, "            for i in range(self.TimeAxis.length):\n                t = i*self.TimeAxis.step\n                # evolution operator\n"
                         "                Ut = numpy.diag(numpy.exp(-sgn*1j*HOmega*t))\n", 1)]},
]

_SVE = "quantarhei/qm/propagators/statevectorevolution.py"
_RHOI = ("        rhoi = DensityMatrix(dim=self.dim)\n        for ii in range(self.dim):\n            for jj in range(self.dim):\n"
         "                rhoi.data[ii,jj] = self.data[0,ii]* \\\n                                   numpy.conj(self.data[0,jj])\n")
CASES += [
    {"name": "first density matrix taken from the caller's state vector (seeded change of round 6)", "kind": "mutant", "rule": "C02-O", "edits": [
        (_SVE, _RHOI, "        rhoi = self.psi_i.get_DensityMatrix()\n", 1)]},
    {"name": "first density matrix as an outer product of the stored row", "kind": "twin", "edits": [
        (_SVE, _RHOI, "        rhoi = DensityMatrix(data=numpy.outer(self.data[0,:], numpy.conj(self.data[0,:])))\n", 1)]},
]

_ESO = "quantarhei/qm/liouvillespace/evolutionsuperoperator.py"
CASES += [
    {"name": "apply('all') drops the frame of the superoperator (the repaired defect)", "kind": "mutant", "rule": "C02-D", "edits": [
        (_ESO, "                rhot = ReducedDensityMatrixEvolution(timeaxis=self.time,\n                                                     rhoi=target,\n                                                     is_in_rwa=self.is_in_rwa)",
         "                rhot = ReducedDensityMatrixEvolution(timeaxis=self.time,\n                                                     rhoi=target)", 1)]},
    {"name": "apply(list) hands the frame on by assignment", "kind": "twin", "edits": [
        (_ESO, "                rhot = ReducedDensityMatrixEvolution(timeaxis=ntime,\n                                                     rhoi=target,\n                                                     is_in_rwa=self.is_in_rwa)",
         "                rhot = ReducedDensityMatrixEvolution(timeaxis=ntime,\n                                                     rhoi=target)\n                rhot.is_in_rwa = self.is_in_rwa", 1)]},
]

_RDM = "quantarhei/qm/propagators/rdmpropagator.py"
_SVP = "quantarhei/qm/propagators/svpropagator.py"
CASES += [
    {"name": "trace renormalised after every step of the relaxation routine", "kind": "mutant", "rule": "C02-P", "edits": [
        (_RDM, "                rho1 = rho2    \n                \n            pr.data[indx,:,:] = rho2                        \n            indx += 1                       \n",
               "                rho1 = rho2    \n                \n            rho2 = rho2/numpy.trace(rho2)\n            rho1 = rho2\n            pr.data[indx,:,:] = rho2                        \n            indx += 1                       \n", 1)]},
    {"name": "state vector renormalised after every step", "kind": "mutant", "rule": "C02-P", "edits": [
        (_SVP, "                psi1 = psi2    \n                \n            pr.data[indx,:] = psi2                        \n            indx += 1       \n",
               "                psi1 = psi2    \n                \n            psi2 = psi2/numpy.sqrt(numpy.real(numpy.vdot(psi2, psi2)))\n            psi1 = psi2\n            pr.data[indx,:] = psi2                        \n            indx += 1       \n", 3)]},
    {"name": "state vector step stored through a scaled copy", "kind": "twin", "edits": [
        (_SVP, "                psi1 = psi2    \n                \n            pr.data[indx,:] = psi2                        \n            indx += 1       \n",
               "                psi1 = psi2    \n                \n            pr.data[indx,:] = 1.0*psi2\n            indx += 1       \n", 3)]},
]

_SV = "quantarhei/qm/hilbertspace/statevector.py"
_KB = "        for ii in range(self.dim):\n            for jj in range(self.dim):\n                rho.data[ii,jj] = self.data[ii]*numpy.conj(self.data[jj])\n"
CASES += [
    {"name": "outer product with the conjugate on the ket (seeded change of round 7)", "kind": "mutant", "rule": "C02-R", "edits": [
        (_SV, _KB, "        psi = self.data\n        rho.data[:,:] = numpy.outer(numpy.conj(psi), psi)\n", 1)]},
    {"name": "element-wise product with the conjugate on the row amplitude", "kind": "mutant", "rule": "C02-R", "edits": [
        (_SV, _KB, "        for ii in range(self.dim):\n            for jj in range(self.dim):\n                rho.data[ii,jj] = numpy.conj(self.data[ii])*self.data[jj]\n", 1)]},
    {"name": "outer product with the conjugate on the bra", "kind": "twin", "edits": [
        (_SV, _KB, "        psi = self.data\n        rho.data[:,:] = numpy.outer(psi, numpy.conj(psi))\n", 1)]},
]

_RDT = "quantarhei/qm/liouvillespace/redfieldtensor.py"
CASES += [
    {"name": "tensor form computed from the raw operator storage (seeded change of round 8)", "kind": "mutant", "rule": "C02-S", "edits": [
        (_RDT, "            RR = self._convert_operators_2_tensor(self.Km, self.Lm, self.Ld)", "            RR = self._convert_operators_2_tensor(self._Km, self._Lm, self._Ld)", 1)]},
]

_SBI9 = "quantarhei/qm/liouvillespace/systembathinteraction.py"
_SBI9_OLD = "        self.KK = numpy.zeros((self.N, dim, dim), dtype=REAL)\n        self.KK[0,:,:] = numpy.real(KK.data)       \n"
CASES += [
    {"name": "the array of system-bath operators takes the element type of the first operator (seeded change of round 9)", "kind": "mutant",
     "rule": "C02-T", "edits": [(_SBI9, _SBI9_OLD,
        "        ktype = numpy.asarray(KK.data).dtype\n        self.KK = numpy.zeros((self.N, dim, dim), dtype=ktype)\n        self.KK[0,:,:] = KK.data\n", 1)]},
    {"name": "the array of system-bath operators is allocated with the dtype attribute of the first operator's data", "kind": "mutant",
     "rule": "C02-T", "edits": [(_SBI9, _SBI9_OLD,
        "        self.KK = numpy.zeros((self.N, dim, dim), dtype=KK.data.dtype)\n        self.KK[0,:,:] = KK.data\n", 1)]},
    {"name": "the array of system-bath operators is allocated with numpy.float64", "kind": "twin", "edits": [(_SBI9, _SBI9_OLD,
        "        self.KK = numpy.zeros((self.N, dim, dim), dtype=numpy.float64)\n        self.KK[0,:,:] = numpy.real(KK.data)       \n", 1)]},
]
