"""Self-test cases for C07."""
R = "quantarhei/qm/liouvillespace/"
P = "quantarhei/qm/propagators/rdmpropagator.py"


def m(name, rule, path, old, new, count=1):
    return {"name": name, "kind": "mutant", "rule": rule, "edits": [(path, old, new, count)]}


def t(name, path, old, new, count=1):
    return {"name": name, "kind": "twin", "edits": [(path, old, new, count)]}


CASES = [
    m("one-sided edit of _loopit (tensor form only)", "C07-A", R + "redfieldtensor.py",
      "                    if b == d:\n                        RR[a,b,c,d] -= KdLm[a,c] \n                    if a == c:",
      "                    if b == d:\n                        RR[a,b,c,d] -= KdLm[c,a] \n                    if a == c:"),
    m("one-sided edit of _OTI (propagator only)", "C07-A", P,
      "        numpy.dot(Km[mm,:,:],numpy.dot(rho1, Ld[mm,:,:]))\n       +numpy.dot(Lm[mm,:,:],numpy.dot(rho1, Kd[mm,:,:]))\n       -numpy.dot(numpy.dot(Kd[mm,:,:],Lm[mm,:,:]), rho1)\n       -numpy.dot(rho1, numpy.dot(Ld[mm,:,:],Km[mm,:,:]))\n       )\n\n            \ndef _COM",
      "        numpy.dot(Km[mm,:,:],numpy.dot(rho1, Ld[mm,:,:]))\n       +numpy.dot(Lm[mm,:,:],numpy.dot(rho1, Kd[mm,:,:]))\n       -numpy.dot(numpy.dot(Kd[mm,:,:],Lm[mm,:,:]), rho1)\n       -numpy.dot(rho1, numpy.dot(Km[mm,:,:],Ld[mm,:,:]))\n       )\n\n            \ndef _COM"),
    m("apply(): operand order slip", "C07-A", R + "redfieldtensor.py",
      "                numpy.dot(Km[mm,:,:],numpy.dot(rho1, Ld[mm,:,:]))\n                +numpy.dot(Lm[mm,:,:],numpy.dot(rho1, Kd[mm,:,:]))",
      "                numpy.dot(Km[mm,:,:],numpy.dot(rho1, Ld[mm,:,:]))\n                +numpy.dot(Kd[mm,:,:],numpy.dot(rho1, Lm[mm,:,:]))"),
    m("_TTI contracts the wrong index pair", "C07-A", P,
      "    rhoY += (dt/ll)*(numpy.tensordot(RR,rho1)) + dt*IR/numpy.real(L)",
      "    rhoY += (dt/ll)*(numpy.tensordot(rho1,RR)) + dt*IR/numpy.real(L)"),
    m("TD assembler drifts from the operator routine", "C07-A", R + "tdredfieldtensor.py",
      "                                RR[tt,a,b,c,d] += (Km[m,a,c]*Ld[tt,m,d,b] \n                                                + Lm[tt,m,a,c]*Km[m,d,b])",
      "                                RR[tt,a,b,c,d] += (Km[m,a,c]*Ld[tt,m,b,d] \n                                                + Lm[tt,m,a,c]*Km[m,d,b])"),
    m("as_operators not reset after conversion", "C07-B", R + "redfieldtensor.py",
      "            self.as_operators = False\n", "            pass\n"),
    m("secularize forgets to convert", "C07-B", R + "relaxationtensor.py",
      "            if self.as_operators:\n                self.convert_2_tensor()\n                #raise",
      "            if False:\n                self.convert_2_tensor()\n                #raise"),
    m("operator form: Km not transformed", "C07-C", R + "redfieldtensor.py",
      "                self._Km[m,:,:] = numpy.dot(S1,numpy.dot(self._Km[m,:,:], SS))\n", ""),
    m("TD integrand drifts (sign of the phase)", "C07-D", R + "tdredfieldtensor.py",
      "                        eexp = numpy.exp(-1.0j*Om[a,b]*tm) ", "                        eexp = numpy.exp(1.0j*Om[a,b]*tm) "),
    m("TI takes the first element of the running integral", "C07-D", R + "redfieldtensor.py",
      "                cc_mnab = (sr[length-1] + 1.0j*si[length-1]) \n\n                # \\Lambda_m operators\n                Lm[ms,a,b] += cc_mnab*Km[ms,a,b] \n      \n        \n    def _guts_Cmplx_Sum",
      "                cc_mnab = (sr[0] + 1.0j*si[0]) \n\n                # \\Lambda_m operators\n                Lm[ms,a,b] += cc_mnab*Km[ms,a,b] \n      \n        \n    def _guts_Cmplx_Sum"),
    t("both assembler and operator forms renamed consistently", R + "redfieldtensor.py",
      "    KdLm = numpy.dot(Kd,Lm[m,:,:])\n    LdKm = numpy.dot(Ld[m,:,:],Km[m,:,:])",
      "    KdLm = Kd @ Lm[m,:,:]\n    LdKm = Ld[m,:,:] @ Km[m,:,:]"),
]

CASES += [
    m("time-independent tensor integrates one point short of the cut-off", "C07-D", R + "redfieldtensor.py",
      "            tm = ta.data[0:tcut]", "            tm = ta.data[0:tcut-1]"),
    {"name": "both tensors write the window without the explicit zero", "kind": "twin", "edits": [
        (R + "redfieldtensor.py", "            tm = ta.data[0:tcut]", "            tm = ta.data[:tcut]", 1),
        (R + "tdredfieldtensor.py", "            tm = ta.data[0:tcut]", "            tm = ta.data[:tcut]", 1)]},
]

CASES += [
    m("tensor-form routine restarts the expansion only once per stored step", "C07-E", P,
      "                        rho2 = rho2 + rho1\n                    rho1 = rho2    \n                    \n                pr.data[indx,:,:] = rho2 \n                indx += 1   \n\n        self._CLOSE_RWA(pr)    ",
      "                        rho2 = rho2 + rho1\n                rho1 = rho2    \n                    \n                pr.data[indx,:,:] = rho2 \n                indx += 1   \n\n        self._CLOSE_RWA(pr)    "),
]

CASES += [
    m("deferred initialisation runs in the caller's units (the repaired defect)", "C07-F", R + "redfieldtensor.py",
      "        with energy_units(\"int\"):\n            self._implementation(self.Hamiltonian,\n                                 self.SystemBathInteraction)",
      "        if True:\n            self._implementation(self.Hamiltonian,\n                                 self.SystemBathInteraction)"),
    m("constructor calculates in the caller's units", "C07-F", R + "redfieldtensor.py",
      "            with energy_units(\"int\"):\n                self._implementation(ham, sbi)", "            if True:\n                self._implementation(ham, sbi)"),
    t("deferred initialisation binds the arguments first", R + "redfieldtensor.py",
      "        with energy_units(\"int\"):\n            self._implementation(self.Hamiltonian,\n                                 self.SystemBathInteraction)",
      "        hh, sb = self.Hamiltonian, self.SystemBathInteraction\n        with energy_units(\"int\"):\n            self._implementation(hh, sb)"),
]

CASES += [
    m("converted tensor not marked as holding its data (flag read by the time-dependent transform)", "C07-B", R + "redfieldtensor.py",
      "            if True:\n                self.data = RR\n                self._data_initialized = True\n                                                         \n            self.as_operators = False",
      "            self.data = RR\n            self.as_operators = False"),
    t("conversion sets the flags in another order", R + "redfieldtensor.py",
      "            if True:\n                self.data = RR\n                self._data_initialized = True\n                                                         \n            self.as_operators = False",
      "            self.data = RR\n            self._data_initialized = True\n            self.as_operators = False"),
]

CASES += [
    m("Lindblad form keeps the operators of the system-bath interaction themselves (the repaired defect)", "C07-G", R + "lindbladform.py",
      "            KK = sbi.KK.copy()", "            KK = sbi.KK"),
    m("Lindblad form keeps a view of the operators of the system-bath interaction", "C07-G", R + "lindbladform.py",
      "            KK = sbi.KK.copy()", "            KK = numpy.asarray(sbi.KK)"),
    t("copy made with numpy.array", R + "lindbladform.py",
      "            KK = sbi.KK.copy()", "            KK = numpy.array(sbi.KK)"),
]

RT7 = "quantarhei/qm/liouvillespace/redfieldtensor.py"
CASES += [
    {"name": "apply() conjugates by plain transposition (the repaired defect)", "kind": "mutant", "rule": "C07-H", "edits": [
        (RT7, "                Kd[mm, :, :] = numpy.conj(numpy.transpose(Km[mm, :, :]))", "                Kd[mm, :, :] = numpy.transpose(Km[mm, :, :])", 1)]},
    {"name": "apply() keeps the conjugates in a real array", "kind": "mutant", "rule": "C07-H", "edits": [
        (RT7, "            Kd = numpy.zeros(Km.shape, dtype=Km.dtype)\n            Nm = Km.shape[0]\n            ven =", "            Kd = numpy.zeros(Km.shape, dtype=numpy.float64)\n            Nm = Km.shape[0]\n            ven =", 1)]},
    {"name": "conversion to the tensor form conjugates by plain transposition", "kind": "mutant", "rule": "C07-H", "edits": [
        (RT7, "            Kd = numpy.conj(numpy.transpose(Km[m,:,:]))", "            Kd = numpy.transpose(Km[m,:,:])", 1)]},
    {"name": "conjugate written with the method idiom", "kind": "twin", "edits": [
        (RT7, "            Kd = numpy.conj(numpy.transpose(Km[m,:,:]))", "            Kd = Km[m,:,:].conj().T", 1)]},
]

RDMF = "quantarhei/qm/propagators/rdmpropagator.py"
CASES += [
    {"name": "cut-off located on the propagation axis (the repaired defect)", "kind": "mutant", "rule": "C07-I", "edits": [
        (RDMF, "            sbi.TimeAxis.nearest(self.RelaxationTensor.cutoff_time)", "            self.TimeAxis.nearest(self.RelaxationTensor.cutoff_time)", 4)]},
    {"name": "rounded step ratio never compared with the ratio (the repaired defect)", "kind": "mutant", "rule": "C07-I", "edits": [
        (RDMF, "        if (Nref_max < 1) or \\\n           (abs(Nref_max*sysstep - self.TimeAxis.step) > 1.0e-6*sysstep):\n            raise Exception(\"The time step of the propagation (\"\n                            +str(self.TimeAxis.step)+\" fs) has to be a whole\"\n                            +\" multiple of the time step of the relaxation\"\n                            +\" tensor (\"+str(sysstep)+\" fs)\")\n", "", 4)]},
]

CASES += [
    {"name": "operator-form routine advances the tensor index by one per stored step (the repaired defect)", "kind": "mutant", "rule": "C07-I", "edits": [
        (RDMF, "                # the operators are kept at their last computed point once\n                # the cut-off (or the end of their time axis) is reached\n                indxR = min(indxR + stride, cutoff_indx - 1)\n                \n            pr.data[indx,:,:] = rho2 \n            indx += 1             \n",
               "            pr.data[indx,:,:] = rho2 \n            indx += 1             \n            if indxR < cutoff_indx-1:\n                indxR += 1\n", 1)]},
]

CASES += [
    {"name": "tensor form writes its result into the operand's own array (seeded change of round 7)", "kind": "mutant", "rule": "C07-J", "edits": [
        ("quantarhei/qm/liouvillespace/superoperator.py", "            oper.data = numpy.tensordot(self.data, oper.data)", "            oper.data[:,:] = numpy.tensordot(self.data, oper.data)", 1)]},
    {"name": "tensor form rebinds the operand's data through a local name", "kind": "twin", "edits": [
        ("quantarhei/qm/liouvillespace/superoperator.py", "            oper.data = numpy.tensordot(self.data, oper.data)", "            res = numpy.tensordot(self.data, oper.data)\n            oper.data = res", 1)]},
]

_OS7 = "quantarhei/builders/opensystem.py"
CASES += [
    {"name": "cut-off time not handed to the time-independent Redfield tensor (the repaired defect)", "kind": "mutant", "rule": "C07-K", "edits": [
        (_OS7, "                    relaxT = RedfieldRelaxationTensor(ham, sbi,\n                                        cutoff_time=relaxation_cutoff_time,\n",
               "                    relaxT = RedfieldRelaxationTensor(ham, sbi,\n", 1)]},
    {"name": "operator form not handed to the time-dependent Redfield tensor", "kind": "mutant", "rule": "C07-K", "edits": [
        (_OS7, "                    relaxT = TDRedfieldRelaxationTensor(ham, sbi,\n                                        cutoff_time=relaxation_cutoff_time,\n                                        as_operators=as_operators)\n",
               "                    relaxT = TDRedfieldRelaxationTensor(ham, sbi,\n                                        cutoff_time=relaxation_cutoff_time)\n", 1)]},
    {"name": "cut-off time handed over by position", "kind": "twin", "edits": [
        (_OS7, "                    relaxT = RedfieldRelaxationTensor(ham, sbi,\n                                        cutoff_time=relaxation_cutoff_time,\n",
               "                    relaxT = RedfieldRelaxationTensor(ham, sbi, True,\n                                        relaxation_cutoff_time,\n", 1),
        (_OS7, "                    relaxT = TDRedfieldRelaxationTensor(ham, sbi,\n                                        cutoff_time=relaxation_cutoff_time,\n",
               "                    relaxT = TDRedfieldRelaxationTensor(ham, sbi, True,\n                                        relaxation_cutoff_time,\n", 1)]},
]

_RDM7 = "quantarhei/qm/propagators/rdmpropagator.py"
CASES += [
    {"name": "a further routine that falls off its end (not one of the four recorded findings)", "kind": "mutant", "rule": "C07-L", "edits": [
        (_RDM7, "    def __propagate_short_exp_with_relaxation_field_oper(self, rhoi, L=4):",
                "    def __propagate_short_exp_with_relaxation_field_oper2(self, rhoi, L=4):\n        debug(\"(12b)\")\n\n    def __propagate_short_exp_with_relaxation_field_oper(self, rhoi, L=4):", 1)]},
]

_LF9 = "quantarhei/qm/liouvillespace/lindbladform.py"
CASES += [
    {"name": "the Lindblad form keeps the operators of the system-bath interaction themselves (asarray of an array of the same type; seeded change of round 9)",
     "kind": "mutant", "rule": "C07-M", "edits": [(_LF9, "            KK = sbi.KK.copy()\n", "            KK = numpy.asarray(sbi.KK, dtype=REAL)\n", 1)]},
    {"name": "the Lindblad form keeps the operators as a slice of the interaction's array", "kind": "mutant", "rule": "C07-M",
     "edits": [(_LF9, "            KK = sbi.KK.copy()\n", "            KK = sbi.KK[:, :, :]\n", 1)]},
    {"name": "the copy of the operators is made with numpy.copy", "kind": "twin",
     "edits": [(_LF9, "            KK = sbi.KK.copy()\n", "            KK = numpy.copy(sbi.KK)\n", 1)]},
]
