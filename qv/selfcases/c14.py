"""Self-test cases for C14."""
A = "quantarhei/builders/aggregate_base.py"
O = "quantarhei/builders/opensystem.py"


def m(name, rule, path, old, new, count=1):
    return {"name": name, "kind": "mutant", "rule": rule, "edits": [(path, old, new, count)]}


def t(name, path, old, new, count=1):
    return {"name": name, "kind": "twin", "edits": [(path, old, new, count)]}


CASES = [
    m("absolute energies in the exponent (the repaired defect)", "C14-A", A,
      "            ne = numpy.exp(-(ens-numpy.amin(ens))/kBT)", "            ne = numpy.exp(-ens/kBT)"),
    m("molecular thermal state unshifted (the repaired defect)", "C14-A", O,
      "                ens = ens - numpy.amin(ens)\n", ""),
    m("zero-temperature guard removed", "C14-B", A,
      "        if temp == 0.0:\n            # zero temperature limit: the state of lowest energy\n            imin = start + numpy.argmin(ens)\n            rho0[imin,imin] = 1.0\n\n        else:\n",
      "        if True:\n"),
    m("zero temperature populates the first state (the repaired defect)", "C14-B", A,
      "            imin = start + numpy.argmin(ens)\n            rho0[imin,imin] = 1.0", "            rho0[start,start] = 1.0"),
    m("weak-coupling state wrapped outside its basis (the repaired defect)", "C14-C", A,
      "                with eigenbasis_of(Ham):\n                    rho = DensityMatrix(data=rho0)\n                self.rho0 = rho.data\n                return rho\n", ""),
    m("molecular thermal state wrapped after the context", "C14-C", O,
      "            rdm = ReducedDensityMatrix(data=dat)\n                \n        \n        return rdm", "            pass\n        rdm = ReducedDensityMatrix(data=dat)\n                \n        \n        return rdm"),
    m("weights not normalised", "C14-D", A, "            rho0_diag = ne/sne", "            rho0_diag = ne"),
    m("thermal energies read in the caller's units (the repaired defect)", "C14-E", A,
      "        with energy_units(\"int\"):\n            return self._get_DensityMatrix(condition_type=condition_type,",
      "        if True:\n            return self._get_DensityMatrix(condition_type=condition_type,"),
    m("molecular energies read in the caller's units", "C14-E", O,
      "                with energy_units(\"int\"):\n                    ens = numpy.real(numpy.diag(H.data))", "                if True:\n                    ens = numpy.real(numpy.diag(H.data))"),
    m("another routine calls _thermal_population directly", "C14-E", A,
      "        rho = self.get_DensityMatrix(condition_type=\"thermal\",\n                            relaxation_theory_limit=relaxation_theory_limit,\n                            temperature=temperature)\n        rho0 = rho.data",
      "        rho0 = self._thermal_population(temperature, relaxation_hamiltonian=self.get_Hamiltonian().data)"),
    t("shift written with min()", A, "            ne = numpy.exp(-(ens-numpy.amin(ens))/kBT)", "            ne = numpy.exp(-(ens-numpy.min(ens))/kBT)"),
    t("shift done in a separate statement", A,
      "            ne = numpy.exp(-(ens-numpy.amin(ens))/kBT)", "            esh = ens - numpy.amin(ens)\n            ne = numpy.exp(-esh/kBT)"),
]

CASES += [
    {"name": "weak-coupling energies read outside the exciton basis", "kind": "mutant", "rule": "C14-C", "edits": [
        ("quantarhei/builders/aggregate_base.py", "                with eigenbasis_of(Ham):\n                    H = Ham.data\n", "                H = Ham.data\n", 1)]},
]

CASES += [
    {"name": "combined tensor branch leaves the Hamiltonian protected", "kind": "mutant", "rule": "C14-F", "edits": [
        (O, "                ham.unprotect_basis()\n                ham.recover_cutoff_coupling()", "                ham.recover_cutoff_coupling()", 2)]},
]

CASES += [
    {"name": "reorganisation energy looked up with the running number of the state (the repaired defect)", "kind": "mutant", "rule": "C14-G", "edits": [
        ("quantarhei/builders/aggregate_base.py", "                            lam = self.sbi.get_reorganization_energy(\n                                                self.elinds[start+i]-1)",
         "                            lam = self.sbi.get_reorganization_energy(i)", 1)]},
    {"name": "site of the state looked up first", "kind": "twin", "edits": [
        ("quantarhei/builders/aggregate_base.py", "                            lam = self.sbi.get_reorganization_energy(\n                                                self.elinds[start+i]-1)",
         "                            site = self.elinds[start+i]-1\n                            lam = self.sbi.get_reorganization_energy(self.elinds[start+i]-1)", 1)]},
]

AB14 = "quantarhei/builders/aggregate_base.py"
CASES += [
    {"name": "aggregate temperature read from the correlation functions directly (the repaired defect)", "kind": "mutant", "rule": "C14-H", "edits": [
        (AB14, "        if not self.sbi.has_temperature():\n            return 0.0\n        \n        return self.sbi.get_temperature()", "        return self.sbi.CC.get_temperature()", 1)]},
    {"name": "reorganisation energies asked of a missing bath (the repaired defect)", "kind": "mutant", "rule": "C14-H", "edits": [
        (AB14, "                        lam = None\n                        if self.sbi is not None:\n                            lam = self.sbi.get_reorganization_energy(\n                                                self.elinds[start+i]-1)\n                        if lam is not None:\n                            re[i] = lam\n",
               "                        re[i] = self.sbi.get_reorganization_energy(\n                                                self.elinds[start+i]-1)\n", 1)]},
    {"name": "None from a rate-based bath stored as an energy", "kind": "mutant", "rule": "C14-H", "edits": [
        (AB14, "                        if lam is not None:\n                            re[i] = lam\n", "                        re[i] = lam\n", 1)]},
    {"name": "temperature guard written as positive branch", "kind": "twin", "edits": [
        (AB14, "        if not self.sbi.has_temperature():\n            return 0.0\n        \n        return self.sbi.get_temperature()", "        if self.sbi.has_temperature():\n            return self.sbi.get_temperature()\n        return 0.0", 1)]},
]

CASES += [
    {"name": "temperature short-cut by the bath flag (seeded change of round 5)", "kind": "mutant", "rule": "C14-I", "edits": [
        ("quantarhei/builders/molecules.py", "        if self.check_temperature_consistent():", "        if not self._has_system_bath_coupling:\n            return 0.0\n        if self.check_temperature_consistent():", 1)]},
]

CASES += [
    {"name": "misspelt attribute of the correlation function matrix (the repaired defect)", "kind": "mutant", "rule": "C14-J", "edits": [
        ("quantarhei/builders/molecules.py", "                return self.egcf_matrix.cfuncs[iof]", "                return self.egcf_matrix.cfunc[iof]", 1)]},
    {"name": "temperature from the first transition only (the repaired defect)", "kind": "mutant", "rule": "C14-J", "edits": [
        ("quantarhei/builders/molecules.py", "            for bath in self.egcf:\n                if bath is not None:\n                    return bath.get_temperature()\n\n            # environments given",
         "            try:\n                egcf = self.get_transition_environment([0,1])\n            except:\n                egcf = None\n            if egcf is not None:\n                return egcf.get_temperature()\n\n            # environments given", 1)]},
]

CASES += [
    m("an explicit zero temperature counts as not given (seeded change of round 6)", "C14-K", A,
      "        if temperature is None:\n            if self.sbi is None:\n                temperature = 0.0\n            elif self.sbi.has_temperature():",
      "        if not temperature:\n            if self.sbi is None:\n                temperature = 0.0\n            elif self.sbi.has_temperature():"),
    m("spectral density takes its own temperature when zero is asked for", "C14-K", "quantarhei/qm/corfunctions/spectraldensities.py",
      "            if temperature is not None:\n                newdict[\"T\"] = temperature\n            T = newdict[\"T\"]", "            if temperature:\n                newdict[\"T\"] = temperature\n            T = newdict[\"T\"]"),
    t("temperature default resolved with an inverted is-not-None test", A,
      "        if temperature is None:\n            if self.sbi is None:\n                temperature = 0.0\n            elif self.sbi.has_temperature():\n                temperature = self.sbi.get_temperature()\n            else:\n                temperature = 0.0\n",
      "        if temperature is not None:\n            pass\n        elif self.sbi is None:\n            temperature = 0.0\n        elif self.sbi.has_temperature():\n            temperature = self.sbi.get_temperature()\n        else:\n            temperature = 0.0\n"),
]

CASES += [
    m("'already diagonal' short cut in front of the diagonalisation (seeded change of round 7)", "C14-L", "quantarhei/qm/hilbertspace/operators.py",
      "        dd, SS = numpy.linalg.eigh(self._data)\n        return SS        \n",
      "        if self.is_diagonal():\n            order = numpy.argsort(numpy.real(numpy.diag(self._data)), kind=\"stable\")\n            return numpy.eye(self.dim)[:,order]\n        dd, SS = numpy.linalg.eigh(self._data)\n        return SS        \n"),
    t("eigenvectors returned through a second name", "quantarhei/qm/hilbertspace/operators.py",
      "        dd, SS = numpy.linalg.eigh(self._data)\n        return SS        \n",
      "        dd, vecs = numpy.linalg.eigh(self._data)\n        SS = vecs\n        return SS        \n"),
]

_SBI14 = "quantarhei/qm/liouvillespace/systembathinteraction.py"
_AB14 = "quantarhei/builders/aggregate_base.py"
CASES += [
    {"name": "reorganisation-energy getter shifts the index once more when the interaction belongs to a system (seeded change of round 8)",
     "kind": "mutant", "rule": "C14-G", "edits": [
        (_SBI14, "            if j is None:\n                j = i\n            return self.CC.get_reorganization_energy(i,j)\n",
                 "            if j is None:\n                j = i\n            if self.system is not None:\n                i, j = i-1, j-1\n            return self.CC.get_reorganization_energy(i,j)\n", 1)]},
    {"name": "both sides moved to counting with the ground state", "kind": "twin", "edits": [
        (_SBI14, "            if j is None:\n                j = i\n            return self.CC.get_reorganization_energy(i,j)\n",
                 "            if j is None:\n                j = i\n            return self.CC.get_reorganization_energy(i-1,j-1)\n", 1),
        (_AB14, "                                                self.elinds[start+i]-1)", "                                                self.elinds[start+i])", 1)]},
]

CASES += [
    {"name": "every failure of the temperature look-up is 'no temperature' (the repaired defect)", "kind": "mutant", "rule": "C14-N", "edits": [
        (_SBI14, "            if len(temps) > 1:\n                raise Exception(\"Temperature of the bath is not consistent: \"\n                                +str(temps))\n", "", 1)]},
]

_M14 = "quantarhei/core/managers.py"
CASES += [
    {"name": "nested contexts: stacked transformations multiplied in the wrong order (seeded change of round 9, filed under C08)",
     "kind": "mutant", "rule": "C14-O", "edits": [
        (_M14, "                    SS = numpy.dot(ZZ,SS)                ", "                    SS = numpy.dot(SS,ZZ)                ", 1)]},
    {"name": "nested contexts: the same product written with @", "kind": "twin", "edits": [
        (_M14, "                    SS = numpy.dot(ZZ,SS)                ", "                    SS = ZZ @ SS", 1)]},
]
