"""Self-test cases for C12."""
D = "quantarhei/spectroscopy/diagramatics.py"
L = "quantarhei/spectroscopy/labsetup.py"


def m(name, rule, path, old, new, count=1):
    return {"name": name, "kind": "mutant", "rule": rule, "edits": [(path, old, new, count)]}


def t(name, path, old, new, count=1):
    return {"name": name, "kind": "twin", "edits": [(path, old, new, count)]}


CASES = [
    m("numpy.int again (the repaired defect)", "C12-A", D, "self.transitions = numpy.zeros((order+1,2), dtype=int)", "self.transitions = numpy.zeros((order+1,2), dtype=numpy.int)"),
    m("scipy.signal.tukey again (the repaired defect)", "C12-A", "quantarhei/spectroscopy/twodcalculator.py", "sig.windows.tukey(", "sig.tukey("),
    m("M4 off-diagonal sign", "C12-B", L, "                               [-1.0, 4.0, -1.0],", "                               [1.0, 4.0, -1.0],"),
    m("M4 normalisation", "C12-B", L, "[-1.0,-1.0,  4.0]])/30.0", "[-1.0,-1.0,  4.0]])/15.0"),
    m("dipole factor pairs differently from the field factor", "C12-B", D,
      "            self.F4n[1] = numpy.dot(d[3,:],d[1,:])*numpy.dot(d[2,:],d[0,:])\n            self.F4n[2] = numpy.dot(d[3,:],d[0,:])*numpy.dot(d[2,:],d[1,:]) ",
      "            self.F4n[2] = numpy.dot(d[3,:],d[1,:])*numpy.dot(d[2,:],d[0,:])\n            self.F4n[1] = numpy.dot(d[3,:],d[0,:])*numpy.dot(d[2,:],d[1,:]) "),
    m("a matching repeated", "C12-B", L,
      "        F4e[2] = numpy.dot(e[3,:],e[0,:])*numpy.dot(e[2,:],e[1,:])", "        F4e[2] = numpy.dot(e[3,:],e[1,:])*numpy.dot(e[2,:],e[0,:])"),
    m("prefactor without the pathway sign", "C12-B", D, "            self.pref = self.sign*(numpy.dot(lab.F4eM4,self.F4n)", "            self.pref = (numpy.dot(lab.F4eM4,self.F4n)"),
    m("detection polarisation stored in row 2", "C12-B", L, "            self.e[3,:] = detection_polarization", "            self.e[2,:] = detection_polarization"),
    m("a dipole used twice", "C12-C", D,
      "            self.F4n[0] = numpy.dot(d[3,:],d[2,:])*numpy.dot(d[1,:],d[0,:])", "            self.F4n[0] = numpy.dot(d[3,:],d[2,:])*numpy.dot(d[1,:],d[1,:])"),
    m("signals table not a partition", "C12-D", "quantarhei/spectroscopy/twod2.py",
      "            signal_NONR:[_ptypes[0], _ptypes[3], _ptypes[5]],", "            signal_NONR:[_ptypes[0], _ptypes[3]],"),
    t("scalar products with swapped operands", D,
      "            self.F4n[0] = numpy.dot(d[3,:],d[2,:])*numpy.dot(d[1,:],d[0,:])", "            self.F4n[0] = numpy.dot(d[0,:],d[1,:])*numpy.dot(d[2,:],d[3,:])"),
]

CASES += [
    {"name": "self.side again (the repaired defect)", "kind": "mutant", "rule": "C12-A", "edits": [
        ("quantarhei/spectroscopy/diagramatics.py", "        return self.sides[n], self.transitions[n]", "        return self.side[n], self.transitions[n]", 1)]},
]

ASP = "quantarhei/builders/aggregate_spectroscopy.py"
CASES += [
    {"name": "R2g takes its t3 width from the other exciton of the pair", "kind": "mutant", "rule": "C12-E", "edits": [
        (ASP, "self.get_transition_width((i3d, i4g))", "self.get_transition_width((i2d, i4g))", 1)]},
    {"name": "R3g second interaction acts on the ket", "kind": "mutant", "rule": "C12-E", "edits": [
        (ASP, "                                        lp.add_transition((i3g,i2e),-1)", "                                        lp.add_transition((i3g,i2e),+1)", 2)]},
    {"name": "first-interval width looked up with the pair reversed", "kind": "twin", "edits": [
        (ASP, "                                        self.get_transition_width((i2e, i1g))", "                                        self.get_transition_width((i1g, i2e))", 5)]},
]

CASES += [
    {"name": "unknown keyword to liouville_pathways_3T (the repaired defect)", "kind": "mutant", "rule": "C12-A", "edits": [
        (ASP, "                                eUt=qr.qm.SOpUnity(dim=ham.dim), ham=ham,", "                                eUt2=qr.qm.SOpUnity(dim=ham.dim),", 1)]},
]

CASES += [
    {"name": "ground-to-one-exciton dephasing without the square", "kind": "mutant", "rule": "C12-F", "edits": [
        ("quantarhei/builders/aggregate_base.py", "                return self.Dr[Nf, Nf]**2", "                return self.Dr[Nf, Nf]", 1)]},
]

CASES += [
    {"name": "dipole tolerance scales with the first power of the dipoles (the repaired defect)", "kind": "mutant", "rule": "C12-G", "edits": [
        (ASP, "        dip_tol = self.D2_max*dtol", "        dip_tol = numpy.sqrt(self.D2_max)*dtol", 3)]},
]

CASES += [
    {"name": "exciton widths read the eigenvector matrix transposed (the repaired defect)", "kind": "mutant", "rule": "C12-I", "edits": [
        ("quantarhei/builders/aggregate_base.py", "                    Wd_a[ii] += (self.Wd[nn,nn]**2)*abs(SS[nn,ii])**4", "                    Wd_a[ii] += (self.Wd[nn,nn]**2)*abs(SS[ii,nn])**4", 1)]},
    {"name": "exciton dephasings read the eigenvector matrix transposed", "kind": "mutant", "rule": "C12-I", "edits": [
        ("quantarhei/builders/aggregate_base.py", "                    Dr_a[ii] += (self.Dr[nn,nn]**2)*abs(SS[nn,ii])**4", "                    Dr_a[ii] += (self.Dr[nn,nn]**2)*abs(SS[ii,nn])**4", 1)]},
]

_AB12 = "quantarhei/builders/aggregate_base.py"
CASES += [
    {"name": "cross term of the widths reads the transposed eigenvector element (seeded change of round 6)", "kind": "mutant", "rule": "C12-I", "edits": [
        (_AB12, "(SS[nn_2x, aa_2x]**2)*(SS[k_1x, alpha]**2)", "(SS[nn_2x, aa_2x]**2)*(SS[alpha, k_1x]**2)", 1)]},
    {"name": "two-exciton coefficient of the cross term transposed", "kind": "mutant", "rule": "C12-I", "edits": [
        (_AB12, "(SS[nn_2x, aa_2x]**2)*(SS[k_1x, alpha]**2)", "(SS[aa_2x, nn_2x]**2)*(SS[k_1x, alpha]**2)", 1)]},
    {"name": "two-exciton widths weight with the transposed element", "kind": "mutant", "rule": "C12-I", "edits": [
        (_AB12, "                        Wd_a[aa] += (SS[nn, aa]**2)*\\\n", "                        Wd_a[aa] += (SS[aa, nn]**2)*\\\n", 1)]},
    {"name": "cross term with the factors exchanged", "kind": "twin", "edits": [
        (_AB12, "(SS[nn_2x, aa_2x]**2)*(SS[k_1x, alpha]**2)", "(SS[k_1x, alpha]**2)*(SS[nn_2x, aa_2x]**2)", 1)]},
]

CASES += [
    {"name": "dephasing rate selected by testing the width (the repaired defect)", "kind": "mutant", "rule": "C12-K", "edits": [
        ("quantarhei/spectroscopy/mocktwodcalculator.py", "        if pathway.dephs[3] < 0.0:\n            dephy = self.dephy", "        if pathway.widths[3] < 0.0:\n            dephy = self.dephy", 1)]},
    {"name": "width of the first interval selected by testing the third", "kind": "mutant", "rule": "C12-K", "edits": [
        ("quantarhei/spectroscopy/mocktwodcalculator.py", "        if pathway.widths[1] < 0.0:\n            widthx = self.widthx", "        if pathway.widths[3] < 0.0:\n            widthx = self.widthx", 1)]},
]

_DD2 = ("        dd2 = numpy.zeros((Ntot,Ntot),dtype=numpy.float64)\n        for a in range(Ntot):\n            for b in range(Ntot):\n"
        "                dd2[a,b] = numpy.dot(self.DD[a,b,:],self.DD[a,b,:])\n")
CASES += [
    {"name": "squared dipoles vectorised with two letters for the Cartesian axis (seeded change of round 7)", "kind": "mutant", "rule": "C12-L", "edits": [
        (_AB12, _DD2, "        dd2 = numpy.einsum(\"abi,abj->ab\", self.DD, self.DD)\n", 1)]},
    {"name": "squared dipoles vectorised as a scalar product", "kind": "twin", "edits": [
        (_AB12, _DD2, "        dd2 = numpy.einsum(\"abi,abi->ab\", self.DD, self.DD)\n", 1)]},
    {"name": "squared dipoles as a sum of squares over the last axis", "kind": "twin", "edits": [
        (_AB12, _DD2, "        dd2 = numpy.sum(self.DD**2, axis=2)\n", 1)]},
]

CASES += [
    {"name": "pathway generator diagonalizes only what is diagonalized already (the repaired defect)", "kind": "mutant", "rule": "C12-M", "edits": [
        ("quantarhei/builders/aggregate_spectroscopy.py", "        if not self._diagonalized:\n            if verbose > 0:\n                print(\"Diagonalizing aggregate\")\n            self.diagonalize()",
         "        if self._diagonalized:\n            if verbose > 0:\n                print(\"Diagonalizing aggregate\")\n            self.diagonalize()", 2)]},
]

_MOCK = "quantarhei/spectroscopy/mocktwodcalculator.py"
CASES += [
    {"name": "rotating-frame Hamiltonian of the first calculation kept for the later ones (after the seeded change of round 8)", "kind": "mutant", "rule": "C12-N", "edits": [
        (_MOCK, "        H = eUt.get_Hamiltonian()\n    \n", "        if getattr(self, \"_ham_kept\", None) is None:\n            self._ham_kept = eUt.get_Hamiltonian()\n        H = self._ham_kept\n    \n", 1)]},
    {"name": "Hamiltonian asked for under another local name", "kind": "twin", "edits": [
        (_MOCK, "        H = eUt.get_Hamiltonian()\n    \n", "        ham_of_u = eUt.get_Hamiltonian()\n        H = ham_of_u\n    \n", 1)]},
]

_LAB12 = "quantarhei/spectroscopy/labsetup.py"
CASES += [
    {"name": "averaging vector stored when the polarisations are set, field objects write rows of e (the repaired defect)", "kind": "mutant", "rule": "C12-O", "edits": [
        (_LAB12, "    @property\n    def F4eM4(self):", "    def _F4eM4_now(self):", 1),
        (_LAB12, "    @F4eM4.setter\n    def F4eM4(self, value):", "    def _F4eM4_ignored(self, value):", 1),
        (_LAB12, "            # (the vector F4eM4 for orientational averaging is derived from \n", "            self.F4eM4 = self._F4eM4_now()\n            # (the vector F4eM4 for orientational averaging is derived from \n", 1)]},
    {"name": "averaging vector stored, and derived again by the field object that writes a polarisation", "kind": "twin", "edits": [
        (_LAB12, "    @property\n    def F4eM4(self):", "    def _F4eM4_now(self):", 1),
        (_LAB12, "    @F4eM4.setter\n    def F4eM4(self, value):", "    def _F4eM4_ignored(self, value):", 1),
        (_LAB12, "            # (the vector F4eM4 for orientational averaging is derived from \n", "            self.F4eM4 = self._F4eM4_now()\n            # (the vector F4eM4 for orientational averaging is derived from \n", 1),
        (_LAB12, "        self.labsetup.e[self.index,:] = pol\n", "        self.labsetup.e[self.index,:] = pol\n        self.labsetup.F4eM4 = self.labsetup._F4eM4_now()\n", 1)]},
]
