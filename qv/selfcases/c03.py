"""Self-test cases for C03."""
I = "quantarhei/builders/interactions.py"
A = "quantarhei/builders/aggregate_base.py"
U = "quantarhei/core/units.py"


def m(name, rule, path, old, new, count=1):
    return {"name": name, "kind": "mutant", "rule": rule, "edits": [(path, old, new, count)]}


def t(name, path, old, new, count=1):
    return {"name": name, "kind": "twin", "edits": [(path, old, new, count)]}


CASES = [
    m("factor 3 becomes 2", "C03-A", I, "        - 3.0*np.dot(d1,R)*np.dot(d2,R)/(RR**5))", "        - 2.0*np.dot(d1,R)*np.dot(d2,R)/(RR**5))"),
    m("second term with R^3", "C03-A", I, "        - 3.0*np.dot(d1,R)*np.dot(d2,R)/(RR**5))", "        - 3.0*np.dot(d1,R)*np.dot(d2,R)/(RR**3))"),
    m("permittivity multiplies", "C03-A", I, "    return prf*cc/epsr    ", "    return prf*cc*epsr    "),
    m("eps0_int changed by 10", "C03-B", U, "eps0_int = 1.0e19/(4.0*const.pi*J2int)", "eps0_int = 1.0e18/(4.0*const.pi*J2int)"),
    m("prefactor without 4 pi", "C03-B", I, "    prf = 1.0/(4.0*const.pi*eps0_int)", "    prf = 1.0/(eps0_int)"),
    m("one-sided coupling store", "C03-C", A, "        self.resonance_coupling[i,j] = coup\n        self.resonance_coupling[j,i] = coup", "        self.resonance_coupling[i,j] = coup"),
    m("mirror stores a different value", "C03-C", A, "                self.resonance_coupling[ll,kk] = c1", "                self.resonance_coupling[ll,kk] = cc"),
    m("build leaves internal units (the repaired defect)", "C03-D", A,
      "        with energy_units(\"int\"):\n            self._build(mult=mult,", "        if True:\n            self._build(mult=mult,"),
    m("energy loop skips the first molecule", "C03-G", "quantarhei/builders/aggregate_states.py",
      "        k = 0\n        for nn in self.elsignature:\n            en += \\", "        k = 0\n        for nn in self.elsignature[1:]:\n            en += \\"),
    m("one-exciton coupling read one molecule further", "C03-F", A, "                        kk = list(state1.elsignature).index(1)\n", "                        kk = list(state1.elsignature).index(1) + 1\n"),
    m("dipole of a fixed molecule", "C03-G", A, "        eldip = self.get_dipole(exindx, min(n1, n2), max(n1, n2))", "        eldip = self.get_dipole(0, min(n1, n2), max(n1, n2))"),
    t("formula with common denominator", I,
      "    cc = (np.dot(d1,d2)/(RR**3)\n        - 3.0*np.dot(d1,R)*np.dot(d2,R)/(RR**5))", "    cc = (np.dot(d1,d2)*RR**2\n        - 3.0*np.dot(d1,R)*np.dot(d2,R))/(RR**5)"),
]

CASES += [
    m("two-exciton: 'one quantum moved' test dropped", "C03-F", A,
      "                            if (sdf == 2):", "                            if (sdf >= 2):"),
    t("'one quantum moved' test evaluated on the two differing sites only", A,
      "                            df = numpy.abs(ar1-ar2)\n                            sdf = numpy.sum(df)",
      "                            df = numpy.abs(ar1[[kk,ll]]-ar2[[kk,ll]])\n                            sdf = numpy.sum(df)"),
    m("electronic two-exciton states: any difference couples", "C03-F", A,
      "                        if k == 2:\n                            kk = sites[0]\n                            ll = sites[1]\n                            coup = self.resonance_coupling[kk,ll]\n",
      "                        if k >= 2:\n                            kk = sites[0]\n                            ll = sites[1]\n                            coup = self.resonance_coupling[kk,ll]\n"),
    m("one-exciton couplings shifted by one molecule", "C03-F", A,
      "                        kk = list(es1.elsignature).index(1)\n                        ll = list(es2.elsignature).index(1)",
      "                        kk = list(es1.elsignature).index(1)\n                        ll = list(es2.elsignature).index(1) + 1"),
    t("differing sites recorded without the guard", A,
      "                                if (k == 0) or (k == 1):\n                                    sites[k] = i\n                                k += 1\n                        # if there are exactly 2 differences, the differing\n                        # two molecules are those coupled; sites[k] contains\n                        # indiced those coupled molecules\n                        if k == 2:\n                            kk = sites[0]\n                            ll = sites[1]\n                            #print(kk,ll,els1,els2)",
      "                                if k < 2:\n                                    sites[k] = i\n                                k = k + 1\n                        if k == 2:\n                            kk, ll = sites\n                            #print(kk,ll,els1,els2)"),
]

AS = "quantarhei/builders/aggregate_states.py"
CASES += [
    m("transition dipole for any number of changed molecules", "C03-G", A,
      "        if count != 1:\n            return -1\n\n        # now that we know", "        if count < 1:\n            return -1\n\n        # now that we know"),
    m("state energy counts the first molecule only", "C03-G", AS,
      "                    self.aggregate.monomers[k].elenergies[nn])\n            k += 1\n            \n        return en",
      "                    self.aggregate.monomers[k].elenergies[nn])\n            break\n            \n        return en"),
    t("state energy via enumerate", AS,
      "        k = 0\n        for nn in self.elsignature:\n            en += \\\n            self.convert_energy_2_current_u(\n                    self.aggregate.monomers[k].elenergies[nn])\n            k += 1\n            \n        return en",
      "        for k, nn in enumerate(self.elsignature):\n            en += \\\n            self.convert_energy_2_current_u(\n                    self.aggregate.monomers[k].elenergies[nn])\n\n        return en"),
]

CASES += [
    m("connecting vector scaled in place (fails for whole-number positions)", "C03-A", I,
      "    R = r1 - r2\n    RR = np.sqrt(np.dot(R,R))\n    \n    prf = 1.0/(4.0*const.pi*eps0_int)\n    \n    cc = (np.dot(d1,d2)/(RR**3)\n        - 3.0*np.dot(d1,R)*np.dot(d2,R)/(RR**5))",
      "    R = r1 - r2\n    RR = np.sqrt(np.dot(R,R))\n    R *= 1.0/RR\n    \n    prf = 1.0/(4.0*const.pi*eps0_int)\n    \n    cc = (np.dot(d1,d2)\n        - 3.0*np.dot(d1,R)*np.dot(d2,R))/(RR**3)"),
    t("unit vector as a new array", I,
      "    R = r1 - r2\n    RR = np.sqrt(np.dot(R,R))\n    \n    prf = 1.0/(4.0*const.pi*eps0_int)\n    \n    cc = (np.dot(d1,d2)/(RR**3)\n        - 3.0*np.dot(d1,R)*np.dot(d2,R)/(RR**5))",
      "    R = r1 - r2\n    RR = np.sqrt(np.dot(R,R))\n    nn = R/RR\n    \n    prf = 1.0/(4.0*const.pi*eps0_int)\n    \n    cc = (np.dot(d1,d2)\n        - 3.0*np.dot(d1,nn)*np.dot(d2,nn))/(RR**3)"),
]

CASES += [
    m("dipole operator built on the aggregate's working array", "C03-H", A,
      "        trdata[:,:,:] = DD[:,:,:]\n        self.TrDMOp = TransitionDipoleMoment(data=trdata)",
      "        self.TrDMOp = TransitionDipoleMoment(data=DD)"),
]

AB3 = "quantarhei/builders/aggregate_base.py"
CASES += [
    {"name": "rebuild keeps the diagonalized mark (the repaired defect)", "kind": "mutant", "rule": "C03-I", "edits": [
        (AB3, "        self._diagonalized = False\n        # Hamiltonian operator", "        # Hamiltonian operator", 1)]},
    {"name": "remove_Molecule leaves the coupling matrix (the repaired defect)", "kind": "mutant", "rule": "C03-I", "edits": [
        (AB3, "        if self.coupling_initiated:\n            self.resonance_coupling = numpy.delete(\n                numpy.delete(self.resonance_coupling, im, 0), im, 1)\n", "", 1)]},
    {"name": "add_Molecule leaves the coupling matrix (the repaired defect)", "kind": "mutant", "rule": "C03-I", "edits": [
        (AB3, "        if self.coupling_initiated:\n            rc = numpy.zeros((self.nmono,self.nmono), dtype=numpy.float64)\n            rc[:self.nmono-1,:self.nmono-1] = self.resonance_coupling\n            self.resonance_coupling = rc\n", "", 1)]},
]

_AS = "quantarhei/builders/aggregate_states.py"
_EN = "            self.convert_energy_2_current_u(\n                    self.aggregate.monomers[k].elenergies[nn])\n"
CASES += [
    {"name": "level energy taken from the public getter and converted again (seeded change of round 6)", "kind": "mutant", "rule": "C03-G", "edits": [
        (_AS, _EN, "            self.convert_energy_2_current_u(\n                    self.aggregate.monomers[k].get_energy(nn))\n", 1)]},
    {"name": "level energy taken from the public getter, converted once", "kind": "twin", "edits": [
        (_AS, _EN, "            self.aggregate.monomers[k].get_energy(nn)\n", 1)]},
]

CASES += [
    {"name": "molecule to be removed is looked up by its name (seeded change of round 7)", "kind": "mutant", "rule": "C03-K", "edits": [
        ("quantarhei/builders/aggregate_base.py", "        im = self.monomers.index(mono)\n        self.monomers.remove(mono)", "        im = self.get_Molecule_index(mono.name)\n        self.monomers.remove(mono)", 1)]},
    {"name": "molecule to be removed is looked up in the table of names", "kind": "mutant", "rule": "C03-K", "edits": [
        ("quantarhei/builders/aggregate_base.py", "        im = self.monomers.index(mono)\n        self.monomers.remove(mono)", "        im = self.mnames[mono.name]\n        self.monomers.remove(mono)", 1)]},
]

_DM3 = "quantarhei/qm/hilbertspace/dmoment.py"
_DS_OLD = ("        d = numpy.zeros(3,dtype=numpy.float64)        \n        for i in range(3):        \n"
           "            d[i] = self.data[fstate,tstate,i]\n        return numpy.dot(d,d)\n")
_TR_OLD = "            self._data[:,:,i] = numpy.dot(S1,numpy.dot(self._data[:,:,i],SS))\n        \n"
CASES += [
    {"name": "dipole strengths kept from the first request; transform() resets them, but the request does not touch the "
             "managed data first (seeded change of round 8)", "kind": "mutant", "rule": "C03-I", "edits": [
        (_DM3, _DS_OLD, "        if getattr(self, \"_dstrength\", None) is None:\n            dd = numpy.real(self.data)\n"
                        "            self._dstrength = numpy.einsum(\"abi,abi->ab\", dd, dd)\n        return self._dstrength[fstate,tstate]\n", 1),
        (_DM3, _TR_OLD, "            self._data[:,:,i] = numpy.dot(S1,numpy.dot(self._data[:,:,i],SS))\n        self._dstrength = None\n        \n", 1)]},
    {"name": "dipole strengths of all transitions computed at once on every request", "kind": "twin", "edits": [
        (_DM3, _DS_OLD, "        dd = numpy.real(self.data)\n        dstrength = numpy.einsum(\"abi,abi->ab\", dd, dd)\n"
                        "        return dstrength[fstate,tstate]\n", 1)]},
]

_AB3 = "quantarhei/builders/aggregate_base.py"
CASES += [
    {"name": "derived matrix of correlation functions marked as supplied by the user (the repaired defect)", "kind": "mutant", "rule": "C03-I", "edits": [
        (_AB3, "                # a matrix set by the user is kept)\n                self._has_system_bath_interaction = True\n",
               "                # a matrix set by the user is kept)\n                self._has_system_bath_interaction = True\n                self._has_egcf_matrix = True\n", 1)]},
]

CASES += [
    {"name": "molecule of a one-exciton state taken from the running number of the state (the repaired defect)", "kind": "mutant", "rule": "C03-L", "edits": [
        (_AB3, "                        kk = list(es1.elsignature).index(1)\n", "                        kk = es1.index - 1\n", 1)]},
    {"name": "molecule of a one-exciton state found by a loop over the signature", "kind": "twin", "edits": [
        (_AB3, "                        kk = list(state1.elsignature).index(1)\n", "                        kk = 0\n                        for i_ in range(len(state1.elsignature)):\n                            if state1.elsignature[i_] == 1:\n                                kk = i_\n", 1)]},
]

_AB9 = "quantarhei/builders/aggregate_base.py"
CASES += [
    {"name": "the parameters of the coupling method are popped from the caller's dictionary (seeded change of round 9)", "kind": "mutant",
     "rule": "C03-M", "edits": [(_AB9, '            epsr = params["epsr"]\n', '            epsr = params.pop("epsr", 1.0)\n', 1)]},
    {"name": "the parameter is deleted from the dictionary after it was read", "kind": "mutant",
     "rule": "C03-M", "edits": [(_AB9, '            epsr = params["epsr"]\n', '            epsr = params["epsr"]\n            del params["epsr"]\n', 1)]},
    {"name": "the parameter is read with get and a default", "kind": "twin",
     "edits": [(_AB9, '            epsr = params["epsr"]\n', '            epsr = params.get("epsr", 1.0)\n', 1)]},
    {"name": "the parameters are popped from a copy of the dictionary", "kind": "twin",
     "edits": [(_AB9, '            epsr = params["epsr"]\n', '            params = dict(params)\n            epsr = params.pop("epsr", 1.0)\n', 1)]},
]
