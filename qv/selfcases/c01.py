"""Self-test cases for C01 (mutants must be reported, twins must stay silent)."""
R = "quantarhei/qm/liouvillespace/"


def m(name, rule, path, old, new, count=1):
    return {"name": name, "kind": "mutant", "rule": rule, "edits": [(path, old, new, count)]}


def t(name, path, old, new, count=1):
    return {"name": name, "kind": "twin", "edits": [(path, old, new, count)]}


CASES = [
    m("loopit index swap Ld[m,d,b]->Ld[m,b,d]", "C01-A", R + "redfieldtensor.py",
      "RR[a,b,c,d] += (Km[m,a,c]*Ld[m,d,b] \n                                    + Lm[m,a,c]*Kd[d,b])",
      "RR[a,b,c,d] += (Km[m,a,c]*Ld[m,b,d] \n                                    + Lm[m,a,c]*Kd[d,b])"),
    m("loopit dropped correction if a == c", "C01-A", R + "redfieldtensor.py",
      "                    if a == c:\n                        RR[a,b,c,d] -= LdKm[d,b]",
      "                    if a == c:\n                        pass"),
    m("loopit sign flip", "C01-A", R + "redfieldtensor.py",
      "                        RR[a,b,c,d] -= KdLm[a,c] \n                    if a == c:", "                        RR[a,b,c,d] += KdLm[a,c] \n                    if a == c:"),
    m("Ld built without conj", "C01-A", R + "redfieldtensor.py",
      "Ld[ms, :, :] += numpy.conj(numpy.transpose(Lm[ms,:,:]))",
      "Ld[ms, :, :] += numpy.transpose(Lm[ms,:,:])"),
    # with the conjugated operators formed as Hermitian conjugates (d166200) the identities hold for complex K as well
    t("Km allocated complex", R + "redfieldtensor.py",
      "Km = numpy.zeros((Nb, Na, Na), dtype=numpy.float64) ",
      "Km = numpy.zeros((Nb, Na, Na), dtype=numpy.complex128) "),
    m("TD tensor: wrong guard", "C01-A", R + "tdredfieldtensor.py",
      "                                if b == d:\n                                    RR[tt,a,b,c,d] -= KmLm[a,c] ",
      "                                if b == c:\n                                    RR[tt,a,b,c,d] -= KmLm[a,c] "),
    m("Lindblad lld not transposed", "C01-A", R + "lindbladform.py",
      "lld[i, :, :] = numpy.transpose(llm[i, :, :])", "lld[i, :, :] = llm[i, :, :]"),
    m("apply(): operator form sign", "C01-A", R + "redfieldtensor.py",
      "                -numpy.dot(numpy.dot(Kd[mm,:,:],Lm[mm,:,:]), rho1)",
      "                +numpy.dot(numpy.dot(Kd[mm,:,:],Lm[mm,:,:]), rho1)"),
    m("combined tensor: depopulation dropped", "C01-A", R + "redfieldfoerster.py",
      "                self.data[b,b,b,b] += -gg", "                pass"),
    m("combined TD tensor: rate written to wrong element", "C01-A", R + "tdredfieldfoerster.py",
      "self.data[:,a,a,b,b] += KF[:Ntc,a,b]", "self.data[:,a,b,a,b] += KF[:Ntc,a,b]"),
    m("Foerster dephasing without conj (the repaired defect)", "C01-B", R + "foerstertensor.py",
      "+numpy.conj(ht[bb,Nt-1]))", "+ht[bb,Nt-1])"),
    m("TD Foerster dephasing without conj (the repaired defect)", "C01-B", R + "tdfoerstertensor.py",
      "(ht[aa,:]+numpy.conj(ht[bb,:]))", "(ht[aa,:]+ht[bb,:])"),
    # (since 79581c0 updateStructure assigns the depopulation rates: a second call, or a value written on the diagonal
    #  before it, no longer changes the tensor - these two former mutants are twins now)
    t("updateStructure called twice", R + "foerstertensor.py",
      "            self.updateStructure()\n", "            self.updateStructure()\n            self.updateStructure()\n"),
    {"name": "updateStructure moved before the rates", "kind": "mutant", "rule": "C01-B", "edits": [
        (R + "foerstertensor.py",
         "            for aa in range(self.dim):\n                for bb in range(self.dim):\n                    if aa != bb:\n                        self.data[aa,aa,bb,bb] = frm.data[aa,bb]",
         "            self.updateStructure()\n            for aa in range(self.dim):\n                for bb in range(self.dim):\n                    if aa != bb:\n                        self.data[aa,aa,bb,bb] = frm.data[aa,bb]", 1),
        (R + "foerstertensor.py", "            self.updateStructure()\n\n            if self.pure_dephasing:",
         "            if self.pure_dephasing:", 1)]},
    m("updateStructure: dephasing not mirrored", "C01-B", R + "relaxationtensor.py",
      "                    self._data[mm,nn,mm,nn] = self._data[nn,mm,nn,mm] \n\n        else:",
      "                    pass\n\n        else:"),
    t("diagonal rate written before completion", R + "foerstertensor.py",
      "                    if aa != bb:\n                        self.data[aa,aa,bb,bb] = frm.data[aa,bb]",
      "                    if True:\n                        self.data[aa,aa,bb,bb] = frm.data[aa,bb]"),
    m("secular mask widened (keeps R[a,b,b,a])", "C01-C", R + "secular.py",
      "                            if not (((ii == jj) and (kk == ll)) \n                                or ((ii == kk) and (jj == ll))) :\n                                    self.data[ii,jj,kk,ll] = 0",
      "                            if not (((ii == jj) and (kk == ll)) \n                                or ((ii == kk) and (jj == ll)) or ((ii == ll) and (jj == kk))) :\n                                    self.data[ii,jj,kk,ll] = 0"),
    m("secular mask narrowed (drops coherences)", "C01-C", R + "relaxationtensor.py",
      "                                    if not (((ii == jj) and (kk == ll)) \n                                        or ((ii == kk) and (jj == ll))) :\n                                            self.data[ii,jj,kk,ll] = 0",
      "                                    if not (((ii == jj) and (kk == ll))) :\n                                            self.data[ii,jj,kk,ll] = 0"),
    m("TD secular mask zeroes populations", "C01-C", R + "tdredfieldtensor.py",
      "                        if not (((ii == jj) and (kk == ll)) \n                            or ((ii == kk) and (jj == ll))) :",
      "                        if not ((ii == kk) and (jj == ll)) :"),
    # twins
    t("loopit: commuted product", R + "redfieldtensor.py",
      "RR[a,b,c,d] += (Km[m,a,c]*Ld[m,d,b] ", "RR[a,b,c,d] += (Ld[m,d,b]*Km[m,a,c] ", 2),
    t("loopit: loop variable renamed", R + "redfieldtensor.py",
      "    for a in range(Na):\n        for b in range(Na):\n            for c in range(Na):\n                for d in range(Na):\n                    \n                    RR[a,b,c,d] += (Km[m,a,c]*Ld[m,d,b] \n                                    + Lm[m,a,c]*Kd[d,b])\n                    if b == d:\n                        RR[a,b,c,d] -= KdLm[a,c] \n                    if a == c:\n                        RR[a,b,c,d] -= LdKm[d,b]",
      "    for a in range(Na):\n        for b in range(Na):\n            for c in range(Na):\n                for e in range(Na):\n                    \n                    RR[a,b,c,e] += (Km[m,a,c]*Ld[m,e,b] \n                                    + Lm[m,a,c]*Kd[e,b])\n                    if e == b:\n                        RR[a,b,c,e] -= KdLm[a,c] \n                    if c == a:\n                        RR[a,b,c,e] -= LdKm[e,b]"),
    t("loopit: products precomputed with einsum", R + "redfieldtensor.py",
      "\n    KdLm = numpy.dot(Kd,Lm[m,:,:])", "\n    KdLm = numpy.einsum('ik,kj->ij', Kd, Lm[m,:,:])"),
    t("Ld via .T and conj()", R + "redfieldtensor.py",
      "Ld[ms, :, :] += numpy.conj(numpy.transpose(Lm[ms,:,:]))",
      "Ld[ms, :, :] += Lm[ms,:,:].T.conj()"),
    t("secular mask rewritten by De Morgan", R + "secular.py",
      "                            if not (((ii == jj) and (kk == ll)) \n                                or ((ii == kk) and (jj == ll))) :\n                                    self.data[ii,jj,kk,ll] = 0",
      "                            if (((ii != jj) or (kk != ll)) \n                                and ((ii != kk) or (jj != ll))) :\n                                    self.data[ii,jj,kk,ll] = 0"),
    t("Foerster dephasing: sum reordered", R + "foerstertensor.py",
      "self.data[aa,bb,aa,bb] -= (ht[aa,Nt-1]\n                                               +numpy.conj(ht[bb,Nt-1]))",
      "self.data[aa,bb,aa,bb] -= (numpy.conj(ht[bb,Nt-1])\n                                               +ht[aa,Nt-1])"),
]

CASES += [
    m("TD-Redfield mask written to the raw storage", "C01-C", R + "tdredfieldtensor.py",
      "                                self.data[:,ii,jj,kk,ll] = 0", "                                self._data[:,ii,jj,kk,ll] = 0"),
    t("mask written through an alias of the managed property", R + "relaxationtensor.py",
      "                if self.data.ndim == 4:\n                    N = self.data.shape[0]\n                    for ii in range(N):\n                        for jj in range(N):\n                            for kk in range(N):\n                                for ll in range(N):\n                                    if not (((ii == jj) and (kk == ll)) \n                                        or ((ii == kk) and (jj == ll))) :\n                                            self.data[ii,jj,kk,ll] = 0",
      "                if self.data.ndim == 4:\n                    N = self.data.shape[0]\n                    dta = self.data\n                    for ii in range(N):\n                        for jj in range(N):\n                            for kk in range(N):\n                                for ll in range(N):\n                                    if not (((ii == jj) and (kk == ll)) \n                                        or ((ii == kk) and (jj == ll))) :\n                                            dta[ii,jj,kk,ll] = 0"),
]

CASES += [
    m("cut-off attribute misspelt again (the repaired defect)", "C01-D", R + "foerstertensor.py",
      "                cft = self.cutoff_time", "                cft = self.cut_off_time"),
]

CASES += [
    m("time-dependent combined tensor calls the rate routine without the integral (the repaired defect)", "C01-D", R + "tdredfieldfoerster.py",
      "            KF = td_foerster_rates(Na, Nt, hh, tt, gvals, lamb, _td_fintegral)", "            KF = td_foerster_rates(Na, Nt, hh, tt, gvals, lamb)"),
]

CASES += [
    m("Hermitian conjugates built for all bath components but the last", "C01-A", R + "redfieldtensor.py",
      "        for ms in range(Nb):\n            Ld[ms, :, :] += numpy.conj(numpy.transpose(Lm[ms,:,:]))",
      "        for ms in range(Nb-1):\n            Ld[ms, :, :] += numpy.conj(numpy.transpose(Lm[ms,:,:]))"),
]

CASES += [
    m("dephasing rates kept as a view of the tensor (the repaired defect)", "C01-C", R + "relaxationtensor.py",
      "            self.secular_GG = numpy.einsum(\"ijij->ij\", self.data).copy()", "            self.secular_GG = numpy.einsum(\"ijij->ij\", self.data)"),
]

CASES += [
    {"name": "time-dependent tensor refuses to be secularized in operator form (the repaired defect)", "kind": "mutant", "rule": "C01-E", "edits": [
        ("quantarhei/qm/liouvillespace/tdredfieldtensor.py", "            # the tensor is needed, as for the time-independent tensor\n            self.convert_2_tensor()\n",
         "            raise Exception(\"Cannot be secularized in an opeator form\")\n", 1)]},
    {"name": "data-based secularization looks at the data before converting (the repaired defect)", "kind": "mutant", "rule": "C01-E", "edits": [
        ("quantarhei/qm/liouvillespace/secular.py", "            if self.as_operators:\n                # the data come into being by conversion from the operators\n                self.convert_2_tensor()\n", "", 1)]},
]

CASES += [
    {"name": "cut-off Redfield part added in place to the full-length array (the repaired defect)", "kind": "mutant", "rule": "C01-F", "edits": [
        ("quantarhei/qm/liouvillespace/tdredfieldfoerster.py", "            Ntr = RT.data.shape[0]\n            self.data = self.data[:Ntr,:,:,:,:] + RT.data\n", "            self.data += RT.data\n", 1)]},
]

CASES += [
    {"name": "Foerster tensor allocated in the constructor only (seeded change of round 5)", "kind": "mutant", "rule": "C01-G", "edits": [
        (R + "foerstertensor.py", "        self.data = numpy.zeros((Na,Na,Na,Na),dtype=COMPLEX)\n", "", 1)]},
]

CASES += [
    {"name": "operator count taken from a missing system-bath interaction (the repaired defect)", "kind": "mutant", "rule": "C01-H", "edits": [
        (R + "redfieldtensor.py", "        Nb = Km.shape[0]\n        \n        RR = numpy.zeros((Na, Na, Na, Na), dtype=numpy.complex128)", "        Nb = self.SystemBathInteraction.N\n        \n        RR = numpy.zeros((Na, Na, Na, Na), dtype=numpy.complex128)", 1)]},
]

CASES += [
    {"name": "Redfield initialize() leaves the secular mark (the repaired defect)", "kind": "mutant", "rule": "C01-I", "edits": [
        ("quantarhei/qm/liouvillespace/redfieldtensor.py", "        # the data calculated below are not secular, whatever was done\n        # to the data they replace\n        self.is_secular = False\n", "", 1)]},
    {"name": "Foerster initialize() leaves the secular mark (the repaired defect)", "kind": "mutant", "rule": "C01-I", "edits": [
        ("quantarhei/qm/liouvillespace/foerstertensor.py", "        # the data calculated below are not secular, whatever was done\n        # to the data they replace\n        self.is_secular = False\n", "", 1)]},
    {"name": "secular mark cleared by the implementation hook instead of initialize()", "kind": "twin", "edits": [
        ("quantarhei/qm/liouvillespace/redfieldtensor.py", "        # the data calculated below are not secular, whatever was done\n        # to the data they replace\n        self.is_secular = False\n", "", 1),
        ("quantarhei/qm/liouvillespace/redfieldtensor.py", "        qr.log_detail(\"Reference time-independent Redfield tensor calculation\")\n", "        qr.log_detail(\"Reference time-independent Redfield tensor calculation\")\n        self.is_secular = False\n", 1),
        ("quantarhei/qm/liouvillespace/tdredfieldtensor.py", "    def _implementation(self, ham, sbi):\n", "    def _implementation(self, ham, sbi):\n        self.is_secular = False\n", 1),
        ("quantarhei/qm/liouvillespace/lindbladform.py", "    def _implementation(self, ham, sbi):\n", "    def _implementation(self, ham, sbi):\n        self.is_secular = False\n", 1)]},
]

_SEC = "quantarhei/qm/liouvillespace/secular.py"
_SEG = '        if self.data.ndim == 4:\n            N = self.data.shape[0]\n            for ii in range(N):\n                for jj in range(N):\n                    for kk in range(N):\n                        for ll in range(N):\n                            if not (((ii == jj) and (kk == ll)) \n                                or ((ii == kk) and (jj == ll))) :\n                                    self.data[ii,jj,kk,ll] = 0\n        else:  \n            N = self.data.shape[1]\n            for ii in range(N):\n                for jj in range(N):\n                    for kk in range(N):\n                        for ll in range(N):\n                            if not (((ii == jj) and (kk == ll)) \n                                or ((ii == kk) and (jj == ll))) :\n                                    self.data[:,ii,jj,kk,ll] = 0\n'
CASES += [
    {"name": "the two mask loops merged, time index forgotten (seeded change of round 7)", "kind": "mutant", "rule": "C01-C", "edits": [
        (_SEC, _SEG, '        N = self.data.shape[-1]\n        for ii in range(N):\n            for jj in range(N):\n                for kk in range(N):\n                    for ll in range(N):\n                        if not (((ii == jj) and (kk == ll))\n                            or ((ii == kk) and (jj == ll))) :\n                                self.data[ii,jj,kk,ll] = 0\n', 1)]},
    {"name": "the two mask loops merged with an ellipsis in front of the state indices", "kind": "twin", "edits": [
        (_SEC, _SEG, '        N = self.data.shape[-1]\n        for ii in range(N):\n            for jj in range(N):\n                for kk in range(N):\n                    for ll in range(N):\n                        if not (((ii == jj) and (kk == ll))\n                            or ((ii == kk) and (jj == ll))) :\n                                self.data[...,ii,jj,kk,ll] = 0\n', 1)]},
]

_NEF = "quantarhei/qm/liouvillespace/nefoerstertensor.py"
_RRL = ("    for a in range(Na):\n        for b in range(Na):\n            for c in range(Na):\n"
        "                RR[:,a,b] -= JJ[a,c]*JJ[c,b]*fKK[:,c,c,b,a] \n")
CASES += [
    {"name": "operator part of the NE Foerster tensor as an einsum with the last two indices exchanged (seeded change of round 8)", "kind": "mutant", "rule": "C01-J", "edits": [
        (_NEF, _RRL, "    RR -= numpy.einsum(\"ac,cb,tccab->tab\", JJ, JJ, fKK)\n", 1)]},
    {"name": "operator part of the NE Foerster tensor as the correct einsum", "kind": "twin", "edits": [
        (_NEF, _RRL, "    RR -= numpy.einsum(\"ac,cb,tccba->tab\", JJ, JJ, fKK)\n", 1)]},
]

_RT1 = "quantarhei/qm/liouvillespace/relaxationtensor.py"
CASES += [
    {"name": "depopulation rates subtracted in place (the repaired defect)", "kind": "mutant", "rule": "C01-K", "edits": [
        (_RT1, "                self._data[nn,nn,nn,nn] = -(numpy.trace(self._data[:,:,nn,nn])\n", "                self._data[nn,nn,nn,nn] -= (numpy.trace(self._data[:,:,nn,nn])\n", 1)]},
    {"name": "depopulation rate is minus the whole trace", "kind": "mutant", "rule": "C01-K", "edits": [
        (_RT1, "                self._data[nn,nn,nn,nn] = -(numpy.trace(self._data[:,:,nn,nn])\n                                            - self._data[nn,nn,nn,nn])\n",
               "                self._data[nn,nn,nn,nn] = -(numpy.trace(self._data[:,:,nn,nn]))\n", 1)]},
    {"name": "depopulation rate written as diagonal minus trace", "kind": "twin", "edits": [
        (_RT1, "                self._data[nn,nn,nn,nn] = -(numpy.trace(self._data[:,:,nn,nn])\n                                            - self._data[nn,nn,nn,nn])\n",
               "                self._data[nn,nn,nn,nn] = (self._data[nn,nn,nn,nn]\n                                            - numpy.trace(self._data[:,:,nn,nn]))\n", 1)]},
]

CASES += [
    {"name": "diagonal zeroed first, then minus the trace", "kind": "twin", "edits": [
        (_RT1, "                self._data[nn,nn,nn,nn] = -(numpy.trace(self._data[:,:,nn,nn])\n                                            - self._data[nn,nn,nn,nn])\n",
               "                self._data[nn,nn,nn,nn] = 0.0\n                self._data[nn,nn,nn,nn] = -numpy.trace(self._data[:,:,nn,nn])\n", 1)]},
    {"name": "diagonal zeroed first, then the trace subtracted twice", "kind": "mutant", "rule": "C01-K", "edits": [
        (_RT1, "                self._data[nn,nn,nn,nn] = -(numpy.trace(self._data[:,:,nn,nn])\n                                            - self._data[nn,nn,nn,nn])\n",
               "                self._data[nn,nn,nn,nn] = 0.0\n                self._data[nn,nn,nn,nn] -= 2.0*numpy.trace(self._data[:,:,nn,nn])\n", 1)]},
]

_TDRF9 = "quantarhei/qm/liouvillespace/tdredfieldfoerster.py"
_TDRF9_OLD = ("            for b in range(Na):\n                gg = 0.0\n                for a in range(Na):\n"
              "                    self.data[:,a,a,b,b] += KF[:Ntc,a,b]\n                    gg += KF[:Ntc,a,b]\n"
              "                self.data[:,b,b,b,b] += -gg\n")
_TDRF9_NEW = ("            KF = KF[:Ntc,:,:]\n            gg = numpy.sum(KF, axis=%d)\n            for b in range(Na):\n"
              "                for a in range(Na):\n                    self.data[:,a,a,b,b] += KF[:,a,b]\n"
              "                self.data[:,b,b,b,b] += -gg[:,b]\n")
CASES += [
    {"name": "TD combined tensor: depopulation rates summed at once over the wrong state axis (seeded change of round 9)",
     "kind": "mutant", "rule": "C01-A", "edits": [(_TDRF9, _TDRF9_OLD, _TDRF9_NEW % 2, 1)]},
    {"name": "TD combined tensor: depopulation rates summed at once over the donor's column", "kind": "twin",
     "edits": [(_TDRF9, _TDRF9_OLD, _TDRF9_NEW % 1, 1)]},
]
