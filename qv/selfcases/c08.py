"""Self-test cases for C08."""
E = "quantarhei/qm/liouvillespace/evolutionsuperoperator.py"


def m(name, rule, old, new, count=1):
    return {"name": name, "kind": "mutant", "rule": rule, "edits": [(E, old, new, count)]}


def t(name, old, new, count=1):
    return {"name": name, "kind": "twin", "edits": [(E, old, new, count)]}


CASES = [
    m("identity written at [i,i,j,j]", "C08-A",
      "            for i in range(dim):\n                for j in range(dim):\n                    self.data[0,i,j,i,j] = 1.0\n                \n        elif self.mode == \"jit\":",
      "            for i in range(dim):\n                for j in range(dim):\n                    self.data[0,i,i,j,j] = 1.0\n                \n        elif self.mode == \"jit\":"),
    m("identity at time index 1", "C08-A",
      "            for i in range(dim):\n                for j in range(dim):\n                    self.data[0,i,j,i,j] = 1.0\n                    \n        else:",
      "            for i in range(dim):\n                for j in range(dim):\n                    self.data[1,i,j,i,j] = 1.0\n                    \n        else:"),
    m("basis element not reset", "C08-B",
      "                Ut1[:,:,n,m] = rhot.data[1,:,:]\n                rhonm0.data[n,m] = 0.0", "                Ut1[:,:,n,m] = rhot.data[1,:,:]"),
    m("basis element stored transposed", "C08-B",
      "                Ut1[:,:,n,m] = rhot.data[1,:,:]", "                Ut1[:,:,m,n] = rhot.data[1,:,:]"),
    m("elemental step takes slot 0", "C08-B",
      "                Ut1[:,:,n,m] = rhot.data[1,:,:]", "                Ut1[:,:,n,m] = rhot.data[0,:,:]"),
    m("recurrence loop starts at 3", "C08-C", "        for ti in range(2, Nt):\n           \n", "        for ti in range(3, Nt):\n           \n"),
    m("tensordot with axes argument", "C08-C",
      "                numpy.tensordot(Udt, self.data[ti-1,:,:,:,:])        ",
      "                numpy.tensordot(Udt, self.data[ti-1,:,:,:,:], axes=([0,1],[2,3]))        "),
    m("dense powers one short", "C08-C", "        for ti in range(2, self.dense_time.length):", "        for ti in range(3, self.dense_time.length):"),
    m("gaussian branch composes from the right", "C08-C",
      "                self.data[ti,:,:,:,:] = \\\n                    numpy.tensordot(Ut1, self.data[ti-1,:,:,:,:])\n                             \n        elif",
      "                self.data[ti,:,:,:,:] = \\\n                    numpy.tensordot(self.data[ti-1,:,:,:,:], Ut1)\n                             \n        elif"),
    m("calculate() does not re-initialise", "C08-C", "        self._initialize_data()\n         \n", "        \n"),
    m("incremental: now not advanced in later steps", "C08-D",
      "                    self.data[:,:,:,:] = \\\n                        numpy.tensordot(self.Udt.data, self.data[:,:,:,:])\n                \n                self.now += 1",
      "                    self.data[:,:,:,:] = \\\n                        numpy.tensordot(self.Udt.data, self.data[:,:,:,:])\n                "),
    m("incremental: first step uses another dense length", "C08-D",
      "                           self._one_step_with_dense_TimeIndep(t0,\n                                                    self.dense_time.length,",
      "                           self._one_step_with_dense_TimeIndep(t0,\n                                                    self.dense_time.length-1,"),
    m("apply contracts rho from the left", "C08-E",
      "                oper_ven.data = numpy.tensordot(self.data[ti, :, :, :, :],\n                                                tdata)",
      "                oper_ven.data = numpy.tensordot(tdata,\n                                                self.data[ti, :, :, :, :])"),
    t("recurrence via einsum", "                numpy.tensordot(Udt, self.data[ti-1,:,:,:,:])        ",
      "                numpy.einsum('abcd,cdef->abef', Udt, self.data[ti-1,:,:,:,:])        "),
    t("tensordot with explicit default axes", "            Udt = numpy.tensordot(Ut1, Udt)", "            Udt = numpy.tensordot(Ut1, Udt, axes=2)"),
]

CASES += [
    t("locals renamed in the elemental step",
      "        rhonm0 = ReducedDensityMatrix(dim=dim)\n        Ut1 = numpy.zeros((dim, dim, dim, dim), dtype=COMPLEX)\n        for n in range(dim):\n            for m in range(dim):\n                rhonm0.data[n,m] = 1.0\n                rhot = prop.propagate(rhonm0)\n                Ut1[:,:,n,m] = rhot.data[1,:,:]\n                rhonm0.data[n,m] = 0.0\n                \n        return Ut1",
      "        basis = ReducedDensityMatrix(dim=dim)\n        Ustep = numpy.zeros((dim, dim, dim, dim), dtype=COMPLEX)\n        for p in range(dim):\n            for q in range(dim):\n                basis.data[p,q] = 1.0\n                evol = prop.propagate(basis)\n                Ustep[:,:,p,q] = evol.data[1,:,:]\n                basis.data[p,q] = 0.0\n                \n        return Ustep"),
    t("locals renamed in the dense powers",
      "        Ut1 = self._elemental_step_TimeIndep(t0, dens_dt, Nt)\n        #\n        # propagation to the end of the first interval\n        #\n        Udt = numpy.zeros(Ut1.shape, dtype=COMPLEX)\n        Udt[:,:,:,:] = Ut1[:,:,:,:]\n        for ti in range(2, self.dense_time.length):\n            Udt = numpy.tensordot(Ut1, Udt)\n        return Udt",
      "        Ue = self._elemental_step_TimeIndep(t0, dens_dt, Nt)\n        Uacc = numpy.zeros(Ue.shape, dtype=COMPLEX)\n        Uacc[:,:,:,:] = Ue[:,:,:,:]\n        for kk in range(2, self.dense_time.length):\n            Uacc = numpy.tensordot(Ue, Uacc)\n        return Uacc"),
]

CASES += [
    m("saved first step is a view of the running value", "C08-D",
      "                if save:\n                    self.data[1,:,:,:,:] = self.Udt.data[:,:,:,:]\n                else:\n                    self.data[:,:,:,:] = self.Udt.data[:,:,:,:]\n",
      "                if save:\n                    self.data[1,:,:,:,:] = self.Udt.data[:,:,:,:]\n                else:\n                    self._data = self.Udt.data\n"),
    m("step taken from the running value instead of the one-step routine", "C08-D",
      "                if save:\n                    self.data[1,:,:,:,:] = self.Udt.data[:,:,:,:]\n                else:\n                    self.data[:,:,:,:] = self.Udt.data[:,:,:,:]\n",
      "                if save:\n                    self.data[1,:,:,:,:] = self.Udt.data[:,:,:,:]\n                else:\n                    self.data[:,:,:,:] = self.Udt.data[:,:,:,:]\n                    self.Udt = self.data\n"),
]

SO = "quantarhei/qm/liouvillespace/superoperator.py"
CASES += [
    {"name": "time-resolved superoperator: right index pair transformed like the left one", "kind": "mutant", "rule": "C08-F", "edits": [
        (SO, "numpy.dot(SS.T,numpy.dot(self._data[tt,a,b,:,:],S1.T))", "numpy.dot(S1,numpy.dot(self._data[tt,a,b,:,:],SS))", 1)]},
    {"name": "single-time superoperator: right index pair via einsum", "kind": "twin", "edits": [
        (SO, "                    self._data[a,b,:,:] = \\\n                    numpy.dot(SS.T,numpy.dot(self._data[a,b,:,:],S1.T))",
         "                    self._data[a,b,:,:] = \\\n                    numpy.einsum('cx,cd,yd->xy', SS, self._data[a,b,:,:], S1)", 1)]},
]

CASES += [
    {"name": "dephasing factors prepared once per propagator", "kind": "mutant", "rule": "C08-G", "edits": [
        ("quantarhei/qm/propagators/rdmpropagator.py", "        if self.has_PDeph:\n            \n            self._BOOT_DEPH()\n            \n            IR = 0.0",
         "        if self.has_PDeph:\n            \n            if getattr(self, \"expo\", None) is None:\n                self._BOOT_DEPH()\n            \n            IR = 0.0", 1)]},
]

CASES += [
    m("conversion from the rotating frame reads the frame frequencies in the caller's units (the repaired defect)", "C08-H",
      "            with energy_units(\"int\"):\n                HOmega = ham.get_RWA_skeleton()", "            if True:\n                HOmega = ham.get_RWA_skeleton()"),
    {"name": "the propagator behind the superoperator leaves internal units (the repaired defect)", "kind": "mutant", "rule": "C08-H", "edits": [
        ("quantarhei/qm/propagators/rdmpropagator.py", "        with energy_units(\"int\"):\n            return self._propagate(rhoi, method=method, mdata=mdata,\n                                   Nref=Nref)",
         "        if True:\n            return self._propagate(rhoi, method=method, mdata=mdata,\n                                   Nref=Nref)", 1)]},
    t("frame frequencies bound to a differently named local", 
      "            with energy_units(\"int\"):\n                HOmega = ham.get_RWA_skeleton()\n", "            with energy_units(\"int\"):\n                HOmega = ham.get_RWA_skeleton()\n            nfreq = len(HOmega)\n"),
]

CASES += [
    m("apply() tests the time argument against a function (the repaired defect)", "C08-E",
      "            elif isinstance(time, (list, numpy.ndarray, tuple, TimeAxis)):", "            elif isinstance(time, (list, numpy.array, tuple, TimeAxis)):"),
    m("apply() tests the time argument against the TimeAxis constructor helper", "C08-E",
      "            elif isinstance(time, (list, numpy.ndarray, tuple, TimeAxis)):", "            elif isinstance(time, (list, numpy.ndarray, tuple, numpy.linspace)):"),
    t("kinds of time arguments listed in another order", 
      "            elif isinstance(time, (list, numpy.ndarray, tuple, TimeAxis)):", "            elif isinstance(time, (TimeAxis, tuple, list, numpy.ndarray)):"),
]

CASES += [
    m("at() hands out a view of the stored array (the repaired defect)", "C08-E",
      "            return SuperOperator(data=self.data[ti, :, :, :, :].copy())", "            return SuperOperator(data=self.data[ti, :, :, :, :])"),
    m("at() returns the neighbouring slice", "C08-E",
      "            return SuperOperator(data=self.data[ti, :, :, :, :].copy())", "            return SuperOperator(data=self.data[ti+1, :, :, :, :].copy())"),
    t("copy made with numpy.array", 
      "            return SuperOperator(data=self.data[ti, :, :, :, :].copy())", "            return SuperOperator(data=numpy.array(self.data[ti, :, :, :, :]))"),
]

CASES += [
    m("at() selects the lower neighbour of the requested time (the repaired defect)", "C08-E",
      "            ti = self.time.nearest(time)\n\n            # the superoperator handed out", "            ti, dt = self.time.locate(time)\n\n            # the superoperator handed out"),
    m("apply() selects the lower neighbour of the requested time", "C08-E",
      "            ti = self.time.nearest(time)\n            if copy:", "            ti, dt = self.time.locate(time)\n            if copy:"),
]

ESOF = "quantarhei/qm/liouvillespace/evolutionsuperoperator.py"
CASES += [
    {"name": "one-interval propagator kept as a plain array (the repaired defect)", "kind": "mutant", "rule": "C08-J", "edits": [
        (ESOF, "                self.Udt = SuperOperator(data=\n                           self._one_step_with_dense_TimeIndep(t0,\n                                                    self.dense_time.length,\n                                                    self.dense_time.step, Nt)) ",
               "                self.Udt = self._one_step_with_dense_TimeIndep(t0,\n                                                    self.dense_time.length,\n                                                    self.dense_time.step, Nt) ", 1),
        (ESOF, "self.Udt.data", "self.Udt", 4)]},
    {"name": "later steps multiply with the raw storage of the kept propagator", "kind": "mutant", "rule": "C08-J", "edits": [
        (ESOF, "                        numpy.tensordot(self.Udt.data, self.data[:,:,:,:])", "                        numpy.tensordot(self.Udt, self.data[:,:,:,:])", 1)]},
    {"name": "step-by-step mode does not record the rotating frame (the repaired defect)", "kind": "mutant", "rule": "C08-K", "edits": [
        (ESOF, "                self.now += 1\n\n        if self.ham.has_rwa:\n            # evolution was calculated in RWA\n            self.is_in_rwa = True\n", "                self.now += 1\n", 1)]},
    {"name": "calculate() asks a missing relaxation tensor (the repaired defect)", "kind": "mutant", "rule": "C08-K", "edits": [
        (ESOF, "        elif (self.relt is not None) and self.relt.is_time_dependent:", "        elif self.relt.is_time_dependent:", 1)]},
    {"name": "calculate() guard written as nested if", "kind": "twin", "edits": [
        (ESOF, "        if self.ham.has_rwa:\n            # evolution was calculated in RWA\n            self.is_in_rwa = True\n\n            \n    def _elemental_step_TimeIndep",
               "        if self.ham.has_rwa:\n            self.is_in_rwa = True\n\n            \n    def _elemental_step_TimeIndep", 1)]},
    {"name": "apply('all') reads the axis of the string (the repaired defect)", "kind": "mutant", "rule": "C08-L", "edits": [
        (ESOF, "                for tt in self.time.data:\n                    rhot.data[k_i,:,:] = \\\n                    numpy.tensordot(self.data[k_i,:,:,:,:],", "                for tt in time.data:\n                    rhot.data[k_i,:,:] = \\\n                    numpy.tensordot(self.data[k_i,:,:,:,:],", 1)]},
    {"name": "list of times replaced by an axis from its first two entries (the repaired defect)", "kind": "mutant", "rule": "C08-L", "edits": [
        (ESOF, "                    if not numpy.allclose(ntime.data, numpy.array(time)):\n                        raise Exception(\"The times have to be equidistant\")\n", "", 1)]},
    {"name": "list of times compared entry by entry in a loop", "kind": "twin", "edits": [
        (ESOF, "                    if not numpy.allclose(ntime.data, numpy.array(time)):\n                        raise Exception(\"The times have to be equidistant\")\n",
               "                    for k_t, t_k in enumerate(time):\n                        if abs(ntime.data[k_t] - t_k) > 1.0e-8*abs(dt):\n                            raise Exception(\"The times have to be equidistant\")\n", 1)]},
]

_VA = "quantarhei/core/valueaxis.py"
CASES += [
    {"name": "distance to the neighbours computed from index times step (seeded change of round 6)", "kind": "mutant", "rule": "C08-M", "edits": [
        (_VA, "            diff1 = numpy.abs(val-self.data[nsni])", "            diff1 = numpy.abs(val - nsni*self.step)", 1),
        (_VA, "                diff2 = numpy.abs(val - self.data[nsni+1])", "                diff2 = numpy.abs(val - (nsni+1)*self.step)", 1)]},
    {"name": "lower neighbour index forgets the start of the axis", "kind": "mutant", "rule": "C08-M", "edits": [
        (_VA, "        nsni = int(numpy.floor((val-self.start)/self.step))\n\n\n        if (nsni >= 0) and (nsni < self.length):\n\n            # if n0 is with bounds",
              "        nsni = int(numpy.floor(val/self.step))\n\n\n        if (nsni >= 0) and (nsni < self.length):\n\n            # if n0 is with bounds", 1)]},
    {"name": "distance to the neighbours computed from start plus index times step", "kind": "twin", "edits": [
        (_VA, "            diff1 = numpy.abs(val-self.data[nsni])", "            diff1 = numpy.abs(val - (self.start + nsni*self.step))", 1)]},
]

_HAM = "quantarhei/qm/hilbertspace/hamiltonian.py"
CASES += [
    {"name": "rotating-frame Hamiltonian kept from the first request (seeded change of round 7)", "kind": "mutant", "rule": "C08-I", "edits": [
        (_HAM, "        return self.data - numpy.diag(self.get_RWA_skeleton())",
         "        if getattr(self, \"_rwa_data\", None) is None:\n            self._rwa_data = self.data - numpy.diag(self.get_RWA_skeleton())\n        return self._rwa_data", 1)]},
]

_DME8 = "quantarhei/qm/propagators/dmevolution.py"
CASES += [
    {"name": "frame flag recorded first and reset by the initial condition (seeded change of round 8)", "kind": "mutant", "rule": "C08-N", "edits": [
        (_DME8, "    def __init__(self, timeaxis=None, rhoi=None, is_in_rwa=False, name=None):\n        \n",
                "    def __init__(self, timeaxis=None, rhoi=None, is_in_rwa=False, name=None):\n        \n        self.is_in_rwa = is_in_rwa\n", 1),
        (_DME8, "            \n        self.is_in_rwa = is_in_rwa\n", "\n", 1),
        (_DME8, "        self.data[0,:,:] = rhoi.data        \n", "        self.data[0,:,:] = rhoi.data        \n        self.is_in_rwa = False\n", 1)]},
    {"name": "frame flag recorded first, the initial condition leaves it alone", "kind": "twin", "edits": [
        (_DME8, "    def __init__(self, timeaxis=None, rhoi=None, is_in_rwa=False, name=None):\n        \n",
                "    def __init__(self, timeaxis=None, rhoi=None, is_in_rwa=False, name=None):\n        \n        self.is_in_rwa = is_in_rwa\n", 1),
        (_DME8, "            \n        self.is_in_rwa = is_in_rwa\n", "\n", 1)]},
]

_ESO8 = "quantarhei/qm/liouvillespace/evolutionsuperoperator.py"
CASES += [
    {"name": "state contracted as given, whatever the first time of the axis (the repaired defect)", "kind": "mutant", "rule": "C08-O", "edits": [
        (_ESO8, "        t0 = self.time.data[0]\n        if (not self.is_in_rwa) or (t0 == 0.0):\n            return target.data\n",
                "        t0 = 0.0\n        if (not self.is_in_rwa) or (t0 == 0.0):\n            return target.data\n", 1)]},
    {"name": "conversion from the rotating frame without the phases of the first time (the repaired defect)", "kind": "mutant", "rule": "C08-O", "edits": [
        (_ESO8, "            Ut0 = numpy.exp(-sgn*1j*HOmega*self.time.data[0])\n", "            Ut0 = numpy.exp(-sgn*1j*HOmega*0.0)\n", 1)]},
    {"name": "first time of the axis read through its start", "kind": "twin", "edits": [
        (_ESO8, "            Ut0 = numpy.exp(-sgn*1j*HOmega*self.time.data[0])\n", "            Ut0 = numpy.exp(-sgn*1j*HOmega*self.time.start)\n", 1)]},
]

CASES += [
    {"name": "step continues from the stored value whatever frame it is in (the repaired defect)", "kind": "mutant", "rule": "C08-P", "edits": [
        (_ESO8, "        if (self.now > 0) and self.ham.has_rwa and (not self.is_in_rwa):\n            self.convert_to_RWA(self.ham)\n", "", 1)]},
    {"name": "step refuses a value that is not in the rotating frame", "kind": "twin", "edits": [
        (_ESO8, "        if (self.now > 0) and self.ham.has_rwa and (not self.is_in_rwa):\n            self.convert_to_RWA(self.ham)\n",
                "        if (self.now > 0) and self.ham.has_rwa and (not self.is_in_rwa):\n            raise Exception(\"convert back to RWA before the next step\")\n", 1)]},
]

_LF9 = "quantarhei/qm/liouvillespace/lindbladform.py"
CASES += [
    {"name": "the Lindblad form keeps the operators of the system-bath interaction themselves (asarray of an array of the same type; seeded change of round 9)",
     "kind": "mutant", "rule": "C08-Q", "edits": [(_LF9, "            KK = sbi.KK.copy()\n", "            KK = numpy.asarray(sbi.KK, dtype=REAL)\n", 1)]},
    {"name": "the Lindblad form keeps the operators as a slice of the interaction's array", "kind": "mutant", "rule": "C08-Q",
     "edits": [(_LF9, "            KK = sbi.KK.copy()\n", "            KK = sbi.KK[:, :, :]\n", 1)]},
    {"name": "the copy of the operators is made with numpy.array", "kind": "twin",
     "edits": [(_LF9, "            KK = sbi.KK.copy()\n", "            KK = numpy.array(sbi.KK, dtype=REAL)\n", 1)]},
]
