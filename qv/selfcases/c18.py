"""Self-test cases for C18."""
D = "quantarhei/core/datasaveable.py"
M = "quantarhei/core/matrixdata.py"


def m(name, rule, path, old, new, count=1):
    return {"name": name, "kind": "mutant", "rule": rule, "edits": [(path, old, new, count)]}


def t(name, path, old, new, count=1):
    return {"name": name, "kind": "twin", "edits": [(path, old, new, count)]}


CASES = [
    m("numpy.save_compressed again (the repaired defect)", "C18-A", D,
      "            data = self._data_with_axis(with_axis)\n            numpy.savez_compressed(file, data=data)", "            data = self._data_with_axis(with_axis)\n            numpy.save_compressed(file, data=data)"),
    m("load list lacks .mat", "C18-A", D, "        if extension not in [\".dat\",\".txt\",\".npy\",\".npz\", \".mat\"]:", "        if extension not in [\".dat\",\".txt\",\".npy\",\".npz\"]:"),
    m("npz written under another key", "C18-A", M, "        numpy.savez_compressed(file, data=self.data)", "        numpy.savez_compressed(file, array=self.data)"),
    m("npy branch writes text", "C18-A", M, "        numpy.save(file, self.data)", "        numpy.savetxt(file, self.data)"),
    m("mat reader selects another variable", "C18-A", D, "        _data = mfile[\"data\"]", "        _data = mfile[\"DATA\"]"),
    m("axis packed as last column", "C18-A", D, "            data[:,1:] = self.data\n            data[:,0] = axis.data     ", "            data[:,:-1] = self.data\n            data[:,-1] = axis.data     "),
    m("loader forgets to unpack the axis", "C18-A", D,
      "        _data = numpy.load(filename)\n        self.data = self._extract_data_with_axis(_data, with_axis)", "        _data = numpy.load(filename)\n        self.data = _data"),
    m("complex fallback removed (the repaired defect)", "C18-C", M,
      "        try:\n            data = numpy.loadtxt(filename, ndmin=2)\n        except ValueError:\n            # complex data are exported as (re+imj) strings\n            data = numpy.loadtxt(filename, dtype=complex, ndmin=2)",
      "        data = numpy.loadtxt(filename, ndmin=2)"),
    m("units-managed setter stores raw values", "C18-D", "quantarhei/utils/types.py",
      "            setattr(self,storage_name,self.convert_2_internal_u(value))", "            setattr(self,storage_name,value)"),
    m("load_parcel returns the parcel itself", "C18-E", "quantarhei/core/parcel.py", "        return obj.content\n", "        return obj\n"),
    t("extension list reordered", D, "        if extension not in [\".dat\",\".txt\",\".npy\",\".npz\", \".mat\"]:", "        if extension not in [\".mat\",\".dat\",\".txt\",\".npy\",\".npz\"]:"),
]

CASES += [
    m("packed table always real", "C18-A", D,
      "            data = numpy.zeros(shp,dtype=dtype)\n            data[:,1] = self.data",
      "            data = numpy.zeros(shp,dtype=float)\n            data[:,1] = self.data"),
    t("packed table type promoted over axis and data", D,
      "            data = numpy.zeros(shp,dtype=dtype)\n            data[:,1] = self.data",
      "            data = numpy.zeros(shp,dtype=numpy.result_type(axis.data, self.data))\n            data[:,1] = self.data"),
]

DFN = "quantarhei/core/dfunction.py"
CASES += [
    {"name": "copy hook rebuilds the interpolation from the axis property", "kind": "mutant", "rule": "C18-F", "edits": [
        (DFN, "    def _set_splines(self):", "    def __deepcopy__(self, memo):\n        import copy\n        new = self.__class__.__new__(self.__class__)\n        new.__dict__.update({k: copy.deepcopy(v, memo) for k, v in self.__dict__.items() if not k.startswith(\"_spline\")})\n        if getattr(self, \"_splines_initialized\", False):\n            new._set_splines()\n        return new\n\n    def _set_splines(self):", 1)]},
    {"name": "state hook that only restores the dictionary", "kind": "twin", "edits": [
        (DFN, "    def _set_splines(self):", "    def __setstate__(self, state):\n        self.__dict__.update(state)\n\n    def _set_splines(self):", 1)]},
]

SAV = "quantarhei/core/saveable.py"
CASES += [
    {"name": "directory index re-read only by the first save of a session", "kind": "mutant", "rule": "C18-G", "edits": [
        (SAV, "        except FileExistsError:\n            self.hashes = load_parcel(hfile)", "        except FileExistsError:\n            if not getattr(self, \"_index_loaded\", False):\n                self.hashes = load_parcel(hfile)\n                self._index_loaded = True", 1)]},
    {"name": "directory index kept in a local table", "kind": "twin", "edits": [
        (SAV, "        except FileExistsError:\n            self.hashes = load_parcel(hfile)", "        except FileExistsError:\n            self.hashes = load_parcel(os.path.join(dirname,\"_hashes_.qrp\"))", 1)]},
]

CASES += [
    {"name": "text export of an evolution reads the raw storage", "kind": "mutant", "rule": "C18-H", "edits": [
        ("quantarhei/qm/propagators/dmevolution.py", "               out[i,j+1] = numpy.real(self.data[i,j,j])", "               out[i,j+1] = numpy.real(self._data[i,j,j])", 1)]},
    {"name": "text export of an evolution reads the matrix of a time step once through the property", "kind": "twin", "edits": [
        ("quantarhei/qm/propagators/dmevolution.py", "               out[i,j+1] = numpy.real(self.data[i,j,j])", "               rho = self.data[i,:,:]\n               out[i,j+1] = numpy.real(rho[j,j])", 1)]},
]

CASES += [
    {"name": "exported table takes the type of the data alone (the repaired defect)", "kind": "mutant", "rule": "C18-I", "edits": [
        (D, "        dtype = numpy.result_type(self.data.dtype, axis.data.dtype)", "        dtype = self.data.dtype", 1)]},
    {"name": "axis handed back complex", "kind": "mutant", "rule": "C18-I", "edits": [
        (D, "                    self._set_axis_points(axis, numpy.real(data[:,0]))\n                    return data[:,1:]", "                    self._set_axis_points(axis, data[:,0])\n                    return data[:,1:]", 1)]},
    {"name": "rank of the data not stored in the Matlab file (the repaired defect)", "kind": "mutant", "rule": "C18-I", "edits": [
        (D, "            io.savemat(file, {\"data\":self.data, \"ndim\":self.data.ndim})", "            io.savemat(file, {\"data\":self.data})", 1)]},
    {"name": "rank not restored on loading", "kind": "mutant", "rule": "C18-I", "edits": [
        (D, "        if (\"ndim\" in mfile) and (int(mfile[\"ndim\"][0,0]) == 1):\n            _data = _data.reshape(-1)\n", "", 1)]},
]

_MD = "quantarhei/core/matrixdata.py"
CASES += [
    {"name": "binary import maps the file writable (seeded change of round 6)", "kind": "mutant", "rule": "C18-K", "edits": [
        (_MD, "        self.data = numpy.load(filename)\n", "        self.data = numpy.load(filename, mmap_mode=\"r+\")\n", 1)]},
    {"name": "function import maps the file read-only", "kind": "mutant", "rule": "C18-K", "edits": [
        ("quantarhei/core/datasaveable.py", "        _data = numpy.load(filename)\n", "        _data = numpy.load(filename, \"r\")\n", 1)]},
    {"name": "binary import copies out of a read-only map", "kind": "twin", "edits": [
        (_MD, "        self.data = numpy.load(filename)\n", "        self.data = numpy.array(numpy.load(filename, mmap_mode=\"r\"))\n", 1)]},
]

_DSV = "quantarhei/core/datasaveable.py"
CASES += [
    {"name": "matrix text import squeezes (the repaired defect)", "kind": "mutant", "rule": "C18-L", "edits": [
        (_MD, "            data = numpy.loadtxt(filename, ndmin=2)\n", "            data = numpy.loadtxt(filename)\n", 1)]},
    {"name": "text export without the rank (the repaired defect)", "kind": "mutant", "rule": "C18-L", "edits": [
        (_MD, "        numpy.savetxt(file, self.data, header=\"ndim %d\" % numpy.ndim(self.data))", "        numpy.savetxt(file, self.data)", 1)]},
    {"name": "axis filled from a file keeps its old start and step (the repaired defect)", "kind": "mutant", "rule": "C18-L", "edits": [
        (_DSV, "        axis.data = points\n        axis.length = len(points)\n        axis.start = points[0]\n        if len(points) > 1:\n",
         "        axis.data = points\n        if False:\n", 1)]},
]

CASES += [
    {"name": "spectrum import passes keywords its parent does not take (the repaired defect)", "kind": "mutant", "rule": "C18-M", "edits": [
        ("quantarhei/spectroscopy/fluorescence.py", "        super().load_data(filename, with_axis=self.axis)", "        super().load_data(filename, ext=None, axis='frequency', replace=False)", 1)]},
    {"name": "absorption spectrum export with a misspelt keyword", "kind": "mutant", "rule": "C18-M", "edits": [
        ("quantarhei/spectroscopy/absbase.py", "        super().save_data(filename, with_axis=self.axis)", "        super().save_data(filename, withaxis=self.axis)", 1)]},
]

CASES += [
    {"name": "loader rewinds the file it is given (seeded change of round 7)", "kind": "mutant", "rule": "C18-N", "edits": [
        ("quantarhei/core/parcel.py", "    else:\n        obj = pickle.load(filename)\n", "    else:\n        filename.seek(0)\n        obj = pickle.load(filename)\n", 2)]},
]

_MD18 = "quantarhei/core/matrixdata.py"
_RN_OLD = ("    if ndim is None:\n        # no record: dimensions of length one are dropped as numpy.loadtxt \n        # does by default\n"
           "        return numpy.squeeze(data)\n    if ndim == 2:\n        return data\n    if ndim == 1:\n        return data.reshape(-1)\n"
           "    if ndim == 0:\n        return data.reshape(())\n")
CASES += [
    {"name": "ranks below two squeezed together with the unrecorded case (seeded change of round 8)", "kind": "mutant", "rule": "C18-O", "edits": [
        (_MD18, _RN_OLD, "    if ndim == 2:\n        return data\n    if (ndim is None) or (ndim < 2):\n        return numpy.squeeze(data)\n", 1)]},
    {"name": "rank one restored by squeezing", "kind": "mutant", "rule": "C18-O", "edits": [
        (_MD18, "    if ndim == 1:\n        return data.reshape(-1)\n", "    if ndim == 1:\n        return numpy.squeeze(data)\n", 1)]},
    {"name": "recorded ranks first, the unrecorded case last", "kind": "twin", "edits": [
        (_MD18, _RN_OLD, "    if ndim is not None:\n        if ndim == 2:\n            return data\n        if ndim == 1:\n            return data.reshape(-1)\n"
                         "        if ndim == 0:\n            return data.reshape(())\n        raise Exception(\"Text files hold data of at most two dimensions\")\n"
                         "    return numpy.squeeze(data)\n", 1)]},
    {"name": "rank one restored with ravel", "kind": "twin", "edits": [
        (_MD18, "    if ndim == 1:\n        return data.reshape(-1)\n", "    if ndim == 1:\n        return numpy.ravel(data)\n", 1)]},
]

_DS18 = "quantarhei/core/datasaveable.py"
_STEP18 = ("            from .managers import energy_units\n            with energy_units(\"int\"):\n                ipoints = axis.data\n"
           "                axis.step = ipoints[1] - ipoints[0]\n")
CASES += [
    {"name": "step of the imported axis taken from the points in the caller's units (the repaired defect)", "kind": "mutant", "rule": "C18-L", "edits": [
        (_DS18, _STEP18, "            axis.step = points[1] - points[0]\n", 1)]},
    {"name": "step of the imported axis taken from the last two internal points", "kind": "twin", "edits": [
        (_DS18, "                axis.step = ipoints[1] - ipoints[0]\n", "                axis.step = ipoints[-1] - ipoints[-2]\n", 1)]},
]

CASES += [
    {"name": "unrecorded rank squeezed with the method of the array", "kind": "twin", "edits": [
        (_MD18, "        return numpy.squeeze(data)\n    if ndim == 2:", "        return data.squeeze()\n    if ndim == 2:", 1)]},
    {"name": "rank one restored by squeezing a named axis", "kind": "twin", "edits": [
        (_MD18, "    if ndim == 1:\n        return data.reshape(-1)\n", "    if ndim == 1:\n        return data.reshape(-1, 1).squeeze(axis=1)\n", 1)]},
]
