"""Self-test cases for C19."""
T = "quantarhei/spectroscopy/twod2.py"


def m(name, rule, old, new, count=1):
    return {"name": name, "kind": "mutant", "rule": rule, "edits": [(T, old, new, count)]}


def t(name, old, new, count=1):
    return {"name": name, "kind": "twin", "edits": [(T, old, new, count)]}


CASES = [
    m("a pathway type counted in two processes", "C19-A",
      "_processes = dict(GSB=[_ptypes[0], _ptypes[1]], SE=[_ptypes[2], _ptypes[3]],", "_processes = dict(GSB=[_ptypes[0], _ptypes[1]], SE=[_ptypes[1], _ptypes[3]],"),
    m("a type missing from the signals", "C19-A",
      "_signals = {signal_REPH:[_ptypes[1], _ptypes[2], _ptypes[4]],", "_signals = {signal_REPH:[_ptypes[1], _ptypes[2]],"),
    m("process view subtracts", "C19-B",
      "            for tag in pways:\n                data += pways[tag]\n        \n    return data\n\n\ndef _pathways_to_signals",
      "            for tag in pways:\n                data -= pways[tag]\n        \n    return data\n\n\ndef _pathways_to_signals"),
    m("total from types skips via signals table of another class", "C19-B",
      "        for process in _processes:\n            \n            data += _types_to_processes(obj, process)", "        for process in _processes:\n            \n            data += _types_to_signals(obj, process)"),
    m("tag no longer required (the repaired defect)", "C19-C",
      "                if self.current_tag is None:\n                    # an untagged read returns the sum over all pathways of\n                    # the type; storing it back would duplicate them\n                    raise Exception(\"Storage resolution 'pathways' requires\"\n                                    +\" a pathway tag\")\n", ""),
    m("types storage accepts process names", "C19-C",
      "                if self.current_dtype not in _ptypes:\n                    # check the current_type attribute\n                    raise Exception(\"Wrong pathways type: \"+self.current_dtype)\n", ""),
    m("finer-than-storage additions accepted", "C19-C", "            if res1 <= res2:\n            \n                pass", "            if True:\n            \n                pass"),
    m("add overwrites instead of accumulating", "C19-C",
      "                    if odata is None:    \n                        self.d__data = numpy.array(data)\n                    else:\n                        self.d__data = odata + data",
      "                    if odata is None:    \n                        self.d__data = numpy.array(data)\n                    else:\n                        self.d__data = numpy.array(data)"),
    m("conversion path goes up", "C19-D", "3:{2:[3,2], 1:[3,1], 0:[3,2,0]},", "3:{2:[3,2], 1:[3,1], 0:[3,4,0]},"),
    m("processes convertible to signals", "C19-D", "                 2:{0:[2,0]},", "                 2:{0:[2,0], 1:[2,1]},"),
    m("conversion mutates the old storage in place", "C19-D",
      "            storage = {}\n            \n            data = _signals_to_total(self)\n            storage[_total] = data\n            \n            self._d__data = storage",
      "            data = _signals_to_total(self)\n            self._d__data[_total] = data"),
    m("raising the resolution allowed", "C19-D",
      "            if res_old < res_new:\n                raise Exception(\"Cannot convert from lower\"+\n                                \" to higher resolution\")\n            elif res_old > res_new:",
      "            if res_old != res_new:"),
    t("partition written with literals", "_processes = dict(GSB=[_ptypes[0], _ptypes[1]], SE=[_ptypes[2], _ptypes[3]],", "_processes = dict(GSB=[\"R1g\", \"R2g\"], SE=[_ptypes[2], _ptypes[3]],"),
]

CASES += [
    m("getter treats a falsy tag as no tag", "C19-C",
      "                if self.current_tag is not None:\n                    # (a copy: what is read is not the storage)\n                    return piece[self.current_tag].copy()",
      "                if self.current_tag:\n                    return piece[self.current_tag].copy()"),
]

CASES += [
    m("set_resolution relabels before converting", "C19-E",
      "            elif res_old > res_new:\n                # recalculate data towards lower resolution\n                self._convert_resolution(res_old, res_new)",
      "            elif res_old > res_new:\n                self.storage_resolution = resolution\n                self._convert_resolution(res_old, res_new)"),
    m("conversion loop labels the level before the one converted to", "C19-E",
      "                self.storage_resolution = _resolutions[end]", "                self.storage_resolution = _resolutions[start]"),
    t("first addition guard with the label chosen first", 
      "            self._d__data = {}\n            self.storage_initialized =  True\n            if resolution is not None:\n                self.storage_resolution = resolution",
      "            if resolution is not None:\n                self.storage_resolution = resolution\n            self._d__data = {}\n            self.storage_initialized =  True"),
]

CASES += [
    m("process view accumulates into the first stored type", "C19-F",
      "def _types_to_processes(obj, process):", "def _types_to_processes_unused(obj, process):\n    pass\n\n\ndef _types_to_processes(obj, process):\n    data = None\n    for dtype in _processes[process]:\n        try:\n            ddata = obj._d__data[dtype]\n        except (KeyError, AttributeError):\n            ddata = None\n        if ddata is not None:\n            if data is None:\n                data = ddata\n            else:\n                data += ddata\n    return data\n\n\ndef _types_to_processes_old(obj, process):"),
]

CASES += [
    m("first addition stores the caller's array (the repaired defect)", "C19-G",
      "                    self.d__data = numpy.array(data)", "                    self.d__data = data", 5),
    m("spectrum built on a view of the stored array (the repaired defect)", "C19-G",
      "            twod.set_data(numpy.array(self.d__data[:,:]), dtype=dtype)", "            twod.set_data(self.d__data[:,:], dtype=dtype)"),
    t("first addition stores a copy made with the copy method",
      "                        self.d__data = numpy.array(data)", "                        self.d__data = data.copy()"),
]

CASES += [
    {"name": "container skips setting a flag it has set before", "kind": "mutant", "rule": "C19-H", "edits": [
        ("quantarhei/spectroscopy/twodcontainer.py", "        for tag in self.spectra:\n            \n            sp = self.spectra[tag]\n            sp.set_data_flag(flag)",
         "        if flag == getattr(self, \"_last_flag\", None):\n            return\n        for tag in self.spectra:\n            sp = self.spectra[tag]\n            sp.set_data_flag(flag)\n        self._last_flag = flag", 1)]},
]

CASES += [
    m("setter shape refusal removed (the repaired defect)", "C19-I",
      "            if value.shape != (self.xaxis.length, self.yaxis.length):\n                # if the data shape is not consistent, raise Exception\n                raise Exception(\"Data not consistent \"+\n                                \"with spectrum axes\")\n\n            storage = getattr(self, storage_name)\n",
      "            storage = getattr(self, storage_name)\n"),
    m("setter shape refusal behind a raise", "C19-I",
      "            if value.shape != (self.xaxis.length, self.yaxis.length):\n                # if the data shape is not consistent, raise Exception\n                raise Exception(\"Data not consistent \"+\n                                \"with spectrum axes\")\n\n            storage = getattr(self, storage_name)\n",
      "            if False:\n                raise Exception()\n                if value.shape != (self.xaxis.length, self.yaxis.length):\n                    raise Exception(\"Data not consistent\")\n\n            storage = getattr(self, storage_name)\n"),
    m("setter shape refusal compares one axis only", "C19-I",
      "            if value.shape != (self.xaxis.length, self.yaxis.length):\n                # if the data",
      "            if value.shape[0] != self.xaxis.length:\n                # if the data"),
    t("setter shape refusal written with not ==",
      "            if value.shape != (self.xaxis.length, self.yaxis.length):\n                # if the data",
      "            if not (value.shape == (self.xaxis.length, self.yaxis.length)):\n                # if the data"),
    m("trim_to compares the resolution with the total signal (the repaired defect)", "C19-J",
      "            elif self.storage_resolution == \"off\":\n                self.set_data_flag(_total)",
      "            elif self.storage_resolution == _total:\n                self.set_data_flag(_total)"),
    m("trim_to misspells a resolution", "C19-J",
      "            elif self.storage_resolution == \"processes\":\n                \n                for typ in _processes:",
      "            elif self.storage_resolution == \"process\":\n                \n                for typ in _processes:"),
    m("view handed out as the total signal (the repaired defect)", "C19-K",
      "            twod.set_data(numpy.array(self.d__data[:,:]), dtype=dtype)", "            twod.set_data(numpy.array(self.d__data[:,:]))"),
    m("get_TwoDSpectrum leaves the flag on the view", "C19-K",
      "            twod.set_data(numpy.array(self.d__data[:,:]), dtype=dtype)\n        finally:\n            self.set_data_flag(flag_saved)\n",
      "            twod.set_data(numpy.array(self.d__data[:,:]), dtype=dtype)\n        finally:\n            pass\n"),
    m("_add_data leaves the flag on the cell", "C19-K",
      "            raise\n        finally:\n            self.set_data_flag(flag_saved)\n",
      "            raise\n        finally:\n            pass\n"),
]

CASES += [
    m("single-cell read hands out the stored array (the repaired defect)", "C19-G",
      "                    return piece[self.current_tag].copy()", "                    return piece[self.current_tag]"),
    m("read of the unresolved total hands out the stored array", "C19-G",
      "                    ret = storage[_total].copy()", "                    ret = storage[_total]"),
]

CASES += [
    m("trim_to saves the type half of the flag only (the repaired defect)", "C19-K",
      "            if self.current_tag is None:\n                dtype_saved = self.current_dtype\n            else:\n                dtype_saved = [self.current_dtype, self.current_tag]\n",
      "            dtype_saved = self.current_dtype\n"),
    m("_add_data saves the type half of the flag only (seeded change of round 6)", "C19-K",
      "        if self.current_tag is None:\n            flag_saved = self.current_dtype\n        else:\n            flag_saved = [self.current_dtype, self.current_tag]\n",
      "        flag_saved = self.current_dtype\n", 2),
]

CASES += [
    m("argument of an addition not checked for its shape (the repaired defect)", "C19-I",
      "        if numpy.shape(data) != (self.xaxis.length, self.yaxis.length):\n            raise Exception(\"Data not consistent with spectrum axes\")\n\n        if not self.storage_initialized:",
      "        if not self.storage_initialized:"),
    m("argument of an addition checked against one axis only", "C19-I",
      "        if numpy.shape(data) != (self.xaxis.length, self.yaxis.length):\n            raise Exception(\"Data not consistent with spectrum axes\")\n\n        if not self.storage_initialized:",
      "        if numpy.shape(data)[0] != self.xaxis.length:\n            raise Exception(\"Data not consistent with spectrum axes\")\n\n        if not self.storage_initialized:"),
    t("argument of an addition checked through its shape attribute",
      "        if numpy.shape(data) != (self.xaxis.length, self.yaxis.length):\n            raise Exception(\"Data not consistent with spectrum axes\")\n\n        if not self.storage_initialized:",
      "        if not (data.shape == (self.xaxis.length, self.yaxis.length)):\n            raise Exception(\"Data not consistent with spectrum axes\")\n\n        if not self.storage_initialized:"),
]

CASES += [
    m("refused first addition leaves the storage prepared (the repaired defect)", "C19-M",
      "        except Exception:\n            if not initialized_saved:\n                if had_storage:\n                    self._d__data = storage_saved\n                elif hasattr(self, \"_d__data\"):\n                    del self._d__data\n                self.storage_initialized = initialized_saved\n                self.storage_resolution = resolution_saved\n            raise\n",
      ""),
    m("roll-back forgets the resolution", "C19-M",
      "                self.storage_resolution = resolution_saved\n            raise\n", "            raise\n"),
    m("roll-back swallows the refusal", "C19-M",
      "                self.storage_resolution = resolution_saved\n            raise\n", "                self.storage_resolution = resolution_saved\n"),
]

_T2P_OLD = ("    for dtype in types:\n        try:\n            ddata = obj._d__data[dtype]\n        except KeyError:\n            # set to None if dtype not present\n"
            "            ddata = None\n        except AttributeError:\n            # no data\n            ddata = None\n            \n"
            "        if ddata is not None:\n            if data is not None:\n                data += ddata\n            else:\n                data = ddata\n\n    return data\n\n\ndef _types_to_signals")
_T2P_NEW = ("    try:\n        for dtype in types:\n            ddata = obj._d__data[dtype]\n            if data is not None:\n                data += ddata\n"
            "            else:\n                data = ddata\n    except (KeyError, AttributeError):\n        pass\n\n    return data\n\n\ndef _types_to_signals")
CASES += [
    m("one handler around the loop over the types of a process (seeded change of round 7)", "C19-N", _T2P_OLD, _T2P_NEW),
]

_TW19 = "quantarhei/spectroscopy/twod.py"
_SD19 = "            (self.yaxis.length == data.shape[1])):\n            \n            self.data = data\n"
CASES += [
    {"name": "spectrum with a 'vanishing' imaginary part kept as a real array (seeded change of round 8)", "kind": "mutant", "rule": "C19-O", "edits": [
        (_TW19, _SD19, "            (self.yaxis.length == data.shape[1])):\n            if numpy.allclose(numpy.imag(data), 0.0):\n                data = numpy.real(data)\n            self.data = data\n", 1)]},
    {"name": "spectrum stored in single precision", "kind": "mutant", "rule": "C19-O", "edits": [
        (_TW19, _SD19, "            (self.yaxis.length == data.shape[1])):\n            self.data = numpy.array(data, dtype=numpy.float32)\n", 1)]},
    {"name": "spectrum stored as a copy", "kind": "twin", "edits": [
        (_TW19, _SD19, "            (self.yaxis.length == data.shape[1])):\n            self.data = numpy.array(data)\n", 1)]},
]

_T219 = "quantarhei/spectroscopy/twod2.py"
CASES += [
    {"name": "roll-back writes the default where no storage attribute existed (the repaired defect)", "kind": "mutant", "rule": "C19-M", "edits": [
        (_T219, "                if had_storage:\n                    self._d__data = storage_saved\n                elif hasattr(self, \"_d__data\"):\n                    del self._d__data\n",
                "                self._d__data = storage_saved\n", 1)]},
    {"name": "roll-back removes the attribute with delattr", "kind": "twin", "edits": [
        (_T219, "                elif hasattr(self, \"_d__data\"):\n                    del self._d__data\n",
                "                elif hasattr(self, \"_d__data\"):\n                    delattr(self, \"_d__data\")\n", 1)]},
]

_TC19 = "quantarhei/spectroscopy/twodcontainer.py"
CASES += [
    {"name": "container of views created without the requested type (the repaired defect)", "kind": "mutant", "rule": "C19-K", "edits": [
        (_TC19, "            cont = TwoDSpectrumContainer(axis, dtype=stype)\n", "            cont = TwoDSpectrumContainer(axis)\n", 1)]},
    {"name": "requested type handed to the container by position", "kind": "twin", "edits": [
        (_TC19, "            cont = TwoDSpectrumContainer(axis, dtype=stype)\n", "            cont = TwoDSpectrumContainer(axis, stype)\n", 1)]},
]

CASES += [
    {"name": "spectrum stored through numpy.asarray", "kind": "twin", "edits": [
        (_TW19, _SD19, "            (self.yaxis.length == data.shape[1])):\n            self.data = numpy.asarray(data)\n", 1)]},
    {"name": "spectrum stored as its real part, unconditionally", "kind": "mutant", "rule": "C19-O", "edits": [
        (_TW19, _SD19, "            (self.yaxis.length == data.shape[1])):\n            self.data = data.real\n", 1)]},
]
