"""Self-test cases for C17."""
RM = "quantarhei/qm/liouvillespace/rates/ratematrix.py"
PP = "quantarhei/qm/propagators/poppropagator.py"


def m(name, rule, path, old, new, count=1):
    return {"name": name, "kind": "mutant", "rule": rule, "edits": [(path, old, new, count)]}


def t(name, path, old, new, count=1):
    return {"name": name, "kind": "twin", "edits": [(path, old, new, count)]}


CASES = [
    m("set_rate compensates the wrong diagonal", "C17-A", RM,
      "        self.data[M,M] += orig_val\n        self.data[M,M] -= value", "        self.data[N,N] += orig_val\n        self.data[N,N] -= value"),
    m("set_rate forgets the old value", "C17-A", RM, "        self.data[M,M] += orig_val\n", ""),
    m("set_rate accepts diagonal", "C17-A", RM,
      "        if N == M:\n            raise Exception(\"Diagonal (depopulation) rates cannot be set\")\n", ""),
    m("population step with dt", "C17-B", PP, "                    pref = (self.dt/ll) ", "                    pref = (self.dt) "),
    m("population step with transposed rate matrix", "C17-B", PP,
      "rho1 = pref*numpy.dot(self.KK.data,rho1)", "rho1 = pref*numpy.dot(rho1,self.KK.data)"),
    m("propagation matrix starts from zeros", "C17-C", PP, "            U0 = numpy.eye(N)", "            U0 = numpy.zeros((N,N))"),
    m("exponential by diagonalisation of the rate matrix (the repaired defect)", "C17-C", PP,
      "            expKd_step = scipy.linalg.expm(self.KK*timeaxis.step)",
      "            Kd, SS = numpy.linalg.eig(self.KK)\n            S1 = numpy.linalg.inv(SS)\n            expKd_step = numpy.dot(SS,numpy.dot(\n                    numpy.diag(numpy.exp(Kd*timeaxis.step)),S1))"),
    m("exponential uses the parent axis step", "C17-C", PP,
      "            expKd_step = scipy.linalg.expm(self.KK*timeaxis.step)", "            expKd_step = scipy.linalg.expm(self.KK*self.timeAxis.step)"),
    m("element-wise exponential instead of the matrix exponential", "C17-C", PP,
      "            expKd_step = scipy.linalg.expm(self.KK*timeaxis.step)", "            expKd_step = numpy.exp(self.KK*timeaxis.step)"),
    m("offset exponential of the transposed rate matrix", "C17-C", PP,
      "                    expKd_dt = scipy.linalg.expm(self.KK*dt)", "                    expKd_dt = scipy.linalg.expm(self.KK.T*dt)"),
    t("step written first in the exponent", PP,
      "            expKd_step = scipy.linalg.expm(self.KK*timeaxis.step)", "            expKd_step = scipy.linalg.expm(timeaxis.step*self.KK)"),
    m("offset applied twice", "C17-C", PP,
      "                    U0 = numpy.dot(expKd_dt,U0)\n", "                    U0 = numpy.dot(expKd_dt,U0)\n                    U0 = numpy.dot(expKd_dt,U0)\n"),
    m("is_subset_of drops the end-point test", "C17-C", "quantarhei/core/valueaxis.py",
      "        ret = ret and ((self.max in axis.data))\n", ""),
    m("in-place accumulate mutates pini", "C17-D", PP, "                    rho2 = rho2 + rho1\n", "                    rho2 += rho1\n"),
    t("set_rate single compensation statement", RM,
      "        self.data[M,M] += orig_val\n        self.data[M,M] -= value", "        self.data[M,M] += orig_val - value"),
    t("population step prefactor inlined", PP,
      "                    pref = (self.dt/ll) \n                    rho1 = pref*numpy.dot(self.KK.data,rho1)",
      "                    rho1 = numpy.dot(self.KK.data,rho1)*self.dt/ll"),
]

CASES += [
    m("populations stored in an integer array", "C17-D", PP,
      "        pops = numpy.zeros((Nt,pini.shape[0]))", "        pops = numpy.zeros((Nt,pini.shape[0]), dtype=int)"),
    t("result allocated with an explicit float type", PP,
      "        pops = numpy.zeros((Nt,pini.shape[0]))", "        pops = numpy.zeros((Nt,pini.shape[0]), dtype=numpy.float64)"),
]

CASES += [
    m("transfer part computed in place on the rate matrix through numpy.asarray", "C17-D", PP,
      "        KKT = self.KK+numpy.diag(KKD)", "        KKT = numpy.asarray(self.KK)\n        numpy.fill_diagonal(KKT, 0.0)"),
    m("populations accumulated in place on the caller's vector", "C17-D", PP,
      "                    rho2 = rho2 + rho1", "                    rho2 += rho1"),
    m("rate matrix symmetrised in place through its transpose view", "C17-D", PP,
      "        KKT = self.KK+numpy.diag(KKD)", "        view = self.KK.T\n        view[0, 0] = 0.0\n        KKT = self.KK+numpy.diag(KKD)"),
    t("transfer part computed on a copy", PP,
      "        KKT = self.KK+numpy.diag(KKD)", "        KKT = numpy.array(self.KK)\n        numpy.fill_diagonal(KKT, 0.0)"),
]

CASES += [
    m("step exponential kept between calls", "C17-E", PP,
      "            expKd_step = scipy.linalg.expm(self.KK*timeaxis.step)",
      "            if getattr(self, \"_estep\", None) is None:\n                self._estep = scipy.linalg.expm(self.KK*timeaxis.step)\n            expKd_step = self._estep"),
]

CASES += [
    m("rate matrix keeps the array it was given (the repaired defect)", "C17-A", RM,
      "            data = numpy.array(data, dtype=numpy.float64)\n", ""),
    m("rate matrix takes the element type of what it was given", "C17-A", RM,
      "            data = numpy.array(data, dtype=numpy.float64)\n", "            data = numpy.array(data)\n"),
    m("rate matrix converts without copying", "C17-A", RM,
      "            data = numpy.array(data, dtype=numpy.float64)\n", "            data = numpy.array(data, dtype=numpy.float64, copy=False)\n"),
    t("rate matrix copy written with the float builtin", RM,
      "            data = numpy.array(data, dtype=numpy.float64)\n", "            data = numpy.array(data, dtype=float)\n"),
]

_PP = "quantarhei/qm/propagators/poppropagator.py"
CASES += [
    {"name": "populations renormalised after every step (seeded change of round 6)", "kind": "mutant", "rule": "C17-F", "edits": [
        (_PP, "            pops[indx,:] = rho2                        \n", "            rho2 = rho2/numpy.sum(rho2)\n            rho1 = rho2\n            pops[indx,:] = rho2\n", 1)]},
    {"name": "populations clipped at zero", "kind": "mutant", "rule": "C17-F", "edits": [
        (_PP, "            pops[indx,:] = rho2                        \n", "            pops[indx,:] = numpy.clip(rho2, 0.0, None)\n", 1)]},
    {"name": "step accumulated through a scaled copy", "kind": "twin", "edits": [
        (_PP, "            pops[indx,:] = rho2                        \n", "            pops[indx,:] = 1.0*rho2\n", 1)]},
]

CASES += [
    {"name": "set_data keeps the caller's array (the repaired defect)", "kind": "mutant", "rule": "C17-A", "edits": [
        ("quantarhei/qm/liouvillespace/rates/ratematrix.py", "        self.data = numpy.array(data, dtype=numpy.float64)\n\n\n    def set_rate", "        self.data = data\n\n\n    def set_rate", 1)]},
    {"name": "set_data converts without a copy", "kind": "mutant", "rule": "C17-A", "edits": [
        ("quantarhei/qm/liouvillespace/rates/ratematrix.py", "        self.data = numpy.array(data, dtype=numpy.float64)\n\n\n    def set_rate", "        self.data = numpy.array(data, dtype=numpy.float64, copy=False)\n\n\n    def set_rate", 1)]},
]

_TM17 = "quantarhei/core/time.py"
_SH17 = "            self.data[:] = self.data[:] - self.start\n            self.start = 0.0\n"
CASES += [
    {"name": "start reset before it is subtracted (seeded change of round 8)", "kind": "mutant", "rule": "C17-H", "edits": [
        (_TM17, _SH17, "            self.start = 0.0\n            self.data[:] = self.data[:] - self.start\n", 1)]},
    {"name": "start reset before the minimum (a property reading it) is subtracted (seeded change of round 8)", "kind": "mutant", "rule": "C17-H", "edits": [
        (_TM17, _SH17, "            self.start = 0.0\n            self.data[:] = self.data[:] - self.min\n", 1)]},
    {"name": "points moved, description left", "kind": "mutant", "rule": "C17-H", "edits": [
        (_TM17, _SH17, "            self.data[:] = self.data[:] - self.start\n", 1)]},
    {"name": "description moved, points left", "kind": "mutant", "rule": "C17-H", "edits": [
        (_TM17, _SH17, "            self.start = 0.0\n", 1)]},
    {"name": "old start kept in a local before the reset", "kind": "twin", "edits": [
        (_TM17, _SH17, "            s0 = self.start\n            self.start = 0.0\n            self.data[:] = self.data[:] - s0\n", 1)]},
    {"name": "points moved in place by the first point", "kind": "twin", "edits": [
        (_TM17, _SH17, "            self.data -= self.data[0]\n            self.start = 0.0\n", 1)]},
]
