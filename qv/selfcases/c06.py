"""Self-test cases for C06."""
R = "quantarhei/qm/liouvillespace/rates/redfieldrates.py"
K = "quantarhei/implementations/python/redfieldrates.py"
S = "quantarhei/qm/corfunctions/spectraldensities.py"


def m(name, rule, path, old, new, count=1):
    return {"name": name, "kind": "mutant", "rule": rule, "edits": [(path, old, new, count)]}


def t(name, path, old, new, count=1):
    return {"name": name, "kind": "twin", "edits": [(path, old, new, count)]}


CASES = [
    m("diagonal computed from the row", "C06-R1", K, "                RR[j,j] -= RR[i,j]", "                RR[i,i] -= RR[i,j]"),
    m("kernel subtracts", "C06-R1", K, "RR[i,j] += (cc[k,i,j]*KK[i,j]*KK[j,i])", "RR[i,j] -= (cc[k,i,j]*KK[i,j]*KK[j,i])"),
    m("Foerster depopulation sums the row", "C06-R1", "quantarhei/qm/liouvillespace/rates/foersterrates.py", "        Kaa = numpy.sum(KK[:,a])", "        Kaa = numpy.sum(KK[a,:])"),
    m("Boltzmann factor with the wrong sign", "C06-R2", R, "                                *numpy.exp(-Om[i,j]/(kB_intK*Temp))))", "                                *numpy.exp(Om[i,j]/(kB_intK*Temp))))"),
    m("Boltzmann factor with 2kT", "C06-R2", R, "                                *numpy.exp(-Om[i,j]/(kB_intK*Temp))))", "                                *numpy.exp(-Om[i,j]/(2.0*kB_intK*Temp))))"),
    m("uphill branch reads the spectrum at the negative frequency", "C06-R2", R,
      "                                cc[k,i,j] = numpy.real((cw.at(Om[i,j],\n                                approx=\"spline\")", "                                cc[k,i,j] = numpy.real((cw.at(Om[j,i],\n                                approx=\"spline\")"),
    m("an even term added to a spectral density", "C06-R3", S,
      "            cfce = (2.0*lamb/ctime)*omega/(omega**2 + (1.0/ctime)**2)", "            cfce = (2.0*lamb/ctime)*omega/(omega**2 + (1.0/ctime)**2) + 1.0e-3*lamb*omega**2"),
    m("underdamped formula made even", "C06-R3", S,
      "            cfce = 2*(lamb*omega*gamma*omega0**2)/((omega**2 - \\\n                     omega0**2)**2 + (gamma*omega)**2)", "            cfce = 2*(lamb*numpy.abs(omega)*gamma*omega0**2)/((omega**2 - \\\n                     omega0**2)**2 + (gamma*omega)**2)"),
    m("CP29 sign flip dropped", "C06-R3", S, "            cfce[numpy.where(omega < 0)] = -1*cfce[numpy.where(omega < 0)]     \n", "\n"),
    m("thermal factor 1 - coth in one branch", "C06-R4", S,
      "                auxi = (1.0 + (1.0/numpy.tanh(omega/twokbt)))*spect\n                vals[0:ind_of_zero] = auxi", "                auxi = (1.0 - (1.0/numpy.tanh(omega/twokbt)))*spect\n                vals[0:ind_of_zero] = auxi"),
    m("kT instead of 2kT", "C06-R4", S, "        twokbt = 2.0*kB_int*temp", "        twokbt = kB_int*temp"),
    m("tensor Lambda uses the opposite frequency", "C06-R5", "quantarhei/qm/liouvillespace/redfieldtensor.py",
      "                eexp = numpy.exp(-1.0j*Om[a,b]*tm) \n                rc = rc1[0:length]*eexp\n                \n                # spline integration instead of FFT\n                rr = numpy.real(rc)\n                ri = numpy.imag(rc)\n                sr = scipy.interpolate.UnivariateSpline(tm,\n                            rr, s=0).antiderivative()(tm)\n                si = scipy.interpolate.UnivariateSpline(tm,\n                            ri, s=0).antiderivative()(tm)\n                        \n                # we take the last value (integral to infinity)\n                cc_mnab = (sr[length-1] + 1.0j*si[length-1]) \n\n                # \\Lambda_m operators\n                Lm[ms,a,b] += cc_mnab*Km[ms,a,b] \n      \n",
      "                eexp = numpy.exp(-1.0j*Om[b,a]*tm) \n                rc = rc1[0:length]*eexp\n                \n                # spline integration instead of FFT\n                rr = numpy.real(rc)\n                ri = numpy.imag(rc)\n                sr = scipy.interpolate.UnivariateSpline(tm,\n                            rr, s=0).antiderivative()(tm)\n                si = scipy.interpolate.UnivariateSpline(tm,\n                            ri, s=0).antiderivative()(tm)\n                        \n                # we take the last value (integral to infinity)\n                cc_mnab = (sr[length-1] + 1.0j*si[length-1]) \n\n                # \\Lambda_m operators\n                Lm[ms,a,b] += cc_mnab*Km[ms,a,b] \n      \n"),
    t("Boltzmann factor written as division", R, "                                *numpy.exp(-Om[i,j]/(kB_intK*Temp))))", "                                *numpy.exp(-Om[i,j]/(Temp*kB_intK))))"),
    t("overdamped formula factored differently", S,
      "            cfce = (2.0*lamb/ctime)*omega/(omega**2 + (1.0/ctime)**2)", "            cfce = 2.0*lamb*omega/(ctime*(omega**2 + (1.0/ctime)**2))"),
]

CASES += [
    m("requested temperature only fills in a missing one", "C06-R4", S,
      "            if temperature is not None:\n                prms[\"T\"] = temperature\n",
      "            if (temperature is not None) and (\"T\" not in prms):\n                prms[\"T\"] = temperature\n"),
    m("correlation function built at the stored temperature", "C06-R4", S,
      "            T = newdict[\"T\"]\n", "            T = pdict[\"T\"]\n"),
    t("requested temperature selected by a conditional expression", S,
      "            if k == 0:\n                temp = prms[\"T\"]\n            elif temp != prms[\"T\"]:",
      "            if k == 0:\n                temp = temperature if temperature is not None else prms[\"T\"]\n            elif temp != prms[\"T\"]:"),
]

CASES += [
    m("eigenbasis transformation done in place on the shared system-bath operators", "C06-R6", R,
      "        KI = self.sbi.KK.copy()", "        sb = self.sbi\n        KI = sb.KK"),
    t("operators copied with numpy.array", R,
      "        KI = self.sbi.KK.copy()", "        KI = numpy.array(self.sbi.KK)"),
]

CASES += [
    {"name": "Lambda operators skipped beyond the single-exciton band (the repaired defect)", "kind": "mutant", "rule": "C06-R5", "edits": [
        ("quantarhei/qm/liouvillespace/redfieldtensor.py", "            if True:\n                ns = ms\n", "            if not multi_ex:\n                ns = ms\n", 1)]},
    {"name": "acceptor reorganisation energy in the donor's place", "kind": "mutant", "rule": "C06-R7", "edits": [
        ("quantarhei/qm/liouvillespace/tdfoerstertensor.py", "                                             ed, ea, ll[b])", "                                             ed, ea, ll[a])", 1)]},
    {"name": "line-shape functions passed donor first", "kind": "twin", "edits": [
        ("quantarhei/qm/liouvillespace/rates/foersterrates.py", "_fintegral(tt, gt[a,:], gt[b,:],", "_fintegral(tt, gt[b,:], gt[a,:],", 1)]},
]

FR = "quantarhei/qm/liouvillespace/rates/foersterrates.py"
TR = "quantarhei/qm/liouvillespace/rates/tdredfieldrates.py"
CASES += [
    m("Redfield rates calculated in the caller's units (the repaired defect)", "C06-R8", R,
      "            with energy_units(\"int\"):\n                self._set_rates()", "            if True:\n                self._set_rates()"),
    m("Foerster rates take the reorganisation energies in the caller's units (the repaired defect)", "C06-R8", FR,
      "        with energy_units(\"int\"):\n            for ii in range(1, Na):\n                ll[ii] = sbi.CC.get_reorganization_energy(ii-1,ii-1)",
      "        if True:\n            for ii in range(1, Na):\n                ll[ii] = sbi.CC.get_reorganization_energy(ii-1,ii-1)"),
    m("time-dependent Redfield rates diagonalise the Hamiltonian in the caller's units (the repaired defect)", "C06-R8", TR,
      "            with energy_units(\"int\"):\n                self._set_rates(ham,sbi)", "            if True:\n                self._set_rates(ham,sbi)"),
    m("Redfield rates diagonalise the units-managed data instead of the stored matrix", "C06-R8", R,
      "            self._set_rates()          \n", "            self._set_rates()          \n            self.hD = numpy.linalg.eigvalsh(self.ham.data)\n"),
    t("Foerster rates read everything in one internal-units block", FR,
      "        with energy_units(\"int\"):\n            HH = self.ham.data\n", "        with energy_units(\"int\"):\n            HH = self.ham.data\n            nothing = None\n"),
    {"name": "rate calculation reached through a second private helper, protected at the outer call", "kind": "twin", "edits": [
        (R, "            with energy_units(\"int\"):\n                self._set_rates()", "            with energy_units(\"int\"):\n                self._boot()", 1),
        (R, "    def _set_rates(self):", "    def _boot(self):\n        self._set_rates()\n\n    def _set_rates(self):", 1)]},
]

TDR = "quantarhei/qm/liouvillespace/rates/tdredfieldrates.py"
_SPL = ("                            sr = scipy.interpolate.UnivariateSpline(tm,\n                                    rr, s=0).antiderivative()(tm)\n"
        "                            si = scipy.interpolate.UnivariateSpline(tm,\n                                    ri, s=0).antiderivative()(tm)\n"
        "                            cc[:,k,i,j] =  sr + 1.0j*si\n")
CASES += [
    m("running integral by a quadrature routine that is not told the step (seeded change of round 6)", "C06-R9", TDR, _SPL,
      "                            cc[:,k,i,j] = scipy.integrate.cumulative_trapezoid(ff, initial=0.0)\n"),
    m("tensor integral loses its step", "C06-R9", "quantarhei/qm/liouvillespace/redfieldtensor.py",
      "                cc_mnab = scipy.integrate.trapz(rc, dx=dt)", "                cc_mnab = scipy.integrate.trapz(rc)"),
    t("running integral by a quadrature routine given the axis", TDR, _SPL,
      "                            cc[:,k,i,j] = scipy.integrate.cumulative_trapezoid(ff, tm, initial=0.0)\n"),
    t("running integral by a unit-spacing quadrature times the step", TDR, _SPL,
      "                            cc[:,k,i,j] = scipy.integrate.cumulative_trapezoid(ff, initial=0.0)*(tm[1]-tm[0])\n"),
]

_CFP = "quantarhei/qm/corfunctions/correlationfunctions.py"
_MS = "            n = i+1\n            msf += nut*n*numpy.exp(-nut*n*time)/((nut*n)**2-(1.0/ctime)**2)\n"
CASES += [
    m("Matsubara terms below the relaxation rate skipped (seeded change of round 7)", "C06-R10", _CFP, _MS,
      "            n = i+1\n            if nut*n - 1.0/ctime < 1.0e-10/ctime:\n                continue\n            msf += nut*n*numpy.exp(-nut*n*time)/((nut*n)**2-(1.0/ctime)**2)\n"),
    t("resonant Matsubara term skipped by a two-sided test", _CFP, _MS,
      "            n = i+1\n            if numpy.abs(nut*n - 1.0/ctime) < 1.0e-300:\n                continue\n            msf += nut*n*numpy.exp(-nut*n*time)/((nut*n)**2-(1.0/ctime)**2)\n"),
]

_RF6 = "quantarhei/qm/liouvillespace/redfieldfoerster.py"
_LAMB6 = ("            for aa in range(1,Na):\n                for bb in range(1,Na):\n                    # Here we assume no correlation between sites \n"
          "                    lamb[aa] += (SS[bb,aa]**4)*lamb_sites[bb]\n")
CASES += [
    {"name": "exciton reorganisation energies vectorised without the transpose (seeded change of round 8)", "kind": "mutant", "rule": "C06-R11", "edits": [
        (_RF6, _LAMB6, "            lamb = numpy.dot(SS**4, lamb_sites)\n", 1)]},
    {"name": "exciton reorganisation energies weighted with the transposed element", "kind": "mutant", "rule": "C06-R11", "edits": [
        (_RF6, "                    lamb[aa] += (SS[bb,aa]**4)*lamb_sites[bb]\n", "                    lamb[aa] += (SS[aa,bb]**4)*lamb_sites[bb]\n", 1)]},
    {"name": "exciton line-shape functions weighted with the transposed element", "kind": "mutant", "rule": "C06-R11", "edits": [
        (_RF6, "                    gvals[aa,:] += (SS[bb,aa]**4)*Gt[bb,:]  \n", "                    gvals[aa,:] += (SS[aa,bb]**4)*Gt[bb,:]  \n", 1)]},
    {"name": "exciton reorganisation energies vectorised with the transpose", "kind": "twin", "edits": [
        (_RF6, _LAMB6, "            lamb = numpy.dot((SS**4).T, lamb_sites)\n", 1)]},
    {"name": "exciton reorganisation energies vectorised with einsum", "kind": "twin", "edits": [
        (_RF6, _LAMB6, "            lamb = numpy.einsum(\"na,n->a\", SS**4, lamb_sites)\n", 1)]},
]
