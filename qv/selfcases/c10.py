"""Self-test cases for C10."""
H = "quantarhei/qm/oscillators/ho.py"
M = "quantarhei/builders/modes.py"
A = "quantarhei/builders/aggregate_base.py"


def m(name, rule, path, old, new, count=1):
    return {"name": name, "kind": "mutant", "rule": rule, "edits": [(path, old, new, count)]}


def t(name, path, old, new, count=1):
    return {"name": name, "kind": "twin", "edits": [(path, old, new, count)]}


CASES = [
    m("shift = sqrt(S)", "C10-A", M, "        sh = numpy.sqrt(2.0*hr)", "        sh = numpy.sqrt(hr)"),
    m("get_HR without the half", "C10-A", M, "        return (self.submodes[N].shift**2)/2.0", "        return (self.submodes[N].shift**2)"),
    m("generator with a plus sign (Hermitian)", "C10-B", H, "        Dd_large = (dd_*ad-numpy.conj(dd_)*aa)/numpy.sqrt(2.0)", "        Dd_large = (dd_*ad+numpy.conj(dd_)*aa)/numpy.sqrt(2.0)"),
    m("generator without conj", "C10-B", H, "        Dd_large = (dd_*ad-numpy.conj(dd_)*aa)/numpy.sqrt(2.0)", "        Dd_large = (dd_*ad-dd_*aa)/numpy.sqrt(2.0)"),
    m("creation operator element shifted", "C10-B", H, "                    ad[ng,mg] = numpy.sqrt(numpy.real(mg+1))", "                    ad[ng,mg] = numpy.sqrt(numpy.real(mg))"),
    m("exponential transformed with swapped matrices", "C10-B", H, "        return numpy.dot(S,numpy.dot(Dd_large,S1))", "        return numpy.dot(S1,numpy.dot(Dd_large,S))"),
    m("overlap product stops after the first mode", "C10-C", A, "            res = res*rs\n\n        return res", "            res = res*rs\n            break\n\n        return res"),
    m("overlap indexed with swapped quantum numbers of mode 0", "C10-C", A, "            qn2 = inx2[kk]", "            qn2 = inx2[0]"),
    m("dipole without the overlap factor", "C10-C", A, "        return eldip*fcfac", "        return eldip"),
    m("full space generator drops a mode", "C10-C", "quantarhei/builders/aggregate_states.py", "            return numpy.ndindex(tuple(vibmax))", "            return numpy.ndindex(tuple(vibmax[1:]))"),
    t("generator factored", H, "        Dd_large = (dd_*ad-numpy.conj(dd_)*aa)/numpy.sqrt(2.0)", "        Dd_large = dd_*ad/numpy.sqrt(2.0)-numpy.conj(dd_)*aa/numpy.sqrt(2.0)"),
]

CASES += [
    {"name": "overlap remembered per pair of state objects", "kind": "mutant", "rule": "C10-C", "edits": [
        (A, "        res = 1.0\n        for kk in range(len(sta1)):\n            smod1 = sta1[kk]",
         "        if not hasattr(self, \"_fcm\"):\n            self._fcm = {}\n        if (id(state1), id(state2)) in self._fcm:\n            return self._fcm[(id(state1), id(state2))]\n        res = 1.0\n        for kk in range(len(sta1)):\n            smod1 = sta1[kk]", 1),
        (A, "            res = res*rs\n\n        return res", "            res = res*rs\n\n        self._fcm[(id(state1), id(state2))] = res\n        return res", 1)]},
]

CASES += [
    {"name": "full exciton model: inter-band branch never taken", "kind": "mutant", "rule": "C10-C", "edits": [
        (A, "                elif (numpy.abs(es1.band - es2.band) == 2) and full:", "                elif (numpy.abs(es1.band - es2.band) == 2) and full and False:", 1)]},
]

CASES += [
    {"name": "operator basis reduced to the size of the old table", "kind": "mutant", "rule": "C10-C", "edits": [
        ("quantarhei/qm/oscillators/ho.py", "    def __init__(self, N=100):", "    def __init__(self, N=20):", 1)]},
    {"name": "overlap table cut at twenty levels again (the repaired defect)", "kind": "mutant", "rule": "C10-C", "edits": [
        ("quantarhei/builders/aggregate_base.py", "                fc = self.ops.shift_operator(shft)\n", "                fc = self.ops.shift_operator(shft)[:20,:20]\n", 1)]},
    {"name": "aggregate asks for a larger operator basis explicitly", "kind": "twin", "edits": [
        ("quantarhei/builders/aggregate_base.py", "        self.ops = operator_factory()", "        self.ops = operator_factory(N=120)", 1)]},
]

AB10 = "quantarhei/builders/aggregate_base.py"
CASES += [
    {"name": "component index dropped in the accumulation (the repaired defect)", "kind": "mutant", "rule": "C10-E", "edits": [
        (AB10, "                                            nop._data[i_n,i_m,a] += \\\n", "                                            nop._data[i_n,i_m] += \\\n", 1)]},
    {"name": "mode added through a method a Molecule does not have (the repaired defect)", "kind": "mutant", "rule": "C10-F", "edits": [
        (AB10, "            mn.add_Mode(mode)\n", "            mn.add_mode(mode)\n", 1)]},
    {"name": "mode read through a method a Molecule does not have", "kind": "mutant", "rule": "C10-F", "edits": [
        (AB10, "            return mn.get_Mode(N)\n", "            return mn.get_mode(N)\n", 1)]},
]

CASES += [
    {"name": "dipole element always from the 0->1 transition (the repaired defect)", "kind": "mutant", "rule": "C10-G", "edits": [
        (AB10, "        eldip = self.get_dipole(exindx, min(n1, n2), max(n1, n2))", "        eldip = self.get_dipole(exindx, 0, 1)", 1)]},
    {"name": "upper level taken from one state only", "kind": "mutant", "rule": "C10-G", "edits": [
        (AB10, "        eldip = self.get_dipole(exindx, min(n1, n2), max(n1, n2))", "        eldip = self.get_dipole(exindx, 0, n1)", 1)]},
    {"name": "levels sorted explicitly", "kind": "twin", "edits": [
        (AB10, "        eldip = self.get_dipole(exindx, min(n1, n2), max(n1, n2))", "        lo, hi = sorted((n1, n2))\n        eldip = self.get_dipole(exindx, lo, hi)", 1)]},
]

CASES += [
    {"name": "sub-modes looked up with the index in the list of molecules that have modes (seeded change of round 5)", "kind": "mutant", "rule": "C10-H", "edits": [
        ("quantarhei/builders/aggregate_states.py", "        n = 0\n        for mn in aggregate.monomers:\n            for a in range(mn.nmod):\n                vb_ls.append(mn.get_Mode(a).get_SubMode(elst[n]))\n            n += 1\n",
         "        vibmols = [mn for mn in aggregate.monomers if mn.nmod > 0]\n        for n, mn in enumerate(vibmols):\n            for a in range(mn.nmod):\n                vb_ls.append(mn.get_Mode(a).get_SubMode(elst[n]))\n", 1)]},
    {"name": "counter advanced only for molecules with modes", "kind": "mutant", "rule": "C10-H", "edits": [
        ("quantarhei/builders/aggregate_states.py", "                vb_ls.append(mn.get_Mode(a).get_SubMode(elst[n]))\n            n += 1\n", "                vb_ls.append(mn.get_Mode(a).get_SubMode(elst[n]))\n            if mn.nmod > 0:\n                n += 1\n", 1)]},
    {"name": "molecules enumerated", "kind": "twin", "edits": [
        ("quantarhei/builders/aggregate_states.py", "        n = 0\n        for mn in aggregate.monomers:\n            for a in range(mn.nmod):\n                vb_ls.append(mn.get_Mode(a).get_SubMode(elst[n]))\n            n += 1\n",
         "        for n, mn in enumerate(aggregate.monomers):\n            for a in range(mn.nmod):\n                vb_ls.append(mn.get_Mode(a).get_SubMode(elst[n]))\n", 1)]},
]

HO = "quantarhei/qm/oscillators/ho.py"
_ADD = "        self._shifts.append(shift)\n        self._fcs.append(fcmatrix)\n"
CASES += [
    {"name": "bounded table evicts the oldest shift and the newest matrix (seeded change of round 6)", "kind": "mutant", "rule": "C10-I", "edits": [
        (HO, _ADD, "        if len(self._shifts) >= 16:\n            self._shifts.pop(0)\n            self._fcs.pop()\n" + _ADD, 1)]},
    {"name": "new shifts go to the front, matrices to the end", "kind": "mutant", "rule": "C10-I", "edits": [
        (HO, _ADD, "        self._shifts.insert(0, shift)\n        self._fcs.append(fcmatrix)\n", 1)]},
    {"name": "shifts kept sorted", "kind": "mutant", "rule": "C10-I", "edits": [
        (HO, _ADD, _ADD + "        self._shifts.sort()\n", 1)]},
    {"name": "bounded table evicts the oldest record of both lists", "kind": "twin", "edits": [
        (HO, _ADD, "        if len(self._shifts) >= 1000000:\n            self._shifts.pop(0)\n            self._fcs.pop(0)\n" + _ADD, 1)]},
]

CASES += [
    {"name": "only neighbouring bands let through to the dipole (seeded change of round 7)", "kind": "mutant", "rule": "C10-G", "edits": [
        ("quantarhei/builders/aggregate_base.py", "        if (abs(b1-b2) != 1) and (abs(b1-b2) != 2):\n            return -1", "        if abs(b1-b2) != 1:\n            return -1", 1)]},
    {"name": "band selection written as a membership test", "kind": "twin", "edits": [
        ("quantarhei/builders/aggregate_base.py", "        if (abs(b1-b2) != 1) and (abs(b1-b2) != 2):\n            return -1", "        if not (abs(b1-b2) == 1 or abs(b1-b2) == 2):\n            return -1", 1)]},
]

_HO10 = "quantarhei/qm/oscillators/ho.py"
CASES += [
    {"name": "look-up of a shift with a tolerance (seeded change of round 8)", "kind": "mutant", "rule": "C10-J", "edits": [
        (_HO10, "        if self._shifts.count(shift) > 0:\n", "        if len(self._shifts) > 0 and numpy.any(numpy.isclose(self._shifts, shift)):\n", 1),
        (_HO10, "        return self._shifts.index(shift)\n", "        return int(numpy.nonzero(numpy.isclose(self._shifts, shift))[0][0])\n", 1)]},
    {"name": "look-up of a shift within an absolute distance", "kind": "mutant", "rule": "C10-J", "edits": [
        (_HO10, "        if self._shifts.count(shift) > 0:\n", "        if any(abs(s_ - shift) < 1.0e-6 for s_ in self._shifts):\n", 1)]},
    {"name": "look-up of a shift with `in`", "kind": "twin", "edits": [
        (_HO10, "        if self._shifts.count(shift) > 0:\n", "        if shift in self._shifts:\n", 1)]},
]

CASES += [
    {"name": "index of a shift found by an explicit loop with ==", "kind": "twin", "edits": [
        (_HO10, "        return self._shifts.index(shift)\n", "        for i_, s_ in enumerate(self._shifts):\n            if s_ == shift:\n                return i_\n        raise ValueError(\"shift not stored\")\n", 1)]},
]

_MOL9 = "quantarhei/builders/molecules.py"
_AM_OLD = "            mod.set_Molecule(self)\n            self.modes.append(mod)\n            self.nmod += 1\n"
CASES += [
    {"name": "a mode that already lives on a molecule is put on the list and the method is left before the counter (seeded change of round 9)",
     "kind": "mutant", "rule": "C10-K", "edits": [(_MOL9, _AM_OLD,
        "            self.modes.append(mod)\n            if mod.monomer_set and (mod.nel == self.nel):\n                return\n            mod.set_Molecule(self)\n            self.nmod += 1\n", 1)]},
    {"name": "the counter of modes is advanced only for the first mode", "kind": "mutant", "rule": "C10-K", "edits": [(_MOL9, _AM_OLD,
        "            mod.set_Molecule(self)\n            self.modes.append(mod)\n            if self.nmod == 0:\n                self.nmod += 1\n", 1)]},
    {"name": "the counter of modes is set from the length of the list", "kind": "twin", "edits": [(_MOL9, _AM_OLD,
        "            mod.set_Molecule(self)\n            self.modes.append(mod)\n            self.nmod = len(self.modes)\n", 1)]},
    {"name": "counter first, list second", "kind": "twin", "edits": [(_MOL9, _AM_OLD,
        "            mod.set_Molecule(self)\n            self.nmod += 1\n            self.modes.append(mod)\n", 1)]},
]
