"""Self-test cases for C11."""
A = "quantarhei/spectroscopy/abscalculator.py"


def m(name, rule, old, new, count=1, path=A):
    return {"name": name, "kind": "mutant", "rule": rule, "edits": [(path, old, new, count)]}


def t(name, old, new, count=1, path=A):
    return {"name": name, "kind": "twin", "edits": [(path, old, new, count)]}


CASES = [
    m("dipole operator left in the eigenbasis", "C11-A", "        HH.transform(S1)\n        DD.transform(S1)\n", "        HH.transform(S1)\n"),
    m("tensor transformed back only sometimes", "C11-A",
      "        if relaxation_tensor is not None:\n            RR.transform(S1)", "        if relaxation_tensor is not None and not raw:\n            RR.transform(S1)"),
    m("back transformation with the forward matrix", "C11-A", "        S1 = numpy.linalg.inv(SS)\n        HH.transform(S1)", "        S1 = SS\n        HH.transform(S1)"),
    m("hfft without n (the repaired defect)", "C11-B", "        ft = dd*numpy.fft.hfft(at, n=2*Nt)*ta.step", "        ft = dd*numpy.fft.hfft(at)*ta.step"),
    m("reversal without roll (the repaired defect)", "C11-B", "        ft = numpy.roll(numpy.flipud(ft), 1)\n        # cut the center of the spectrum\n        return", "        ft = numpy.flipud(ft)\n        # cut the center of the spectrum\n        return"),
    m("cut shifted by one", "C11-B", "        return ft[Nt//2:Nt+Nt//2]", "        return ft[Nt//2+1:Nt+Nt//2+1]"),
    m("axis starts at the first frequency", "C11-B", "        st = self.frequencyAxis.data[Nt//2]", "        st = self.frequencyAxis.data[0]", 3),
    m("time step dropped", "C11-B", "        ft = numpy.fft.hfft(at, n=2*Nt)*time.step", "        ft = numpy.fft.hfft(at, n=2*Nt)"),
    m("dipole strength uses one component", "C11-C", "        return numpy.dot(d,d)\n    \n    def get_compoment_data", "        return d[0]*d[0]\n    \n    def get_compoment_data", path="quantarhei/qm/hilbertspace/dmoment.py"),
    m("prefactor applied for raw spectra too", "C11-D", "        if not raw:\n            data = axis.data*data", "        if True:\n            data = axis.data*data", 3),
    t("roll written with shift keyword", "        ft = numpy.roll(numpy.flipud(ft), 1)\n        # cut the center of the spectrum\n        return", "        ft = numpy.roll(numpy.flipud(ft), 1)\n        # cut the centre\n        return"),
]

AGB = "quantarhei/builders/aggregate_base.py"
CASES += [
    m("dipole operator built on the aggregate's working array", "C11-E",
      "        trdata[:,:,:] = DD[:,:,:]\n        self.TrDMOp = TransitionDipoleMoment(data=trdata)",
      "        self.TrDMOp = TransitionDipoleMoment(data=DD)", path=AGB),
    t("dipole operator built on an explicit copy", 
      "        trdata[:,:,:] = DD[:,:,:]\n        self.TrDMOp = TransitionDipoleMoment(data=trdata)",
      "        self.TrDMOp = TransitionDipoleMoment(data=DD.copy())", path=AGB),
]

CASES += [
    m("axis shifted by the excited-block energy alone", "C11-F",
      "            self.rwa = self.convert_2_internal_u(HR[Ne]-HR[Ng])", "            self.rwa = self.convert_2_internal_u(HR[Ne])"),
    t("frame frequency written without the helper locals",
      "            self.rwa = self.convert_2_internal_u(HR[Ne]-HR[Ng])", "            self.rwa = self.convert_2_internal_u(HR[HH.rwa_indices[1]]-HR[HH.rwa_indices[0]])"),
]

CASES += [
    {"name": "spectrum calculated in the caller's units", "kind": "mutant", "rule": "C11-G", "edits": [
        ("quantarhei/spectroscopy/abscalculator.py",
         "        with energy_units(\"int\"):\n            \n            if self.system is not None:\n                \n                if from_dynamics:",
         "        if True:\n            \n            if self.system is not None:\n                \n                if from_dynamics:", 1)]},
    {"name": "returned axis rebuilt outside the protected region", "kind": "mutant", "rule": "C11-G", "edits": [
        ("quantarhei/spectroscopy/abscalculator.py",
         "        return spect\n\n        \n    def one_transition_spectrum(self,tr):",
         "        spect.axis.data[0] = self.frequencyAxis.data[0]\n        return spect\n\n        \n    def one_transition_spectrum(self,tr):", 1)]},
    {"name": "number of points of the axis read outside the protected region", "kind": "twin", "edits": [
        ("quantarhei/spectroscopy/abscalculator.py",
         "        return spect\n\n        \n    def one_transition_spectrum(self,tr):",
         "        npoints = len(self.frequencyAxis.data)\n        return spect\n\n        \n    def one_transition_spectrum(self,tr):", 1)]},
]

CASES += [
    {"name": "exciton widths read the eigenvector matrix transposed (the repaired defect)", "kind": "mutant", "rule": "C11-I", "edits": [
        ("quantarhei/builders/aggregate_base.py", "                    Wd_a[ii] += (self.Wd[nn,nn]**2)*abs(SS[nn,ii])**4", "                    Wd_a[ii] += (self.Wd[nn,nn]**2)*abs(SS[ii,nn])**4", 1)]},
    {"name": "exciton dephasings read the eigenvector matrix transposed", "kind": "mutant", "rule": "C11-I", "edits": [
        ("quantarhei/builders/aggregate_base.py", "                    Dr_a[ii] += (self.Dr[nn,nn]**2)*abs(SS[nn,ii])**4", "                    Dr_a[ii] += (self.Dr[nn,nn]**2)*abs(SS[ii,nn])**4", 1)]},
]

ABSC = "quantarhei/spectroscopy/abscalculator.py"
CASES += [
    {"name": "later lines ignore the rate matrix (the repaired defect)", "kind": "mutant", "rule": "C11-J", "edits": [
        (ABSC, "            if (relaxation_tensor is not None) or (rate_matrix is not None):\n                tr[\"gg\"] = gg[ii]", "            if relaxation_tensor is not None:\n                tr[\"gg\"] = gg[ii]", 1)]},
    {"name": "molecule number used as a row of the eigenvector matrix (the repaired defect)", "kind": "mutant", "rule": "C11-J", "edits": [
        (ABSC, "            for vv in AG.vibindices[kk+1]:\n                kap[kk] += numpy.abs(SS[vv,n+1])**2", "            kap[kk] += numpy.abs(SS[kk+1,n+1])**2", 1)]},
    {"name": "participation summed with a comprehension over the state table", "kind": "twin", "edits": [
        (ABSC, "            for vv in AG.vibindices[kk+1]:\n                kap[kk] += numpy.abs(SS[vv,n+1])**2", "            for vv in list(AG.vibindices[kk+1]):\n                kap[kk] = kap[kk] + numpy.abs(SS[vv,n+1])**2", 1)]},
]

CASES += [
    {"name": "mock absorption calculator reads the axis in the current units (the repaired defect)", "kind": "mutant", "rule": "C11-G", "edits": [
        ("quantarhei/spectroscopy/mockabscalculator.py", "        with energy_units(\"int\"):\n            o1 = self.oa1.data \n", "        o1 = self.oa1.data \n", 1)]},
]

CASES += [
    {"name": "cross-correlation terms summed over the upper triangle only (seeded change of round 5)", "kind": "mutant", "rule": "C11-J", "edits": [
        (ABSC, "            for ll in range(Na):\n            \n                #nll = AG.monomers[ll].egcf_mapping[0]\n                \n                ct += kap[kk]*kap[ll]*cfm.get_coft(kk,ll)",
               "            ct += kap[kk]*kap[kk]*cfm.get_coft(kk,kk)\n            for ll in range(kk+1,Na):\n            \n                #nll = AG.monomers[ll].egcf_mapping[0]\n                \n                ct += kap[kk]*kap[ll]*cfm.get_coft(kk,ll)", 1)]},
    {"name": "upper triangle with the factor two", "kind": "twin", "edits": [
        (ABSC, "            for ll in range(Na):\n            \n                #nll = AG.monomers[ll].egcf_mapping[0]\n                \n                ct += kap[kk]*kap[ll]*cfm.get_coft(kk,ll)",
               "            ct += kap[kk]*kap[kk]*cfm.get_coft(kk,kk)\n            for ll in range(kk+1,Na):\n            \n                #nll = AG.monomers[ll].egcf_mapping[0]\n                \n                ct += 2.0*kap[kk]*kap[ll]*cfm.get_coft(kk,ll)", 1)]},
]

_INT = "quantarhei/builders/interactions.py"
_DD = ("    R = r1 - r2\n    RR = np.sqrt(np.dot(R,R))\n    \n    prf = 1.0/(4.0*const.pi*eps0_int)\n    \n"
       "    cc = (np.dot(d1,d2)/(RR**3)\n        - 3.0*np.dot(d1,R)*np.dot(d2,R)/(RR**5))\n")
CASES += [
    {"name": "direction vector normalised in place (seeded change of round 6)", "kind": "mutant", "rule": "C11-K", "edits": [
        (_INT, _DD, "    R = r1 - r2\n    RR = np.sqrt(np.dot(R,R))\n    R /= RR\n    prf = 1.0/(4.0*const.pi*eps0_int)\n"
                    "    cc = (np.dot(d1,d2) - 3.0*np.dot(d1,R)*np.dot(d2,R))/(RR**3)\n", 1)]},
    {"name": "direction vector normalised into a new array", "kind": "twin", "edits": [
        (_INT, _DD, "    R = r1 - r2\n    RR = np.sqrt(np.dot(R,R))\n    R = R/RR\n    prf = 1.0/(4.0*const.pi*eps0_int)\n"
                    "    cc = (np.dot(d1,d2) - 3.0*np.dot(d1,R)*np.dot(d2,R))/(RR**3)\n", 1)]},
]

CASES += [
    {"name": "state energy sums the excited molecules only (seeded change of round 7)", "kind": "mutant", "rule": "C11-L", "edits": [
        ("quantarhei/builders/aggregate_states.py", "        for nn in self.elsignature:\n            en += \\\n", "        for nn in self.elsignature:\n          if nn > 0:\n            en += \\\n", 1)]},
]

_CFM11 = "quantarhei/qm/corfunctions/cfmatrix.py"
CASES += [
    {"name": "function stored up to its cut-off index only (seeded change of round 8)", "kind": "mutant", "rule": "C11-M", "edits": [
        (_CFM11, "            self.data[iof,:] = fce.data\n", "            self.data[iof,:ic+1] = fce.data[:ic+1]\n", 1)]},
    {"name": "function stored with an explicit whole slice on both sides", "kind": "twin", "edits": [
        (_CFM11, "            self.data[iof,:] = fce.data\n", "            self.data[iof,:] = fce.data[:]\n", 1)]},
]

_AC11 = "quantarhei/spectroscopy/abscalculator.py"
CASES += [
    {"name": "monomer spectrum of the first transition only (the repaired defect)", "kind": "mutant", "rule": "C11-N", "edits": [
        (_AC11, "        for kk in range(1, self.system.nel):\n            # transition frequency\n", "        for kk in range(1, 2):\n            # transition frequency\n", 1)]},
    {"name": "monomer spectrum takes the environment of the first transition for every line", "kind": "mutant", "rule": "C11-N", "edits": [
        (_AC11, "                ct = self.system.get_egcf((0,kk))            \n", "                ct = self.system.get_egcf((0,1))            \n", 1)]},
    {"name": "monomer transitions counted by another loop variable", "kind": "twin", "edits": [
        (_AC11, "        for kk in range(1, self.system.nel):\n            # transition frequency\n", "        for kk in range(1, self.system.nel, 1):\n            # transition frequency\n", 1)]},
]

CASES += [
    {"name": "function stored as an owning copy", "kind": "twin", "edits": [
        (_CFM11, "            self.data[iof,:] = fce.data\n", "            self.data[iof,:] = fce.data.copy()\n", 1)]},
    {"name": "function stored through numpy.array", "kind": "twin", "edits": [
        (_CFM11, "            self.data[iof,:] = fce.data\n", "            self.data[iof,:] = numpy.array(fce.data)\n", 1)]},
    {"name": "owning copy of a leading part only", "kind": "mutant", "rule": "C11-M", "edits": [
        (_CFM11, "            self.data[iof,:] = fce.data\n", "            self.data[iof,:ic+1] = fce.data[:ic+1].copy()\n", 1)]},
]

_MA9 = "quantarhei/spectroscopy/mockabscalculator.py"
_MA9_OLD = "        self.TimeAxis.atype = atype\n        \n        self.tc = 0\n"
CASES += [
    {"name": "the mock calculator returns early for supplied pathways, before the type of the time axis is written back (seeded change of round 9)",
     "kind": "mutant", "rule": "C11-P", "edits": [(_MA9, _MA9_OLD,
        "        \n        self.tc = 0\n        if pathways is not None:\n            return\n        self.TimeAxis.atype = atype\n", 1)]},
    {"name": "the type of the time axis is not written back at all", "kind": "mutant", "rule": "C11-P", "edits": [(_MA9, _MA9_OLD,
        "        \n        self.tc = 0\n", 1)]},
    {"name": "the early return for supplied pathways comes after the type of the time axis was written back", "kind": "twin", "edits": [(_MA9, _MA9_OLD,
        "        self.TimeAxis.atype = atype\n        \n        self.tc = 0\n        if pathways is not None and lab is not None and False:\n            return\n", 1)]},
]
