"""Self-test cases for C05."""
M = "quantarhei/core/managers.py"
U = "quantarhei/core/units.py"
T = "quantarhei/utils/types.py"


def m(name, rule, path, old, new, count=1):
    return {"name": name, "kind": "mutant", "rule": rule, "edits": [(path, old, new, count)]}


def t(name, path, old, new, count=1):
    return {"name": name, "kind": "twin", "edits": [(path, old, new, count)]}


CASES = [
    m("build() switches units with raw calls again (the repaired defect)", "C05-U1", "quantarhei/builders/aggregate_base.py",
      "        with energy_units(\"int\"):\n            self._build(", "        Manager().set_current_units(\"energy\", \"int\")\n        if True:\n            self._build("),
    m("library function sets units and forgets", "C05-U1", "quantarhei/qm/hilbertspace/hamiltonian.py",
      "        HH = self.data\n        shape = HH.shape[0]", "        self.manager.set_current_units(\"energy\", \"int\")\n        HH = self.data\n        shape = HH.shape[0]"),
    m("library code writes current_units directly", "C05-U1", "quantarhei/core/frequency.py",
      "import numpy\n", "import numpy\n\ndef _force_units(obj):\n    obj.manager.current_units[\"energy\"] = \"1/cm\"\n"),
    m("exit restores a literal", "C05-U2", M, "        self.manager.set_current_units(\"energy\",self.units_backup.pop())",
      "        self.units_backup.pop()\n        self.manager.set_current_units(\"energy\",\"1/fs\")"),
    m("backup taken after the switch", "C05-U2", M,
      "        self.units_backup.append(self.manager.get_current_units(\"energy\"))\n        self.manager.set_current_units(self.utype,self.units)",
      "        self.manager.set_current_units(self.utype,self.units)\n        self.units_backup.append(self.manager.get_current_units(\"energy\"))"),
    m("single-slot backup (the repaired re-entrancy defect)", "C05-U2", M,
      "        self.units_backup.append(self.manager.get_current_units(\"length\"))", "        self.units_backup = [self.manager.get_current_units(\"length\")]"),
    m("length context restores energy units", "C05-U2", M,
      "        self.manager.set_current_units(\"length\",self.units_backup.pop())", "        self.manager.set_current_units(\"energy\",self.units_backup.pop())"),
    m("exit swallows exceptions", "C05-U2", M,
      "        if self.manager._in_eu_count == 0:\n            self.manager._in_energy_units_context = False\n",
      "        if self.manager._in_eu_count == 0:\n            self.manager._in_energy_units_context = False\n        return True\n"),
    m("counter not decremented", "C05-U2", M, "        self.manager._in_eu_count -= 1\n", ""),
    m("context entered by hand", "C05-U3", "quantarhei/builders/opensystem.py",
      "                with energy_units(\"int\"):\n                    ens = numpy.real(numpy.diag(H.data))",
      "                ctx = energy_units(\"int\")\n                ctx.__enter__()\n                if True:\n                    ens = numpy.real(numpy.diag(H.data))"),
    m("unit added without a factor", "C05-U4", M, "\"J\", \"SI\", \"nm\", \"Ha\", \"a.u.\"],\n             \"frequency\"",
      "\"J\", \"SI\", \"nm\", \"Ha\", \"a.u.\", \"kcal/mol\"],\n             \"frequency\""),
    m("to-current multiplies", "C05-U4", M, "        else:\n            return val/cfact \n", "        else:\n            return val*cfact \n"),
    m("nm branch dropped on the way back", "C05-U4", M,
      "        units = self.current_units[\"energy\"]\n        cfact = conversion_facs_energy[units]\n        \n        # special handling for nanometers\n        if units == \"nm\":",
      "        units = self.current_units[\"energy\"]\n        cfact = conversion_facs_energy[units]\n        \n        # special handling for nanometers\n        if units == \"nanometer\":"),
    m("length factor looked up for energy units", "C05-U4", M,
      "        return val/conversion_facs_length[self.current_units[\"length\"]]   ", "        return val/conversion_facs_length[self.current_units[\"energy\"]]   "),
    m("frequency and energy factors drift", "C05-U4", U,
      "    \"THz\"    : 2.0*const.pi*1.0e-03,\n    \"Hz\"", "    \"THz\"    : 2.0*const.pi*1.0e-04,\n    \"Hz\""),
    m("getter without conversion", "C05-U5", T,
      "        val = getattr(self,storage_name)\n        return self.convert_2_current_u(val) # This is a method defined in\n                                             # the class which handles units\n    @prop.setter\n    def prop(self,value):\n        if isinstance(value,dtype):",
      "        val = getattr(self,storage_name)\n        return val\n    @prop.setter\n    def prop(self,value):\n        if isinstance(value,dtype):"),
    m("setter stores raw value", "C05-U5", T,
      "            setattr(self,storage_name,self.convert_2_internal_u(value))", "            setattr(self,storage_name,value)"),
    m("class with units-managed property loses its converters", "C05-U5", "quantarhei/qm/hilbertspace/hamiltonian.py",
      "class Hamiltonian(SelfAdjointOperator, BasisManaged, EnergyUnitsManaged):", "class Hamiltonian(SelfAdjointOperator, BasisManaged):"),
    m("decorator tests the wrong flag", "C05-U6", "quantarhei/core/wrappers.py",
      "        if not m._in_energy_units_context and m._enforce_contexts:", "        if not m._in_eigenbasis_of_context and m._enforce_contexts:"),
    t("context bound to a name and used in with", "quantarhei/builders/opensystem.py",
      "                with energy_units(\"int\"):\n                    ens = numpy.real(numpy.diag(H.data))",
      "                ctx = energy_units(\"int\")\n                with ctx:\n                    ens = numpy.real(numpy.diag(H.data))"),
    t("conversion written as division by reciprocal", M, "        else:\n            return val*cfact\n", "        else:\n            return cfact*val\n"),
]


CASES += [
    {"name": "frequency step read before entering internal units", "kind": "mutant", "rule": 'C05-U7', "edits": [
        ('quantarhei/core/frequency.py', '        with energy_units("int"):\n\n            if self.atype == \'complete\':\n\n                times = numpy.fft.fftshift(\n                    numpy.fft.fftfreq(self.length, self.step/(2.0*numpy.pi)))\n', '        dw = self.step\n        with energy_units("int"):\n\n            if self.atype == \'complete\':\n\n                times = numpy.fft.fftshift(\n                    numpy.fft.fftfreq(self.length, dw/(2.0*numpy.pi)))\n', 1)]},
    {"name": "central frequency hoisted behind the branches but kept under internal units", "kind": "twin", "edits": [
        ('quantarhei/core/frequency.py', '                frequency_start = self.data[self.length//2]\n\n            else:\n                raise Exception("Unknown frequency axis type")\n', '\n            else:\n                raise Exception("Unknown frequency axis type")\n\n            frequency_start = self.data[self.length//2]\n', 1), ('quantarhei/core/frequency.py', '                frequency_start = self.data[self.length//2]\n\n\n            elif', '\n\n            elif', 1)]},
]

CASES += [
    {"name": "forward transform reads the frequency step in the caller's units (the repaired defect)", "kind": "mutant", "rule": "C05-U7", "edits": [
        ("quantarhei/core/dfunction.py", "            with energy_units(\"int\"):\n                Y = w.length*numpy.fft.fftshift(numpy.fft.ifft(\n                    numpy.fft.ifftshift(y)))*w.step/(numpy.pi*2.0)",
         "            if True:\n                Y = w.length*numpy.fft.fftshift(numpy.fft.ifft(\n                    numpy.fft.ifftshift(y)))*w.step/(numpy.pi*2.0)", 1)]},
]

CASES += [
    {"name": "values branch sums the reorganisation energies of the caller's dictionaries", "kind": "mutant", "rule": "C05-U8", "edits": [
        ("quantarhei/qm/corfunctions/correlationfunctions.py", "                for prms in self.params:\n                    self.lamb += prms[\"reorg\"]", "                for prms in p2calc:\n                    self.lamb += prms[\"reorg\"]", 1)]},
]

CASES += [
    {"name": "integro-differential propagator reads the Hamiltonian in the caller's units (the repaired defect)", "kind": "mutant", "rule": "C05-U9", "edits": [
        ("quantarhei/qm/liouvillespace/integrodiff/integrodiff.py", "        with energy_units(\"int\"):\n            ham = self.ham.data\n", "        if True:\n            ham = self.ham.data\n", 2)]},
    {"name": "a new calculator keeps a Hamiltonian and uses it in the caller's units", "kind": "mutant", "rule": "C05-U9", "edits": [
        ("quantarhei/qm/liouvillespace/liouvillian.py", "class Liouvillian(SuperOperator):",
         "class FreeEvolution:\n    def __init__(self, ham, time):\n        self.ham = ham\n        self.time = time\n    def phases(self):\n        import numpy\n        return numpy.exp(-1j*numpy.diag(self.ham.data)[None, :]*self.time.data[:, None])\n\n\nclass Liouvillian(SuperOperator):", 1)]},
    {"name": "a new calculator keeps a Hamiltonian and reads it under internal units", "kind": "twin", "edits": [
        ("quantarhei/qm/liouvillespace/liouvillian.py", "class Liouvillian(SuperOperator):",
         "class FreeEvolution:\n    def __init__(self, ham, time):\n        self.ham = ham\n        self.time = time\n    def phases(self):\n        import numpy\n        from ...core.managers import energy_units\n        with energy_units(\"int\"):\n            en = numpy.diag(self.ham.data)\n        return numpy.exp(-1j*en[None, :]*self.time.data[:, None])\n\n\nclass Liouvillian(SuperOperator):", 1)]},
]

MOL = "quantarhei/builders/molecules.py"
CASES += [
    m("transition width returned as stored (the repaired defect)", "C05-U10", MOL,
      "        return self.convert_energy_2_current_u(\n                               self.widths[transition[0], transition[1]])",
      "        return self.widths[transition[0], transition[1]]"),
    m("adiabatic coupling returned through a local, unconverted", "C05-U10", MOL,
      "        return self.convert_energy_2_current_u(\n                self.adiabatic_coupling[self.triangle.locate(state1,state2)])",
      "        val = self.adiabatic_coupling[self.triangle.locate(state1,state2)]\n        return val"),
    {"name": "aggregate reads the monomer widths outside internal units while it is built", "kind": "mutant", "rule": "C05-U10", "edits": [
        ("quantarhei/builders/aggregate_base.py", "        with energy_units(\"int\"):\n            self._build(", "        if True:\n            self._build(", 1)]},
    t("transition width converted by the manager", MOL,
      "        return self.convert_energy_2_current_u(\n                               self.widths[transition[0], transition[1]])",
      "        wd = Manager().convert_energy_2_current_u(self.widths[transition[0], transition[1]])\n        return wd"),
]

CASES += [
    m("converted coupling written back into the caller's record (the repaired defect)", "C05-U11", MOL,
      "        factor = [val, list(factor[1])]", "        factor[0] = val"),
    m("transition width setter rescales the submitted array in place", "C05-U11", MOL,
      "        cwidth = Manager().convert_energy_2_internal_u(width)\n", "        cwidth = Manager().convert_energy_2_internal_u(width)\n        transition[0] += 0\n"),
    t("record rebuilt as a tuple-to-list copy", MOL,
      "        factor = [val, list(factor[1])]", "        factor = [val] + [list(factor[1])]"),
]

CASES += [
    m("reciprocal wavelengths stored with the element type of the input (the repaired defect)", "C05-U4", M,
      "                ret = numpy.zeros(val.shape,\n                                  dtype=numpy.result_type(val.dtype, float))",
      "                ret = numpy.zeros(val.shape, dtype=val.dtype)", 2),
    m("array path of the wavelength branch forgets the factor", "C05-U4", M,
      "                return ret/cfact\n            except:            \n                return (1.0/val)/cfact\n            #if val == 0.0:",
      "                return ret\n            except:            \n                return (1.0/val)/cfact\n            #if val == 0.0:"),
    t("reciprocal wavelengths stored as floats", M,
      "                ret = numpy.zeros(val.shape,\n                                  dtype=numpy.result_type(val.dtype, float))",
      "                ret = numpy.zeros(val.shape, dtype=numpy.float64)", 2),
]

CASES += [
    {"name": "mode energy converted once and kept", "kind": "mutant", "rule": "C05-U12", "edits": [
        ("quantarhei/builders/modes.py", "            return self.convert_energy_2_current_u(self.submodes[N].omega)",
         "            if getattr(self, \"_en_conv\", None) is None:\n                self._en_conv = self.convert_energy_2_current_u(self.submodes[N].omega)\n            return self._en_conv", 1)]},
]

CASES += [
    {"name": "diagonalize stores eigenvalues of the converted matrix (the repaired defect)", "kind": "mutant", "rule": "C05-U13", "edits": [
        ("quantarhei/qm/hilbertspace/operators.py", "        self.data\n        dd,SS = numpy.linalg.eigh(self._data)", "        dd,SS = numpy.linalg.eigh(self.data)", 1)]},
    {"name": "diagonalize with cut-off writes through the property (the repaired defect)", "kind": "mutant", "rule": "C05-U13", "edits": [
        ("quantarhei/qm/hilbertspace/hamiltonian.py", "                self._data[ii,ii] = dd[ii]", "                self.data[ii,ii] = dd[ii]", 1)]},
    {"name": "diagonalize with cut-off takes eigenvalues of the converted matrix", "kind": "mutant", "rule": "C05-U13", "edits": [
        ("quantarhei/qm/hilbertspace/hamiltonian.py", "            dd,SS = numpy.linalg.eigh(self._data)\n            self._data = numpy.zeros(self._data.shape,dtype=REAL)", "            dd,SS = numpy.linalg.eigh(self.data)\n            self._data = numpy.zeros(self._data.shape,dtype=REAL)", 1)]},
    {"name": "diagonalize under internal units reads through the property", "kind": "twin", "edits": [
        ("quantarhei/qm/hilbertspace/operators.py", "        self.data\n        dd,SS = numpy.linalg.eigh(self._data)", "        with energy_units(\"int\"):\n            dd,SS = numpy.linalg.eigh(self.data)", 1),
        ("quantarhei/qm/hilbertspace/operators.py", "import numpy\n", "import numpy\nfrom ...core.managers import energy_units\n", 1)]},
]

CASES += [
    {"name": "Foerster propagation Hamiltonian created under the current units (the repaired defect)", "kind": "mutant", "rule": "C05-U14", "edits": [
        ("quantarhei/builders/opensystem.py", "                with energy_units(\"int\"):\n                    ham_0 = Hamiltonian(data=dat)\n                ham_0.set_rwa(ham.rwa_indices)\n\n            else:",
         "                ham_0 = Hamiltonian(data=dat)\n                ham_0.set_rwa(ham.rwa_indices)\n\n            else:", 1)]},
    {"name": "interpolated spectrum axis created under the current units (the repaired defect)", "kind": "mutant", "rule": "C05-U14", "edits": [
        ("quantarhei/spectroscopy/absbase.py", "        with energy_units(\"int\"):\n            waxis = FrequencyAxis(omin, length, step)", "        waxis = FrequencyAxis(omin, length, step)", 1)]},
    {"name": "axis created from points converted back to the current units", "kind": "twin", "edits": [
        ("quantarhei/spectroscopy/absbase.py", "        with energy_units(\"int\"):\n            waxis = FrequencyAxis(omin, length, step)",
         "        with energy_units(\"int\"):\n            w0 = omin\n            waxis = FrequencyAxis(w0, length, step)", 1)]},
]

CASES += [
    {"name": "state generator yields inside an internal-units block (seeded change of round 6)", "kind": "mutant", "rule": "C05-U17", "edits": [
        ("quantarhei/builders/aggregate_base.py", "        a = 0\n        for ess1 in self.elsignatures(mult=mult, mode=mode):\n            es1 = self.get_ElectronicState(ess1, a)\n            yield a,es1\n            a += 1\n",
         "        a = 0\n        with energy_units(\"int\"):\n            for ess1 in self.elsignatures(mult=mult, mode=mode):\n                es1 = self.get_ElectronicState(ess1, a)\n                yield a,es1\n                a += 1\n", 1)]},
    {"name": "state generator makes the state under internal units and yields outside", "kind": "twin", "edits": [
        ("quantarhei/builders/aggregate_base.py", "        a = 0\n        for ess1 in self.elsignatures(mult=mult, mode=mode):\n            es1 = self.get_ElectronicState(ess1, a)\n            yield a,es1\n            a += 1\n",
         "        a = 0\n        for ess1 in self.elsignatures(mult=mult, mode=mode):\n            with energy_units(\"int\"):\n                es1 = self.get_ElectronicState(ess1, a)\n            yield a,es1\n            a += 1\n", 1)]},
]

CASES += [
    {"name": "multiplicative short cut in convert() guards the source unit only (seeded change of round 7)", "kind": "mutant", "rule": "C05-U18", "edits": [
        ("quantarhei/core/units.py", "    m = Manager()\n    with energy_units(in_units):\n        e = m.convert_energy_2_internal_u(val)\n    \n    if to is None:",
         "    m = Manager()\n    if (to in conversion_facs_energy) and (in_units in conversion_facs_energy):\n        if in_units != \"nm\":\n            return (val*conversion_facs_energy[in_units])/conversion_facs_energy[to]\n    with energy_units(in_units):\n        e = m.convert_energy_2_internal_u(val)\n    \n    if to is None:", 1)]},
]

CASES += [
    {"name": "iu_energy converts wavelengths linearly (the repaired defect)", "kind": "mutant", "rule": "C05-U18", "edits": [
        ("quantarhei/core/managers.py", "            if units == \"nm\":\n                # wavelength is inversely proportional to energy\n                return (1.0/val)/x\n", "", 1)]},
]

_DF5 = "quantarhei/core/dfunction.py"
CASES += [
    {"name": "splines built on the axis points in the caller's units (the repaired defect)", "kind": "mutant", "rule": "C05-U12", "edits": [
        (_DF5, "        with energy_units(\"int\"):\n            xdata = self.axis.data\n        self._spline_r", "        xdata = self.axis.data\n        self._spline_r", 1)]},
    {"name": "internal axis points read through a second name", "kind": "twin", "edits": [
        (_DF5, "        with energy_units(\"int\"):\n            xdata = self.axis.data\n        self._spline_r", "        with energy_units(\"int\"):\n            xint = self.axis.data\n        xdata = xint\n        self._spline_r", 1)]},
]
