"""Self-test cases for C13."""
D = "quantarhei/core/dfunction.py"
T = "quantarhei/core/time.py"
F = "quantarhei/core/frequency.py"


def m(name, rule, path, old, new, count=1):
    return {"name": name, "kind": "mutant", "rule": rule, "edits": [(path, old, new, count)]}


def t(name, path, old, new, count=1):
    return {"name": name, "kind": "twin", "edits": [(path, old, new, count)]}


CASES = [
    m("fftshift on the input again (the repaired defect)", "C13-A", D,
      "                Y = t.length*numpy.fft.fftshift(numpy.fft.ifft(\n                numpy.fft.ifftshift(y)))*t.step",
      "                Y = t.length*numpy.fft.fftshift(numpy.fft.ifft(\n                numpy.fft.fftshift(y)))*t.step"),
    m("output shift dropped", "C13-A", D,
      "                Y = numpy.fft.fftshift(numpy.fft.fft(yy))*t.step", "                Y = numpy.fft.fft(yy)*t.step"),
    m("forward prefactor loses dt", "C13-B", D,
      "                Y = t.length*numpy.fft.fftshift(numpy.fft.ifft(\n                numpy.fft.ifftshift(y)))*t.step",
      "                Y = t.length*numpy.fft.fftshift(numpy.fft.ifft(\n                numpy.fft.ifftshift(y)))"),
    m("backward prefactor without 2 pi", "C13-B", D,
      "                Y = numpy.fft.fftshift(numpy.fft.fft(\n                    numpy.fft.ifftshift(y)))*w.step/(numpy.pi*2.0)",
      "                Y = numpy.fft.fftshift(numpy.fft.fft(\n                    numpy.fft.ifftshift(y)))*w.step"),
    m("upper-half factor 2 dropped", "C13-B", D,
      "                Y = 2.0*t.length*numpy.fft.fftshift(numpy.fft.ifft(yy))*t.step", "                Y = t.length*numpy.fft.fftshift(numpy.fft.ifft(yy))*t.step"),
    m("mirror index off by one", "C13-C", D,
      "                    yy[w.length-k-1] = numpy.conj(y[k+1])\n\n                Y = 2.0*t.length",
      "                    yy[w.length-k-1] = numpy.conj(y[k])\n\n                Y = 2.0*t.length"),
    m("mirror without conjugation", "C13-C", D,
      "                    yy[w.length-k-1] = numpy.conj(y[k+1])\n\n                Y = 2.0*t.length*numpy.fft",
      "                    yy[w.length-k-1] = y[k+1]\n\n                Y = 2.0*t.length*numpy.fft"),
    m("frequency axis step without 2 pi", "C13-D", T,
      "            frequencies = numpy.fft.fftshift(\n                (2.0*numpy.pi)*numpy.fft.fftfreq(self.length, self.step))",
      "            frequencies = numpy.fft.fftshift(\n                numpy.fft.fftfreq(self.length, self.step))"),
    m("stored time start is the first time point", "C13-D", T,
      "            time_start = self.data[self.length//2]", "            time_start = self.data[0]"),
    m("upper-half frequency axis with N points", "C13-D", T,
      "                (2.0*numpy.pi)*numpy.fft.fftfreq(2*self.length, self.step))", "                (2.0*numpy.pi)*numpy.fft.fftfreq(self.length, self.step))"),
    m("time axis from frequency axis starts at the wrong point", "C13-D", F,
      "                start = times[int(self.length/2)] + self.time_start", "                start = times[0] + self.time_start"),
    t("prefactor reordered", D,
      "                Y = t.length*numpy.fft.fftshift(numpy.fft.ifft(\n                numpy.fft.ifftshift(y)))*t.step",
      "                Y = t.step*t.length*numpy.fft.fftshift(numpy.fft.ifft(\n                numpy.fft.ifftshift(y)))"),
    t("start written as sum in other order", T,
      "            start = frequencies[0] + self.frequency_start\n\n            nosteps", "            start = self.frequency_start + frequencies[0]\n\n            nosteps"),
]


CASES += [
    {"name": "frequency step read before entering internal units", "kind": "mutant", "rule": 'C13-D', "edits": [
        ('quantarhei/core/frequency.py', '        with energy_units("int"):\n\n            if self.atype == \'complete\':\n\n                times = numpy.fft.fftshift(\n                    numpy.fft.fftfreq(self.length, self.step/(2.0*numpy.pi)))\n', '        dw = self.step\n        with energy_units("int"):\n\n            if self.atype == \'complete\':\n\n                times = numpy.fft.fftshift(\n                    numpy.fft.fftfreq(self.length, dw/(2.0*numpy.pi)))\n', 1)]},
    {"name": "central frequency hoisted behind the branches but kept under internal units", "kind": "twin", "edits": [
        ('quantarhei/core/frequency.py', '                frequency_start = self.data[self.length//2]\n\n            else:\n                raise Exception("Unknown frequency axis type")\n', '\n            else:\n                raise Exception("Unknown frequency axis type")\n\n            frequency_start = self.data[self.length//2]\n', 1), ('quantarhei/core/frequency.py', '                frequency_start = self.data[self.length//2]\n\n\n            elif', '\n\n            elif', 1)]},
]

CASES += [
    {"name": "frequency step read in the caller's units again (the repaired defect)", "kind": "mutant", "rule": "C13-D", "edits": [
        (D, "            with energy_units(\"int\"):\n                Y = numpy.fft.fftshift(numpy.fft.fft(\n                    numpy.fft.ifftshift(y)))*w.step/(numpy.pi*2.0)",
         "            if True:\n                Y = numpy.fft.fftshift(numpy.fft.fft(\n                    numpy.fft.ifftshift(y)))*w.step/(numpy.pi*2.0)", 1)]},
]

DF = "quantarhei/core/dfunction.py"
CASES += [
    {"name": "inverse transform kept on the function after the first call", "kind": "mutant", "rule": "C13-E", "edits": [
        (DF, "    def get_inverse_Fourier_transform(self):",
         "    def get_inverse_Fourier_transform(self):\n        if getattr(self, \"_ift\", None) is None:\n            self._ift = self._get_inverse_Fourier_transform()\n        return self._ift\n\n    def _get_inverse_Fourier_transform(self):", 1)]},
]

CASES += [
    {"name": "inverse transform on an upper-half time axis doubled (the repaired defect)", "kind": "mutant", "rule": "C13-B", "edits": [
        (DF, "                Y = numpy.fft.fftshift(numpy.fft.fft(yy))*t.step", "                Y = 2.0*numpy.fft.fftshift(numpy.fft.fft(yy))*t.step", 1)]},
    {"name": "step written first in the inverse upper-half branch", "kind": "twin", "edits": [
        (DF, "                Y = numpy.fft.fftshift(numpy.fft.fft(yy))*t.step", "                Y = t.step*numpy.fft.fftshift(numpy.fft.fft(yy))", 1)]},
]

CASES += [
    {"name": "min of a descending axis answers with its last point (seeded change of round 6)", "kind": "mutant", "rule": "C13-D", "edits": [
        ("quantarhei/core/valueaxis.py", "        \"\"\"Returns the minimum value on the axis\n\n        \"\"\"\n        return self.start",
         "        \"\"\"Returns the minimum value on the axis\n\n        \"\"\"\n        if self.step < 0:\n            return self.data[self.length-1]\n        return self.start", 1)]},
    {"name": "min answers with the first stored point", "kind": "twin", "edits": [
        ("quantarhei/core/valueaxis.py", "        \"\"\"Returns the minimum value on the axis\n\n        \"\"\"\n        return self.start",
         "        \"\"\"Returns the minimum value on the axis\n\n        \"\"\"\n        return self.data[0]", 1)]},
]

CASES += [
    {"name": "copy of a frequency axis forgets time_start (seeded change of round 7)", "kind": "mutant", "rule": "C13-F", "edits": [
        ("quantarhei/core/frequency.py", "        axis = FrequencyAxis(self.start, self.length, self.step,\n                             atype=self.atype, time_start=self.time_start)",
         "        with energy_units(\"int\"):\n            axis = FrequencyAxis(self.start, self.length, self.step,\n                                 atype=self.atype)", 1)]},
    {"name": "copy of a frequency axis made under internal units with all parameters", "kind": "twin", "edits": [
        ("quantarhei/core/frequency.py", "        axis = FrequencyAxis(self.start, self.length, self.step,\n                             atype=self.atype, time_start=self.time_start)",
         "        with energy_units(\"int\"):\n            axis = FrequencyAxis(self.start, self.length, self.step,\n                                 self.atype, self.time_start)", 1)]},
]

_TM13 = "quantarhei/core/time.py"
_SH13 = "            self.data[:] = self.data[:] - self.start\n            self.start = 0.0\n"
CASES += [
    {"name": "start reset before it is subtracted (seeded change of round 8)", "kind": "mutant", "rule": "C13-G", "edits": [
        (_TM13, _SH13, "            self.start = 0.0\n            self.data[:] = self.data[:] - self.start\n", 1)]},
    {"name": "start reset before the minimum (a property reading it) is subtracted (seeded change of round 8)", "kind": "mutant", "rule": "C13-G", "edits": [
        (_TM13, _SH13, "            self.start = 0.0\n            self.data[:] = self.data[:] - self.min\n", 1)]},
    {"name": "points moved, description left", "kind": "mutant", "rule": "C13-G", "edits": [
        (_TM13, _SH13, "            self.data[:] = self.data[:] - self.start\n", 1)]},
    {"name": "description moved, points left", "kind": "mutant", "rule": "C13-G", "edits": [
        (_TM13, _SH13, "            self.start = 0.0\n", 1)]},
    {"name": "old start kept in a local before the reset", "kind": "twin", "edits": [
        (_TM13, _SH13, "            s0 = self.start\n            self.start = 0.0\n            self.data[:] = self.data[:] - s0\n", 1)]},
    {"name": "points moved in place by the first point", "kind": "twin", "edits": [
        (_TM13, _SH13, "            self.data -= self.data[0]\n            self.start = 0.0\n", 1)]},
]

CASES += [
    {"name": "axis moved by rebinding the array of points", "kind": "twin", "edits": [
        (_TM13, _SH13, "            self.data = self.data - self.start\n            self.start = 0.0\n", 1)]},
]

_T9 = "quantarhei/core/time.py"
CASES += [
    {"name": "the start of the frequency axis is kept for complete time axes only (seeded change of round 9)", "kind": "mutant", "rule": "C13-H",
     "edits": [(_T9, "        self.frequency_start = frequency_start\n",
                "        if atype == \"complete\":\n            self.frequency_start = frequency_start\n        else:\n            self.frequency_start = 0.0\n", 1)]},
    {"name": "the start of the frequency axis is kept only when it is not zero (nothing stored otherwise)", "kind": "mutant", "rule": "C13-H",
     "edits": [(_T9, "        self.frequency_start = frequency_start\n",
                "        if frequency_start:\n            self.frequency_start = frequency_start\n", 1)]},
    {"name": "the start of the frequency axis is stored in both arms of a test", "kind": "twin",
     "edits": [(_T9, "        self.frequency_start = frequency_start\n",
                "        if atype == \"complete\":\n            self.frequency_start = frequency_start\n        else:\n            self.frequency_start = frequency_start\n", 1)]},
]
