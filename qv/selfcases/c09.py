"""Self-test cases for C09."""
C = "quantarhei/qm/corfunctions/correlationfunctions.py"
S = "quantarhei/qm/corfunctions/spectraldensities.py"


def m(name, rule, path, old, new, count=1):
    return {"name": name, "kind": "mutant", "rule": rule, "edits": [(path, old, new, count)]}


def t(name, path, old, new, count=1):
    return {"name": name, "kind": "twin", "edits": [(path, old, new, count)]}


CASES = [
    m("leaked ftype/params (the repaired defect)", "C09-A", C,
      "                for params, prms in zip(p2calc, self.params):\n                    \n                    ftype = prms[\"ftype\"]\n",
      "                for prms in self.params:\n"),
    m("dispatch on the first component's type", "C09-A", C,
      "                for params, prms in zip(p2calc, self.params):\n                    \n                    ftype = prms[\"ftype\"]\n",
      "                for params, prms in zip(p2calc, self.params):\n                    \n                    ftype = self.params[0][\"ftype\"]\n"),
    m("add_to_data forgets the reorganisation energy", "C09-B", C,
      "            self.lamb += other.lamb  # reorganization energy is additive\n            if other.cutoff_time",
      "            if other.cutoff_time"),
    m("only the first component of the right operand is recorded", "C09-B", S,
      "            for p in list(other.params):\n                self.params.append(p)\n", "            self.params.append(other.params[0])\n"),
    m("temperature check removed", "C09-B", C,
      "            if self.temperature != other.temperature:\n                raise Exception(\"Cannot add two correlation functions on different temperatures\")\n", ""),
    m("SpectralDensity rebuild outside internal units (the repaired defect)", "C09-B", S,
      "            with energy_units(\"int\"):\n                f = SpectralDensity(t1, params=self.params)", "            if True:\n                f = SpectralDensity(t1, params=self.params)"),
    m("__add__ adds into self instead of a copy", "C09-B", C,
      "            with energy_units(\"int\"):\n                f = CorrelationFunction(t1, params=self.params)\n            #f = self.deepcopy()\n            f.add_to_data(other)",
      "            f = self\n            f.add_to_data(other)"),
    m("builder overwrites the reorganisation energy", "C09-C", C,
      "        self._add_me(self.axis, cfce)\n\n        # update reorganization energy\n        self.lamb += lamb\n        \n        # check temperature and update cutoff time\n        self._set_temperature_and_cutoff_time(temperature, 5.0*ctime)     \n\n        \n    def _make_CP29",
      "        self._add_me(self.axis, cfce)\n\n        # update reorganization energy\n        self.lamb = lamb\n        \n        # check temperature and update cutoff time\n        self._set_temperature_and_cutoff_time(temperature, 5.0*ctime)     \n\n        \n    def _make_CP29"),
    m("B777 overwrites again (the repaired defect)", "C09-C", S,
      "        self.lamb += params[\"reorg\"]            ", "        self.lamb = params[\"reorg\"]            "),
    m("builder does not register temperature", "C09-C", C,
      "        # check temperature and update cutoff time\n        self._set_temperature_and_cutoff_time(temperature, 5.0*ctime) \n        \n\n\n\n    def _make_B777", "\n\n\n    def _make_B777"),
    m("numpy.math again (the repaired defect)", "C09-D", S, "(ss[ii]/(math.factorial(7)*2*(freq[ii]**4)))", "(ss[ii]/(numpy.math.factorial(7)*2*(freq[ii]**4)))"),
    t("loop variables renamed consistently", C,
      "                for params, prms in zip(p2calc, self.params):\n                    \n                    ftype = prms[\"ftype\"]\n",
      "                for params, prms in zip(p2calc, self.params):\n                    \n                    ftype = prms.get(\"ftype\")\n"),
]

CASES += [
    m("cut-off time of one component becomes the default of the next", "C09-C", C,
      "        if \"cutoff-time\" in params.keys():\n            ctime = params[\"cutoff-time\"]\n        else:\n            ctime = self.axis.max\n",
      "        if \"cutoff-time\" in params.keys():\n            self._ctime = params[\"cutoff-time\"]\n        elif not hasattr(self, \"_ctime\"):\n            self._ctime = self.axis.max\n        ctime = self._ctime\n"),
]

CASES += [
    m("raw parameters to the Underdamped spectral density (the repaired defect)", "C09-E", S,
      "                    self._make_underdamped(prms)", "                    self._make_underdamped(params)"),
    m("raw parameters to the CP29 spectral density (the repaired defect)", "C09-E", S,
      "                    self._make_CP29_spectral_density(prms, values)", "                    self._make_CP29_spectral_density(params, values)"),
    m("Underdamped correlation function adds the unconverted reorganisation energy (the repaired defect)", "C09-E", C,
      "        ctime = params[\"gamma\"]\n        \n        # use the units in which params was defined\n        lamb = self.convert_energy_2_internal_u(params[\"reorg\"])\n        time = self.axis #.data\n\n        if values is not None:\n            cfce = values\n        else:\n            # Make it via SpectralDensity\n            fa = SpectralDensity(time, params)\n            \n            cf = fa.get_CorrelationFunction(temperature=temperature)\n            \n            cfce = cf.data\n\n         # this is a call",
      "        ctime = params[\"gamma\"]\n        \n        # use the units in which params was defined\n        lamb = params[\"reorg\"]\n        time = self.axis #.data\n\n        if values is not None:\n            cfce = values\n        else:\n            # Make it via SpectralDensity\n            fa = SpectralDensity(time, params)\n            \n            cf = fa.get_CorrelationFunction(temperature=temperature)\n            \n            cfce = cf.data\n\n         # this is a call"),
    m("overdamped correlation function built from a dictionary converted twice", "C09-E", C,
      "                        self._make_underdamped_brownian(prms) #, values=values)", "                        self._make_underdamped_brownian(params) #, values=values)"),
    m("self.energy_units again (the repaired defect)", "C09-D", C,
      "        lamb = self.convert_energy_2_internal_u(params[\"reorg\"])\n        print('correlation function lamb",
      "        lamb = self.manager.iu_energy(params[\"reorg\"], units=self.energy_units)\n        print('correlation function lamb"),
    m("CP29 overwrites again (the repaired defect)", "C09-C", S,
      "            self._add_me(self.axis, cfce)\n\n        # this component adds nothing to the zero-frequency limits\n        self.lamb += lamb",
      "            self._make_me(self.axis, cfce)\n\n        # this component adds nothing to the zero-frequency limits\n        self.lamb = lamb"),
]

CASES += [
    m("running integral by a quadrature rule without the axis step", "C09-F", C,
      "    splr = interp.UnivariateSpline(time.data,\n                                   preal, s=0).antiderivative()(time.data)",
      "    import scipy.integrate\n    splr = scipy.integrate.cumulative_trapezoid(preal, initial=0.0)", 2),
    t("running integral by a quadrature rule with the axis data", C,
      "    splr = interp.UnivariateSpline(time.data,\n                                   preal, s=0).antiderivative()(time.data)",
      "    import scipy.integrate\n    splr = scipy.integrate.cumulative_trapezoid(preal, x=time.data, initial=0.0)", 2),
    m("values branch sums the reorganisation energies of the caller's dictionaries", "C09-E", C,
      "                for prms in self.params:\n                    self.lamb += prms[\"reorg\"]", "                for prms in p2calc:\n                    self.lamb += prms[\"reorg\"]"),
]

CASES += [
    {"name": "temperatures compared after the data were added (the repaired defect)", "kind": "mutant", "rule": "C09-B", "edits": [
        ("quantarhei/qm/corfunctions/correlationfunctions.py",
         "            # refuse before anything is changed\n            if self.temperature != other.temperature:\n                raise Exception(\"Cannot add two correlation functions on different temperatures\")\n    \n            self.data += other.data\n            # interpolation splines, if any, belong to the earlier data\n            self._splines_initialized = False\n            self.lamb += other.lamb  # reorganization energy is additive\n",
         "            self.data += other.data\n            # interpolation splines, if any, belong to the earlier data\n            self._splines_initialized = False\n            self.lamb += other.lamb  # reorganization energy is additive\n            if self.temperature != other.temperature:\n                raise Exception(\"Cannot add two correlation functions on different temperatures\")\n    \n", 1)]},
    {"name": "spectral density copied under the caller's units (the repaired defect)", "kind": "mutant", "rule": "C09-E", "edits": [
        ("quantarhei/qm/corfunctions/spectraldensities.py",
         "        with energy_units(\"int\"):\n            sd = SpectralDensity(self.axis, self.params)\n        return sd",
         "        sd = SpectralDensity(self.axis, self.params)\n        return sd", 1)]},
    {"name": "correlation function derived from a spectral density rebuilt outside internal units", "kind": "mutant", "rule": "C09-E", "edits": [
        ("quantarhei/qm/corfunctions/spectraldensities.py",
         "            cfce = CorrelationFunction(time, params, values=cftd.data)\n        return cfce",
         "            pass\n        cfce = CorrelationFunction(time, params, values=cftd.data)\n        return cfce", 1)]},
    {"name": "copy made from a copied parameter list under internal units", "kind": "twin", "edits": [
        ("quantarhei/qm/corfunctions/spectraldensities.py",
         "        with energy_units(\"int\"):\n            sd = SpectralDensity(self.axis, self.params)\n        return sd",
         "        plist = [dict(p) for p in self.params]\n        with energy_units(\"int\"):\n            sd = SpectralDensity(self.axis, plist)\n        return sd", 1)]},
    {"name": "temperatures compared before the axes", "kind": "twin", "edits": [
        ("quantarhei/qm/corfunctions/correlationfunctions.py",
         "        t1 = self.axis\n        t2 = other.axis\n        if t1 == t2:\n            \n            # refuse before anything is changed\n            if self.temperature != other.temperature:\n                raise Exception(\"Cannot add two correlation functions on different temperatures\")\n    \n",
         "        t1 = self.axis\n        t2 = other.axis\n        if self.temperature != other.temperature:\n            raise Exception(\"Cannot add two correlation functions on different temperatures\")\n        if t1 == t2:\n            \n", 1)]},
]

CASES += [
    {"name": "Fourier transform object keeps the last component only (the repaired defect)", "kind": "mutant", "rule": "C09-A", "edits": [
        ("quantarhei/qm/corfunctions/correlationfunctions.py",
         "            # all components are kept (not only the last one)\n            self.params.append(prms)\n",
         "        self.params = prms\n", 1)]},
    {"name": "odd part built after the loop from the last transform", "kind": "mutant", "rule": "C09-A", "edits": [
        ("quantarhei/qm/corfunctions/correlationfunctions.py",
         "                ndata = numpy.real(ftvals.data)\n\n            self._add_me(self.axis,ndata)\n\n\nclass EvenFTCorrelationFunction",
         "                ndata = numpy.real(ftvals.data)\n\n        self._add_me(self.axis,ndata)\n\n\nclass EvenFTCorrelationFunction", 1)]},
    {"name": "converted components collected in a local list first", "kind": "twin", "edits": [
        ("quantarhei/qm/corfunctions/correlationfunctions.py",
         "            # all components are kept (not only the last one)\n            self.params.append(prms)\n",
         "            converted = self.params\n            converted.append(prms)\n", 1)]},
]

CFM = "quantarhei/qm/corfunctions/cfmatrix.py"
_MEMO_OLD = "        temp = self._check_temperature_consistency()\n        return temp\n"
_MEMO_NEW = ("        if getattr(self, \"_temp_known\", None) is None:\n"
             "            self._temp_known = self._check_temperature_consistency()\n"
             "        return self._temp_known\n")
CASES += [
    {"name": "common temperature of the matrix kept after the first query", "kind": "mutant", "rule": "C09-G", "edits": [
        (CFM, _MEMO_OLD, _MEMO_NEW, 1)]},
    {"name": "common temperature kept, reset by set_correlation_function only (storage re-initialisation forgotten)", "kind": "mutant", "rule": "C09-G", "edits": [
        (CFM, _MEMO_OLD, _MEMO_NEW, 1),
        (CFM, "            self.cfuncs[iof]  = fce\n", "            self.cfuncs[iof]  = fce\n            self._temp_known = None\n", 1)]},
    {"name": "common temperature kept and reset by every writer of the stored functions", "kind": "twin", "edits": [
        (CFM, _MEMO_OLD, _MEMO_NEW, 1),
        (CFM, "            self.cfuncs[iof]  = fce\n", "            self.cfuncs[iof]  = fce\n            self._temp_known = None\n", 1),
        (CFM, "        self.cfuncs = [None]*(nof+1)\n", "        self.cfuncs = [None]*(nof+1)\n        self._temp_known = None\n", 1),
        (CFM, "            self.cfuncs[i] = save_cfunc[i]\n", "            self.cfuncs[i] = save_cfunc[i]\n            self._temp_known = None\n", 1)]},
]

CASES += [
    {"name": "requested temperature written into the stored dictionaries (the repaired defect)", "kind": "mutant", "rule": "C09-H", "edits": [
        (S, "            prms = dict(prms)\n            if temperature is not None:", "            if temperature is not None:", 1)]},
    {"name": "value-defined density keeps the caller's parameter list (the repaired defect)", "kind": "mutant", "rule": "C09-H", "edits": [
        (S, "                self.params = []\n                self.lamb = 0.0\n                for p in plist:", "                self.params = params\n                self.lamb = 0.0\n                for p in plist:", 1)]},
    {"name": "stored dictionaries copied with the copy method", "kind": "twin", "edits": [
        (S, "            prms = dict(prms)\n            if temperature is not None:", "            prms = prms.copy()\n            if temperature is not None:", 1)]},
]

CASES += [
    {"name": "FT correlation function with a shorter table of energy parameters (the repaired defect)", "kind": "mutant", "rule": "C09-E", "edits": [
        ("quantarhei/qm/corfunctions/correlationfunctions.py", "    energy_params = CorrelationFunction.energy_params\n", "    energy_params = (\"reorg\", \"omega\", \"freq\")\n", 1)]},
    {"name": "spectral density forgets gamma", "kind": "mutant", "rule": "C09-E", "edits": [
        ("quantarhei/qm/corfunctions/spectraldensities.py", "                     \"freq1\", \"freq2\", \"gamma\")", "                     \"freq1\", \"freq2\")", 1)]},
]

CASES += [
    {"name": "spectral density measures its reorganisation energy in internal units (the repaired defect)", "kind": "mutant", "rule": "C09-I", "edits": [
        ("quantarhei/qm/corfunctions/spectraldensities.py", "        return self.convert_energy_2_current_u(integ)\n", "        return integ\n", 1)]},
]

DFN = "quantarhei/core/dfunction.py"
CASES += [
    {"name": "in-place sum of correlation functions keeps the old splines (the repaired defect)", "kind": "mutant", "rule": "C09-G", "edits": [
        ("quantarhei/qm/corfunctions/correlationfunctions.py", "            self.data += ocor.data\n            # interpolation splines, if any, belong to the earlier data\n            self._splines_initialized = False\n", "            self.data += ocor.data\n", 1)]},
    {"name": "apply_to_data resets a misspelt attribute (the repaired defect)", "kind": "mutant", "rule": "C09-G", "edits": [
        (DFN, "        self.data = func(self.data)\n        # interpolation splines, if any, belong to the earlier data\n        self._splines_initialized = False\n", "        self.data = func(self.data)\n        self._splines_initiated = False\n", 1)]},
    {"name": "load_data hook does not drop the splines", "kind": "mutant", "rule": "C09-G", "edits": [
        (DFN, "            self._has_imag = bool(numpy.iscomplexobj(self.data))\n        self._splines_initialized = False\n", "            self._has_imag = bool(numpy.iscomplexobj(self.data))\n", 1)]},
]

CASES += [
    {"name": "even FT function records the caller's dictionary (the repaired defect)", "kind": "mutant", "rule": "C09-H", "edits": [
        ("quantarhei/qm/corfunctions/correlationfunctions.py", "            self.params.append(dict(params))\n", "            self.params.append(params)\n", 2)]},
    {"name": "conversion skipped under internal units keeps the caller's dictionary (seeded change of round 5)", "kind": "mutant", "rule": "C09-H", "edits": [
        ("quantarhei/qm/corfunctions/correlationfunctions.py", "                    prms = {}\n                    for key in params.keys():\n                        if key in self.energy_params:\n                            prms[key] = self.convert_energy_2_internal_u(params[key])\n                        else:\n                            prms[key] = params[key]\n                            \n                except:",
         "                    if self.manager.get_current_units(\"energy\") == \"int\":\n                        prms = params\n                    else:\n                        prms = {}\n                        for key in params.keys():\n                            if key in self.energy_params:\n                                prms[key] = self.convert_energy_2_internal_u(params[key])\n                            else:\n                                prms[key] = params[key]\n                            \n                except:", 1)]},
]

CASES += [
    {"name": "value-defined spectral density adds the raw reorganisation energy (the repaired defect)", "kind": "mutant", "rule": "C09-E", "edits": [
        ("quantarhei/qm/corfunctions/spectraldensities.py", "                    self.lamb += cprm[\"reorg\"]", "                    self.lamb += p[\"reorg\"]", 1)]},
]

CASES += [
    {"name": "added component initialises a real-valued function again (seeded change of round 6)", "kind": "mutant", "rule": "C09-J", "edits": [
        ("quantarhei/core/dfunction.py", "        if self._has_imag is None:\n            self._make_me(x,y)", "        if not self._has_imag:\n            self._make_me(x,y)", 1)]},
    {"name": "added component initialises when the function is initialised", "kind": "mutant", "rule": "C09-J", "edits": [
        ("quantarhei/core/dfunction.py", "        if self._has_imag is None:\n            self._make_me(x,y)", "        if self._has_imag is not None:\n            self._make_me(x,y)", 1)]},
    {"name": "uninitialised test written with not ... is not None", "kind": "twin", "edits": [
        ("quantarhei/core/dfunction.py", "        if self._has_imag is None:\n            self._make_me(x,y)", "        if not (self._has_imag is not None):\n            self._make_me(x,y)", 1)]},
]

CASES += [
    {"name": "places of all functions in one shared list (the repaired defect)", "kind": "mutant", "rule": "C09-K", "edits": [
        ("quantarhei/qm/corfunctions/cfmatrix.py", "        self.where = [[] for _i in range(nof+1)]", "        self.where = [[]]*(nof+1)", 1)]},
    {"name": "functions kept in a list of one shared dictionary", "kind": "mutant", "rule": "C09-K", "edits": [
        ("quantarhei/qm/corfunctions/cfmatrix.py", "        self.cfuncs = [None]*(nof+1)", "        self.cfuncs = [None]*(nof+1)\n        self._notes = [{}]*(nof+1)", 1)]},
    {"name": "places kept in lists made one by one", "kind": "twin", "edits": [
        ("quantarhei/qm/corfunctions/cfmatrix.py", "        self.where = [[] for _i in range(nof+1)]", "        self.where = []\n        for _i in range(nof+1):\n            self.where.append([])", 1)]},
]

CASES += [
    {"name": "correlation time read with a key no builder uses (the repaired defect)", "kind": "mutant", "rule": "C09-L", "edits": [
        (C, "        return self.params[0][\"cortime\"]", "        return self.params[0][\"ctime\"]", 1)]},
    {"name": "components copied from the live list (the repaired defect)", "kind": "mutant", "rule": "C09-L", "edits": [
        (C, "            for p in list(other.params):\n                self.params.append(p)\n", "            for p in other.params:\n                self.params.append(p)\n", 1)]},
    {"name": "list of components indexed with a string (the repaired defect)", "kind": "mutant", "rule": "C09-L", "edits": [
        (S, "        return all(p[\"ftype\"] in self.analytical_types for p in self.params)", "        return bool(self.params[\"ftype\"] in self.analytical_types)", 1)]},
    {"name": "self-addition taken out before the copying loop", "kind": "twin", "edits": [
        (C, "            for p in list(other.params):\n                self.params.append(p)\n", "            if other is self:\n                self.params.extend(list(self.params))\n            else:\n                for p in other.params:\n                    self.params.append(p)\n", 1)]},
]

_SD9 = "quantarhei/qm/corfunctions/spectraldensities.py"
CASES += [
    {"name": "requested temperature offered as a default to the component (seeded change of round 8)", "kind": "mutant", "rule": "C09-M", "edits": [
        (_SD9, "            if temperature is not None:\n                prms[\"T\"] = temperature\n", "            if temperature is not None:\n                prms.setdefault(\"T\", temperature)\n", 1)]},
    {"name": "requested temperature used where the component has none", "kind": "mutant", "rule": "C09-M", "edits": [
        (_SD9, "            if temperature is not None:\n                prms[\"T\"] = temperature\n", "            if temperature is not None:\n                prms[\"T\"] = prms.get(\"T\", temperature)\n", 1)]},
    {"name": "requested temperature written with update()", "kind": "twin", "edits": [
        (_SD9, "            if temperature is not None:\n                prms[\"T\"] = temperature\n", "            if temperature is not None:\n                prms.update({\"T\": temperature})\n", 1)]},
]

_CF9N = "quantarhei/qm/corfunctions/correlationfunctions.py"
CASES += [
    {"name": "odd Fourier part accepts components at any temperatures (the repaired defect)", "kind": "mutant", "rule": "C09-N", "edits": [
        (_CF9N, "            elif cfce.temperature != temp0:\n                raise Exception(\"Inconsistent temperature! \"\n                                +\"Temperatures of all \"\n                                +\"components have to be the same\")\n\n            cfce.data = 1j*numpy.imag(cfce.data)\n",
                "            elif cfce.temperature != temp0:\n                pass\n\n            cfce.data = 1j*numpy.imag(cfce.data)\n", 1)]},
]

CASES += [
    {"name": "requested temperature written as a float", "kind": "twin", "edits": [
        (_SD9, "            if temperature is not None:\n                prms[\"T\"] = temperature\n", "            if temperature is not None:\n                prms[\"T\"] = float(temperature)\n", 1)]},
]
