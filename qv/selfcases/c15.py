"""Self-test cases for C15."""
P = "quantarhei/qm/propagators/rdmpropagator.py"
O = "quantarhei/builders/opensystem.py"
H = "quantarhei/qm/liouvillespace/heom.py"


def m(name, rule, path, old, new, count=1):
    return {"name": name, "kind": "mutant", "rule": rule, "edits": [(path, old, new, count)]}


def t(name, path, old, new, count=1):
    return {"name": name, "kind": "twin", "edits": [(path, old, new, count)]}


CASES = [
    m("HEOM reset removed (the repaired defect)", "C15-E1", H, "        self.hy.reset_ados()\n        \n        if free_hierarchy:", "        if free_hierarchy:"),
    m("evolution superoperator not re-initialised", "C15-E1", "quantarhei/qm/liouvillespace/evolutionsuperoperator.py",
      "        self._initialize_data()\n         \n", "        \n"),
    m("Nref persists again (the repaired defect)", "C15-E2", P,
      "            Nref_saved = self.Nref\n            self.setDtRefinement(Nref)\n            try:\n                return self.propagate(rhoi, method=method, mdata=mdata)\n            finally:\n                self.setDtRefinement(Nref_saved)\n",
      "            self.setDtRefinement(Nref)\n"),
    m("propagation caches a flag on the propagator", "C15-E2", P,
      "        (pr, rho1, rho2) = self._INIT_EXP(rhoi)\n        \n        HH = self._INIT_RWA()\n        \n        if self.has_PDeph:\n            self._BOOT_DEPH()\n        \n        indx = 1\n        for ii in self.TimeAxis.data[1:self.Nt]:",
      "        (pr, rho1, rho2) = self._INIT_EXP(rhoi)\n        \n        HH = self._INIT_RWA()\n        self.last_order = L\n        \n        if self.has_PDeph:\n            self._BOOT_DEPH()\n        \n        indx = 1\n        for ii in self.TimeAxis.data[1:self.Nt]:"),
    m("dephasing factors not rebuilt", "C15-E2", P,
      "        if self.has_PDeph:\n            \n            self._BOOT_DEPH()\n            \n            IR = 0.0", "        if self.has_PDeph:\n            \n            IR = 0.0"),
    m("propagator rescales the Hamiltonian in place", "C15-E3", P,
      "        if self.Hamiltonian.has_rwa:\n            HH = self.Hamiltonian.get_RWA_data()\n        else:\n            HH = self.Hamiltonian.data\n\n\n        if self.has_NonHerm:",
      "        if self.Hamiltonian.has_rwa:\n            HH = self.Hamiltonian.get_RWA_data()\n        else:\n            HH = self.Hamiltonian.data\n            self.Hamiltonian._data[0,0] = 0.0\n\n\n        if self.has_NonHerm:"),
    m("tensor constructor diagonalises the caller's Hamiltonian", "C15-E3", "quantarhei/qm/liouvillespace/redfieldtensor.py",
      "            hD, SS = numpy.linalg.eigh(ham.data)   \n               \n        #\n        #  Find all transition frequencies\n        # \n        Om = numpy.zeros((Na, Na))\n        for a in range(Na):\n            for b in range(Na):\n                Om[a,b] = hD[a] - hD[b]\n                \n        # number of baths - one per monomer            \n        Nb = sbi.N\n\n        #\n        # Site K_m operators ",
      "            hD, SS = numpy.linalg.eigh(ham.data)   \n            ham.diagonalize()\n               \n        #\n        #  Find all transition frequencies\n        # \n        Om = numpy.zeros((Na, Na))\n        for a in range(Na):\n            for b in range(Na):\n                Om[a,b] = hD[a] - hD[b]\n                \n        # number of baths - one per monomer            \n        Nb = sbi.N\n\n        #\n        # Site K_m operators "),
    m("field frequency not restored", "C15-E3", P,
      "            if Nfields > 1:\n                self.EField[0].restore_rwa()\n            else:            \n                self.EField.restore_rwa()\n            \n            # upper and lower triagle",
      "            if Nfields > 1:\n                self.EField[0].restore_rwa()\n            \n            # upper and lower triagle"),
    m("state vector propagator normalises the caller's vector", "C15-E3", "quantarhei/qm/propagators/svpropagator.py",
      "        pr = StateVectorEvolution(self.timeaxis, psii)\n        \n        psi1 = psii.data\n        psi2 = psii.data\n        \n        #\n        # RWA is applied here\n        #\n        if self.ham.has_rwa:\n            HH = self.ham.get_RWA_data()\n        else:\n            HH = self.ham.data      \n        \n        indx = 1\n        for ii in range(1,self.Nt):\n            \n            for jj in range(0,self.Nref):\n                \n                for ll in range(1,L+1):\n                    pref = (self.dt/ll)\n                    psi1 = -1j*pref*numpy.dot(HH,psi1)",
      "        pr = StateVectorEvolution(self.timeaxis, psii)\n        psii.data[0] = 1.0\n        \n        psi1 = psii.data\n        psi2 = psii.data\n        \n        #\n        # RWA is applied here\n        #\n        if self.ham.has_rwa:\n            HH = self.ham.get_RWA_data()\n        else:\n            HH = self.ham.data      \n        \n        indx = 1\n        for ii in range(1,self.Nt):\n            \n            for jj in range(0,self.Nref):\n                \n                for ll in range(1,L+1):\n                    pref = (self.dt/ll)\n                    psi1 = -1j*pref*numpy.dot(HH,psi1)", 2),
    m("unprotect_basis dropped in one branch", "C15-E4", O,
      "                    if secular_relaxation:\n                        relaxT.secularize()\n\n                ham.unprotect_basis()\n\n\n            self.RelaxationTensor = relaxT\n            self.RelaxationHamiltonian = ham\n            self._has_relaxation_tensor = True\n            self._relaxation_theory = \"standard_Redfield\"",
      "                    if secular_relaxation:\n                        relaxT.secularize()\n\n\n\n            self.RelaxationTensor = relaxT\n            self.RelaxationHamiltonian = ham\n            self._has_relaxation_tensor = True\n            self._relaxation_theory = \"standard_Redfield\""),
    m("recover before unprotect (nesting order)", "C15-E4", O,
      "                ham.unprotect_basis()\n                ham.recover_cutoff_coupling()\n\n            else:",
      "                ham.recover_cutoff_coupling()\n                ham.unprotect_basis()\n\n            else:"),
    t("alias of the Hamiltonian only read", P,
      "        if self.Hamiltonian.has_rwa:\n            HH = self.Hamiltonian.get_RWA_data()\n        else:\n            HH = self.Hamiltonian.data\n\n\n        if self.has_NonHerm:",
      "        hobj = self.Hamiltonian\n        if hobj.has_rwa:\n            HH = hobj.get_RWA_data()\n        else:\n            HH = hobj.data\n\n\n        if self.has_NonHerm:"),
]

CASES += [
    m("refinement setter ignores an unchanged value", "C15-E2", P,
      "        self.Nref = Nref\n        self.dt = self.Odt/self.Nref", "        if Nref == self.Nref:\n            return\n        self.Nref = Nref\n        self.Nref = max(Nref, 2)\n        self.dt = self.Odt/self.Nref"),
]

CASES += [
    m("rate kernel transforms the shared system-bath operators in place", "C15-E3", "quantarhei/qm/liouvillespace/rates/redfieldrates.py",
      "        KI = self.sbi.KK.copy()", "        KI = self.sbi.KK"),
]

CASES += [
    {"name": "tensor builder returns the stored tensor when only the theory matches", "kind": "mutant", "rule": "C15-E5", "edits": [
        (O, "        from ..qm import LindbladForm\n\n        from ..core.managers import eigenbasis_of\n\n        if self._built:\n            ham = self.get_Hamiltonian()", "        from ..qm import LindbladForm\n\n        from ..core.managers import eigenbasis_of\n\n        if self._has_relaxation_tensor and relaxation_theory == getattr(self, \"_last_theory\", None):\n            return self.RelaxationTensor, self.RelaxationHamiltonian\n        self._last_theory = relaxation_theory\n        if self._built:\n            ham = self.get_Hamiltonian()", 1)]},
]

CASES += [
    {"name": "state-vector refinement divides the current step (seeded change of round 5)", "kind": "mutant", "rule": "C15-E7", "edits": [
        ("quantarhei/qm/propagators/svpropagator.py", "        self.dt = self.Odt/self.Nref", "        self.dt = self.dt/self.Nref", 1)]},
]

CASES += [
    {"name": "kernel accumulates into the caller's initial vector (the repaired defect)", "kind": "mutant", "rule": "C15-E3", "edits": [
        ("quantarhei/qm/propagators/oqssvpropagator.py", "    psi2 = numpy.array(psii)\n", "    psi2 = psii\n", 1)]},
]

_NEF15 = "quantarhei/qm/liouvillespace/nefoerstertensor.py"
CASES += [
    {"name": "initial term accumulated into a buffer kept on the tensor (seeded change of round 8)", "kind": "mutant", "rule": "C15-E8", "edits": [
        (_NEF15, "        Na = self.II.shape[1]\n        Nt = self.II.shape[0]\n        II = numpy.zeros((Nt,Na,Na), dtype=COMPLEX)\n", "        Na = self.II.shape[1]\n        Nt = self.II.shape[0]\n        II = self.Iterm\n", 1)]},
    {"name": "initial term accumulated into a buffer zeroed at the start of the call", "kind": "twin", "edits": [
        (_NEF15, "        Na = self.II.shape[1]\n        Nt = self.II.shape[0]\n        II = numpy.zeros((Nt,Na,Na), dtype=COMPLEX)\n", "        Na = self.II.shape[1]\n        Nt = self.II.shape[0]\n        self.Iterm = numpy.zeros((Nt,Na,Na), dtype=COMPLEX)\n        II = self.Iterm\n", 1)]},
]
