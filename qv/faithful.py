"""Faithful stores: a setter keeps the array it is given, not a part of it.

The value a method stores in the attributes named is followed back to the parameter it comes from.  On the way it may be
copied, converted to an array, cast to a complex type or to its own type, reshaped to its own shape - operations that
keep every value.  Taking the real or imaginary part, the modulus, rounding, clipping, a cast to a real or integer type
keep a part of it: the object then answers with something else than what it was given (whether the part dropped is
'small' is a statement about the scale of the data, which the object does not know).
"""
import ast

from .loader import norm

P, LOSSY, OTHER = "P", "LOSSY", "OTHER"

_KEEP = ("copy", "array", "asarray", "ascontiguousarray", "asfortranarray", "atleast_2d", "deepcopy", "conj", "conjugate")
_DROP = ("real", "imag", "abs", "absolute", "fabs", "round", "around", "round_", "rint", "clip", "floor", "ceil", "trunc",
         "nan_to_num", "real_if_close", "float32", "float64", "float", "int", "sign", "angle")
_COMPLEX = ("complex", "complex128", "complex64", "COMPLEX", "cdouble", "clongdouble", "dtype")


def _worst(a, b):
    if LOSSY in (a, b):
        return LOSSY
    if P in (a, b):
        return P
    return OTHER


class Tracer:
    def __init__(self, param, attrs):
        self.param, self.attrs = param, set(attrs)
        self.findings = []      # (store statement, lossy node)
        self.stores = 0
        self.lossy_at = {}

    def ev(self, e, env):
        """(status, node that made it lossy or None)"""
        if isinstance(e, ast.Name):
            return env.get(e.id, (OTHER, None))
        if isinstance(e, ast.Attribute):
            b, why = self.ev(e.value, env)
            if b == P and e.attr in ("real", "imag"):
                return (LOSSY, e)
            if e.attr == "T":
                return (b, why)
            return (OTHER, None) if b != LOSSY else (b, why)
        if isinstance(e, ast.Subscript):
            b, why = self.ev(e.value, env)
            sl = e.slice
            whole = isinstance(sl, ast.Slice) and sl.lower is None and sl.upper is None or \
                (isinstance(sl, ast.Tuple) and all(isinstance(s, ast.Slice) and s.lower is None and s.upper is None for s in sl.elts))
            return (b, why) if whole or b == LOSSY else (OTHER, None)
        if isinstance(e, ast.Call):
            fn = e.func.attr if isinstance(e.func, ast.Attribute) else (e.func.id if isinstance(e.func, ast.Name) else "")
            recv = None
            if isinstance(e.func, ast.Attribute) and norm(e.func.value).split(".")[0] not in ("numpy", "np", "scipy", "copy"):
                recv = self.ev(e.func.value, env)
            first = self.ev(e.args[0], env) if e.args else (OTHER, None)
            src = recv if recv is not None and recv[0] != OTHER else first
            if src[0] == LOSSY:
                return src
            if src[0] == P:
                if fn in _DROP:
                    return (LOSSY, e)
                if fn == "astype":
                    t_ = norm(e.args[0]) if e.args else ""
                    return (P, None) if t_.split(".")[-1] in _COMPLEX else (LOSSY, e)
                if fn in ("array", "asarray"):
                    dt = [k for k in e.keywords if k.arg == "dtype"]
                    if dt and norm(dt[0].value).split(".")[-1] not in _COMPLEX:
                        return (LOSSY, e)
                    return (P, None)
                if fn in _KEEP or fn == "reshape":
                    return (P, None)
            return (OTHER, None)
        if isinstance(e, ast.IfExp):
            a, b = self.ev(e.body, env), self.ev(e.orelse, env)
            w = _worst(a[0], b[0])
            return (w, a[1] if a[0] == LOSSY else b[1])
        if isinstance(e, ast.BinOp):
            a, b = self.ev(e.left, env), self.ev(e.right, env)
            if LOSSY in (a[0], b[0]):
                return a if a[0] == LOSSY else b
            return (OTHER, None)
        return (OTHER, None)

    def block(self, stmts, env):
        for st in stmts:
            if isinstance(st, (ast.Assign, ast.AugAssign)):
                v = self.ev(st.value, env)
                tg = st.targets if isinstance(st, ast.Assign) else [st.target]
                for t_ in tg:
                    b_ = t_
                    while isinstance(b_, ast.Subscript):
                        b_ = b_.value
                    if isinstance(b_, ast.Name) and b_ is t_:
                        env[b_.id] = v if isinstance(st, ast.Assign) else (_worst(env.get(b_.id, (OTHER, None))[0], v[0]), v[1])
                    elif isinstance(b_, ast.Attribute) and norm(b_.value) == "self" and b_.attr in self.attrs:
                        self.stores += 1
                        if v[0] == LOSSY:
                            self.findings.append((st, v[1]))
            elif isinstance(st, ast.If):
                e1, e2 = dict(env), dict(env)
                self.block(st.body, e1)
                self.block(st.orelse, e2)
                for k in set(e1) | set(e2):
                    a, b = e1.get(k, (OTHER, None)), e2.get(k, (OTHER, None))
                    env[k] = a if a[0] == LOSSY else (b if b[0] == LOSSY else (a if a[0] == P else b))
            elif isinstance(st, (ast.For, ast.While)):
                self.block(st.body, env)
                self.block(st.body, env)
                self.block(st.orelse, env)
            elif isinstance(st, ast.With):
                self.block(st.body, env)
            elif isinstance(st, ast.Try):
                self.block(st.body, env)
                for h in st.handlers:
                    self.block(h.body, env)
                self.block(st.orelse, env)
                self.block(st.finalbody, env)
            elif isinstance(st, ast.Expr) and isinstance(st.value, ast.Call):
                # self._setter(data): followed by the caller of this module if it wants to
                pass


def trace(fnode, param, attrs):
    t = Tracer(param, attrs)
    t.block(fnode.body, {param: (P, None)})
    return t
