"""TA - index algebra.

An expression is a finite sum of terms

    coeff * prod factor(name, indices, conj) * prod delta(i, j)   summed over dummies

with exact complex-rational coefficients.  Scalars are rank-0 factors with an
integer power.  ``normal(expr, facts)`` brings an expression to a canonical
form (expansion is done on construction; facts are applied to fix-point;
deltas touching a dummy are contracted; dummies are renamed canonically by
minimising over all permutations; like terms are added).  Two expressions are
equal as polynomials in the entries of their arrays iff ``normal(a - b)`` is
empty.  This is term rewriting with a canonical form, not a solver.
"""
import itertools
from fractions import Fraction

_counter = itertools.count()


def fresh(prefix="k"):
    return "_%s%d" % (prefix, next(_counter))


def is_dummy_name(n):
    return isinstance(n, str) and n.startswith("_")


class C:
    """Exact complex rational."""
    __slots__ = ("re", "im")

    def __init__(self, re=0, im=0):
        self.re = Fraction(re)
        self.im = Fraction(im)

    @staticmethod
    def of(x):
        if isinstance(x, C):
            return x
        if isinstance(x, complex):
            return C(Fraction(x.real).limit_denominator(10**12),
                     Fraction(x.imag).limit_denominator(10**12))
        if isinstance(x, float):
            return C(Fraction(x).limit_denominator(10**12), 0)
        return C(x, 0)

    def __add__(self, o):
        return C(self.re + o.re, self.im + o.im)

    def __mul__(self, o):
        return C(self.re * o.re - self.im * o.im, self.re * o.im + self.im * o.re)

    def __neg__(self):
        return C(-self.re, -self.im)

    def conj(self):
        return C(self.re, -self.im)

    def inv(self):
        d = self.re * self.re + self.im * self.im
        return C(self.re / d, -self.im / d)

    def is_zero(self):
        return self.re == 0 and self.im == 0

    def __eq__(self, o):
        return self.re == o.re and self.im == o.im

    def __hash__(self):
        return hash((self.re, self.im))

    def __repr__(self):
        if self.im == 0:
            return str(self.re)
        if self.re == 0:
            return "%sj" % self.im
        return "(%s%+sj)" % (self.re, self.im)


class F:
    """factor: name[indices], conj flag, integer power (power only != 1 for
    rank-0 factors)."""
    __slots__ = ("name", "idx", "conj", "pow")

    def __init__(self, name, idx=(), conj=False, pow=1):
        self.name = name
        self.idx = tuple(idx)
        self.conj = conj
        self.pow = pow

    def key(self):
        return (self.name, self.idx, self.conj, self.pow)

    def subst(self, mp):
        if not self.idx:
            return self
        return F(self.name, tuple(mp.get(i, i) for i in self.idx), self.conj, self.pow)

    def __repr__(self):
        s = self.name
        if self.idx:
            s += "[" + ",".join(self.idx) + "]"
        if self.conj:
            s = "conj(" + s + ")"
        if self.pow != 1:
            s += "^%d" % self.pow
        return s


class Term:
    __slots__ = ("coeff", "factors", "deltas", "sums")

    def __init__(self, coeff, factors=(), deltas=(), sums=()):
        self.coeff = C.of(coeff)
        self.factors = tuple(factors)
        self.deltas = tuple(deltas)
        self.sums = frozenset(sums)

    def subst(self, mp):
        mp = {k: v for k, v in mp.items() if k not in self.sums}
        if not mp:
            return self
        # avoid capture: rename dummies that collide with substituted values
        vals = set(mp.values())
        ren = {}
        for d in self.sums:
            if d in vals:
                ren[d] = fresh()
        t = self
        if ren:
            t = t._rename(ren)
        return Term(t.coeff, [f.subst(mp) for f in t.factors],
                    [(mp.get(a, a), mp.get(b, b)) for a, b in t.deltas], t.sums)

    def _rename(self, ren):
        return Term(self.coeff, [f.subst(ren) for f in self.factors],
                    [(ren.get(a, a), ren.get(b, b)) for a, b in self.deltas],
                    [ren.get(s, s) for s in self.sums])

    def freshen(self):
        if not self.sums:
            return self
        return self._rename({d: fresh() for d in self.sums})

    def indices(self):
        s = set()
        for f in self.factors:
            s.update(f.idx)
        for a, b in self.deltas:
            s.add(a)
            s.add(b)
        return s

    def free(self):
        return self.indices() - self.sums

    def __repr__(self):
        parts = [repr(self.coeff)]
        parts += [repr(f) for f in self.factors]
        parts += ["d(%s,%s)" % d for d in self.deltas]
        s = "*".join(parts)
        if self.sums:
            s = "Sum_{%s} %s" % (",".join(sorted(self.sums)), s)
        return s


class Expr:
    __slots__ = ("terms",)

    def __init__(self, terms=()):
        self.terms = tuple(terms)

    # constructors
    @staticmethod
    def zero():
        return Expr(())

    @staticmethod
    def const(c):
        c = C.of(c)
        if c.is_zero():
            return Expr(())
        return Expr((Term(c),))

    @staticmethod
    def factor(name, idx=(), conj=False, pow=1):
        return Expr((Term(1, (F(name, idx, conj, pow),)),))

    @staticmethod
    def delta(a, b):
        return Expr((Term(1, (), ((a, b),)),))

    def is_zero_syntactic(self):
        return not self.terms

    def __add__(self, o):
        o = as_expr(o)
        return Expr(self.terms + o.terms)

    __radd__ = __add__

    def __neg__(self):
        return Expr([Term(-t.coeff, t.factors, t.deltas, t.sums) for t in self.terms])

    def __sub__(self, o):
        return self + (-as_expr(o))

    def __rsub__(self, o):
        return as_expr(o) + (-self)

    def __mul__(self, o):
        o = as_expr(o)
        out = []
        for a in self.terms:
            for b in o.terms:
                b2 = b.freshen()
                a2 = a.freshen() if (a.sums & b2.indices()) else a
                out.append(Term(a2.coeff * b2.coeff, a2.factors + b2.factors,
                                a2.deltas + b2.deltas, a2.sums | b2.sums))
        return Expr(out)

    __rmul__ = __mul__

    def conj(self):
        out = []
        for t in self.terms:
            out.append(Term(t.coeff.conj(),
                            [F(f.name, f.idx, not f.conj, f.pow) for f in t.factors],
                            t.deltas, t.sums))
        return Expr(out)

    def subst(self, mp):
        return Expr([t.subst(mp) for t in self.terms])

    def sum_over(self, idx):
        """Sum over index ``idx`` (renamed to a fresh dummy per term)."""
        out = []
        for t in self.terms:
            d = fresh()
            t2 = t.subst({idx: d})
            out.append(Term(t2.coeff, t2.factors, t2.deltas, t2.sums | {d}))
        return Expr(out)

    def free(self):
        s = set()
        for t in self.terms:
            s |= t.free()
        return s

    def subst_scalar(self, name, repl):
        """Replace the rank-0 factor ``name`` (non-negative powers only) by the
        expression ``repl``."""
        repl = as_expr(repl)
        out = Expr.zero()
        for t in self.terms:
            keep = []
            pw = 0
            for f in t.factors:
                if f.name == name and not f.idx:
                    if f.pow < 0 or f.conj:
                        raise ValueError("cannot substitute %s in a denominator" % name)
                    pw += f.pow
                else:
                    keep.append(f)
            e = Expr((Term(t.coeff, keep, t.deltas, t.sums),))
            for _ in range(pw):
                e = e * repl
            out = out + e
        return out

    def names(self):
        return {f.name for t in self.terms for f in t.factors}

    def __repr__(self):
        if not self.terms:
            return "0"
        return " + ".join(repr(t) for t in self.terms)


def as_expr(x):
    if isinstance(x, Expr):
        return x
    if isinstance(x, (int, float, complex, Fraction, C)):
        return Expr.const(x)
    raise TypeError("cannot make Expr of %r" % (x,))


class Facts:
    """Rewrite facts attached to array names.

    real:       conj(X[..]) = X[..]
    hermitian:  conj(X[i,j]) = X[j,i]
    symmetric:  X[i,j] = X[j,i]            (canonical order of the index pair)
    inverse:    pairs (A, B) with sum_x A[i,x] B[x,j] = delta(i,j) and
                sum_x B[i,x] A[x,j] = delta(i,j)
    diagonal:   X[i,j] = delta(i,j) * Xd[i]
    zero_diag:  X[i,i] = 0
    """

    def __init__(self, real=(), hermitian=(), symmetric=(), inverse=(),
                 diagonal=(), unit_modulus=(), zero_diag=(), idempotent=(), exclusive=(),
                 superherm=(), traceless4=(), colsum0=()):
        # colsum0: sum_x K[x, j] = 0
        self.colsum0 = set(colsum0)
        # superherm: conj(R[.., a,b,c,d]) = R[.., b,a,d,c]
        # traceless4: sum_x R[.., x,x,c,d] = 0
        self.superherm = set(superherm)
        self.traceless4 = set(traceless4)
        self.idempotent = set(idempotent) | {"#lt"}   # 0/1 valued factors: x*x = x
        self.exclusive = set(exclusive) | {"#lt"}     # x[i,j]*x[j,i] = 0
        self.real = set(real) | {"#lt", "#trip", "#dim"}
        self.hermitian = set(hermitian)
        self.symmetric = set(symmetric)
        self.inverse = [tuple(p) for p in inverse]
        self.diagonal = set(diagonal)
        self.unit_modulus = set(unit_modulus)   # rank-1/0: x*conj(x) = 1
        self.zero_diag = set(zero_diag) | {"#lt"}

    def describe(self):
        out = []
        for k in ("real", "hermitian", "symmetric", "diagonal", "unit_modulus", "zero_diag",
                  "superherm", "traceless4", "colsum0"):
            v = {x for x in getattr(self, k) if not x.startswith("#")}
            if v:
                out.append("%s(%s)" % (k, ",".join(sorted(v))))
        for a, b in self.inverse:
            out.append("inverse(%s,%s)" % (a, b))
        return out

    def without(self, kind, item):
        f = Facts(self.real, self.hermitian, self.symmetric, self.inverse,
                  self.diagonal, self.unit_modulus, self.zero_diag, self.idempotent,
                  self.exclusive, self.superherm, self.traceless4, self.colsum0)
        if kind == "inverse":
            f.inverse = [p for p in f.inverse if p != tuple(item)]
        else:
            getattr(f, kind).discard(item)
        return f


NOFACTS = Facts()


def _apply_factor_facts(t, facts):
    """real / hermitian / diagonal / zero_diag rewriting on the factors of one
    term.  Returns a Term or None (term vanishes)."""
    fs = []
    deltas = list(t.deltas)
    for f in t.factors:
        if f.conj and f.name in facts.real:
            f = F(f.name, f.idx, False, f.pow)
        if f.conj and f.name in facts.hermitian and len(f.idx) >= 2:
            # Hermitian in its last two indices (leading indices are labels)
            f = F(f.name, f.idx[:-2] + (f.idx[-1], f.idx[-2]), False, f.pow)
        if f.conj and f.name in facts.superherm and len(f.idx) >= 4:
            i = f.idx
            f = F(f.name, i[:-4] + (i[-3], i[-4], i[-1], i[-2]), False, f.pow)
        if f.name in facts.colsum0 and len(f.idx) == 2 and f.idx[0] in t.sums and not f.conj:
            x = f.idx[0]
            occ = sum(g.idx.count(x) for g in t.factors) + sum(d.count(x) for d in t.deltas)
            if occ == 1:
                return None
        if f.name in facts.traceless4 and len(f.idx) >= 4 and f.idx[-4] == f.idx[-3] \
                and f.idx[-4] in t.sums:
            x = f.idx[-4]
            occ = sum(g.idx.count(x) for g in t.factors) + sum(d.count(x) for d in t.deltas)
            if occ == 2:
                return None
        if f.name in facts.zero_diag and len(f.idx) == 2 and f.idx[0] == f.idx[1]:
            return None
        if f.name in facts.diagonal and len(f.idx) == 2:
            deltas.append((f.idx[0], f.idx[1]))
            f = F(f.name + ".d", (f.idx[0],), f.conj, f.pow)
        fs.append(f)
    if facts.idempotent or facts.exclusive:
        seen = set()
        out = []
        for f in fs:
            if f.name in facts.idempotent and f.idx:
                k = (f.name, f.idx)
                if k in seen:
                    continue
                seen.add(k)
            out.append(f)
        fs = out
        for f in fs:
            if f.name in facts.exclusive and len(f.idx) == 2:
                if (f.name, (f.idx[1], f.idx[0])) in seen and f.idx[0] != f.idx[1]:
                    return None
    return Term(t.coeff, fs, deltas, t.sums)


def _is_literal_index(n):
    return isinstance(n, str) and n.startswith("#") and n[1:].lstrip("-").isdigit()


def _contract_deltas(t, facts):
    """Contract deltas touching dummies; canonicalise free-free deltas."""
    factors = list(t.factors)
    deltas = list(t.deltas)
    sums = set(t.sums)
    changed = True
    while changed:
        changed = False
        for k, (a, b) in enumerate(deltas):
            if a == b:
                deltas.pop(k)
                changed = True
                break
            if _is_literal_index(a) and _is_literal_index(b):
                return None         # two different literal positions never coincide
            tgt = None
            if a in sums:
                tgt = (a, b)
            elif b in sums:
                tgt = (b, a)
            if tgt is not None:
                d, r = tgt
                mp = {d: r}
                sums.discard(d)
                deltas.pop(k)
                factors = [f.subst(mp) for f in factors]
                deltas = [(mp.get(x, x), mp.get(y, y)) for x, y in deltas]
                changed = True
                break
    # free-free deltas: replace the larger index by the smaller in factors
    deltas = sorted(set(tuple(sorted(d)) for d in deltas))
    # union-find style closure over free deltas
    rep = {}

    def find(x):
        while rep.get(x, x) != x:
            x = rep[x]
        return x
    for a, b in deltas:
        ra, rb = find(a), find(b)
        if ra != rb:
            lo, hi = sorted((ra, rb))
            rep[hi] = lo
    if rep:
        mp = {}
        for x in list(rep):
            mp[x] = find(x)
        factors = [f.subst(mp) for f in factors]
        groups = {}
        for x in set(list(mp.keys()) + list(mp.values())):
            groups.setdefault(find(x), set()).add(x)
        deltas = []
        for r, g in groups.items():
            for x in sorted(g):
                if x != r:
                    deltas.append((r, x))
        deltas.sort()
    return Term(t.coeff, factors, deltas, sums)


def _apply_inverse(t, facts):
    """sum_x A[i,x] B[x,j] -> delta(i,j) for registered inverse pairs."""
    if not facts.inverse and not facts.unit_modulus:
        return t, False
    factors = list(t.factors)
    for x in t.sums:
        occ = [(n, f) for n, f in enumerate(factors) if x in f.idx]
        if len(occ) != 2:
            continue
        if any(x in d for d in t.deltas):
            continue
        (n1, f1), (n2, f2) = occ
        if f1.idx.count(x) != 1 or f2.idx.count(x) != 1:
            continue
        if len(f1.idx) == 2 and len(f2.idx) == 2 and f1.conj == f2.conj:
            for A, B in facts.inverse:
                for P, Q in ((f1, f2), (f2, f1)):
                    if {P.name, Q.name} == {A, B} and P.name != Q.name or (A == B and P.name == A and Q.name == A):
                        if P.idx[1] == x and Q.idx[0] == x:
                            nf = [f for n, f in enumerate(factors) if n not in (n1, n2)]
                            return Term(t.coeff, nf, t.deltas + ((P.idx[0], Q.idx[1]),),
                                        t.sums - {x}), True
    # unit modulus: u[i]*conj(u[i]) = 1 (any index, not only dummies)
    for n1, f1 in enumerate(factors):
        if f1.name in facts.unit_modulus and not f1.conj:
            for n2, f2 in enumerate(factors):
                if n2 != n1 and f2.name == f1.name and f2.conj and f2.idx == f1.idx and f1.pow == f2.pow:
                    nf = [f for n, f in enumerate(factors) if n not in (n1, n2)]
                    return Term(t.coeff, nf, t.deltas, t.sums), True
    return t, False


def _merge_scalars(factors):
    """Combine rank-0 factors of equal (name, conj) by adding powers."""
    out = []
    acc = {}
    for f in factors:
        if not f.idx:
            k = (f.name, f.conj)
            acc[k] = acc.get(k, 0) + f.pow
        else:
            out.append(f)
    for (name, cj), p in acc.items():
        if p != 0:
            out.append(F(name, (), cj, p))
    return out


def _canon_term(t, facts):
    """Canonical string key of a term (dummies renamed by minimising over all
    permutations)."""
    factors = _merge_scalars(t.factors)
    dummies = sorted(t.sums)
    # dummies that occur nowhere contribute a dimension factor
    used = set()
    for f in factors:
        used.update(f.idx)
    for a, b in t.deltas:
        used.add(a)
        used.add(b)
    extra = [d for d in dummies if d not in used]
    if extra:
        factors = factors + [F("#dim", (), False, len(extra))]
        factors = _merge_scalars(factors)
        dummies = [d for d in dummies if d in used]
    def render(mp):
        fs = []
        for f in factors:
            idx = tuple(mp.get(i, i) for i in f.idx)
            if f.name in facts.symmetric and len(idx) >= 2:
                # symmetric in its last two indices
                idx = idx[:-2] + tuple(sorted(idx[-2:]))
            fs.append((f.name, idx, f.conj, f.pow))
        fs.sort()
        ds = sorted(tuple(sorted((mp.get(a, a), mp.get(b, b)))) for a, b in t.deltas)
        return (tuple(fs), tuple(ds))

    # partition the dummies by an occurrence signature (two refinement
    # rounds), then minimise over permutations inside each class only
    dset = set(dummies)

    def occ_sig(d, other):
        out = []
        for f in factors:
            for pos, i in enumerate(f.idx):
                if i == d:
                    ctx = tuple(other(j) if j in dset else j for j in f.idx)
                    if f.name in facts.symmetric and len(ctx) >= 2:
                        ctx = ctx[:-2] + tuple(sorted(ctx[-2:]))
                    out.append((f.name, f.conj, f.pow, pos if f.name not in facts.symmetric else -1, ctx))
        for a, b in t.deltas:
            if a == d or b == d:
                o = b if a == d else a
                out.append(("#delta", False, 1, 0, (other(o) if o in dset else o,)))
        return tuple(sorted(out))
    sig0 = {d: occ_sig(d, lambda j: "*") for d in dummies}
    sig1 = {d: occ_sig(d, lambda j: repr(sig0[j])) for d in dummies}
    classes = {}
    for d in dummies:
        classes.setdefault(repr(sig1[d]), []).append(d)
    groups = [classes[k] for k in sorted(classes)]
    ncomb = 1
    for g in groups:
        for k in range(2, len(g) + 1):
            ncomb *= k
    if ncomb > 50000:
        raise OverflowError("too many dummy permutations in one term: %d" % ncomb)
    best = None
    names = ["~%d" % i for i in range(len(dummies))]
    for combo in itertools.product(*[itertools.permutations(g) for g in groups]):
        order = [d for g in combo for d in g]
        mp = dict(zip(order, names))
        r = render(mp)
        if best is None or r < best:
            best = r
    if best is None:
        best = render({})
    return best, len(dummies)


def normal(expr, facts=NOFACTS):
    """Canonical form: dict key -> coefficient (zero terms dropped)."""
    acc = {}
    for t in expr.terms:
        if t.coeff.is_zero():
            continue
        cur = t
        for _ in range(50):
            before = (cur.factors, cur.deltas, cur.sums)
            cur = _apply_factor_facts(cur, facts)
            if cur is None:
                break
            cur = _contract_deltas(cur, facts)
            if cur is None:
                break
            cur, ch = _apply_inverse(cur, facts)
            if not ch and (tuple(f.key() for f in cur.factors), tuple(cur.deltas), cur.sums) == \
                    (tuple(f.key() for f in before[0]), tuple(before[1]), before[2]):
                break
        else:
            raise RuntimeError("fact rewriting did not terminate")
        if cur is None:
            continue
        key, nd = _canon_term(cur, facts)
        key = (key, nd)
        acc[key] = acc.get(key, C(0)) + cur.coeff
    return {k: v for k, v in acc.items() if not v.is_zero()}


def show_normal(nf, limit=6):
    out = []
    for (key, nd), c in sorted(nf.items(), key=lambda kv: repr(kv[0]))[:limit]:
        fs, ds = key
        parts = []
        for name, idx, cj, pw in fs:
            s = name + ("[" + ",".join(idx) + "]" if idx else "")
            if cj:
                s = "conj(%s)" % s
            if pw != 1:
                s += "^%d" % pw
            parts.append(s)
        parts += ["d(%s,%s)" % d for d in ds]
        out.append("%r*%s%s" % (c, "*".join(parts) or "1",
                                 (" [sum over %d dummies]" % nd) if nd else ""))
    if len(nf) > limit:
        out.append("... %d more terms" % (len(nf) - limit))
    return out


def from_normal(nf):
    """Rebuild an expression from a normal form (dummies renamed freshly)."""
    terms = []
    for (key, nd), c in nf.items():
        fs, ds = key
        mp = {"~%d" % i: fresh() for i in range(nd)}
        factors = [F(name, tuple(mp.get(i, i) for i in idx), cj, pw) for name, idx, cj, pw in fs]
        deltas = [(mp.get(a, a), mp.get(b, b)) for a, b in ds]
        terms.append(Term(c, factors, deltas, mp.values()))
    return Expr(terms)


def simplify(expr, facts=NOFACTS):
    return from_normal(normal(expr, facts))


def equal(a, b, facts=NOFACTS):
    return not normal(a - b, facts)


def is_zero(a, facts=NOFACTS):
    return not normal(a, facts)


# ----------------------------------------------------------------------
class Array:
    """Mutable symbolic array of fixed rank: template expression over the
    placeholder indices $0..$(rank-1); other free indices are ambient (loop
    variables of enclosing loops)."""

    def __init__(self, rank, template=None, name=None, origin=None):
        self.rank = rank
        self.template = template if template is not None else Expr.zero()
        self.name = name
        self.origin = origin      # "zeros", "opaque", "computed"
        self.dtype_real = False
        self.written = False

    @staticmethod
    def ph(k):
        return "$%d" % k

    @staticmethod
    def opaque(name, rank):
        idx = tuple(Array.ph(k) for k in range(rank))
        return Array(rank, Expr.factor(name, idx), name=name, origin="opaque")

    @staticmethod
    def zeros(rank, name=None):
        return Array(rank, Expr.zero(), name=name, origin="zeros")

    def at(self, *idx):
        if len(idx) != self.rank:
            raise IndexError("rank mismatch: %s has rank %d, indexed with %d" %
                             (self.name, self.rank, len(idx)))
        # two-step substitution to avoid clashes between placeholders
        tmp = {self.ph(k): "$tmp%d" % k for k in range(self.rank)}
        e = self.template.subst(tmp)
        return e.subst({"$tmp%d" % k: idx[k] for k in range(self.rank)})

    def copy(self):
        a = Array(self.rank, self.template, self.name, self.origin)
        a.dtype_real = self.dtype_real
        return a

    @staticmethod
    def from_fn(rank, fn):
        idx = tuple(Array.ph(k) for k in range(rank))
        return Array(rank, fn(*idx), origin="computed")

    def map(self, fn):
        return Array(self.rank, fn(self.template), origin="computed")


def a_transpose(a):
    if a.rank != 2:
        raise ValueError("transpose of rank %d" % a.rank)
    return Array.from_fn(2, lambda i, j: a.at(j, i))


def a_conj(a):
    return Array(a.rank, a.template.conj(), origin="computed")


def a_dot(a, b):
    if a.rank == 2 and b.rank == 2:
        def fn(i, j):
            k = fresh("i")
            return (a.at(i, k) * b.at(k, j)).sum_over(k)
        return Array.from_fn(2, fn)
    if a.rank == 2 and b.rank == 1:
        def fn(i):
            k = fresh("i")
            return (a.at(i, k) * b.at(k)).sum_over(k)
        return Array.from_fn(1, fn)
    if a.rank == 1 and b.rank == 2:
        def fn(j):
            k = fresh("i")
            return (a.at(k) * b.at(k, j)).sum_over(k)
        return Array.from_fn(1, fn)
    if a.rank == 1 and b.rank == 1:
        k = fresh("i")
        return (a.at(k) * b.at(k)).sum_over(k)
    raise ValueError("dot of ranks %d,%d" % (a.rank, b.rank))


def a_tensordot(a, b, axes=2):
    """numpy.tensordot with integer axes: last ``axes`` of a with first
    ``axes`` of b."""
    n = axes
    ra, rb = a.rank - n, b.rank - n
    if ra < 0 or rb < 0:
        raise ValueError("tensordot rank")

    def fn(*idx):
        ks = [fresh("i") for _ in range(n)]
        e = a.at(*(list(idx[:ra]) + ks)) * b.at(*(ks + list(idx[ra:])))
        for k in ks:
            e = e.sum_over(k)
        return e
    if ra + rb == 0:
        return fn()
    return Array.from_fn(ra + rb, fn)


def a_tensordot_axes(a, b, axa, axb):
    """numpy.tensordot with explicit axis lists."""
    axa = [x % a.rank for x in axa]
    axb = [x % b.rank for x in axb]
    if len(axa) != len(axb):
        raise ValueError("tensordot axes")
    ra = [k for k in range(a.rank) if k not in axa]
    rb = [k for k in range(b.rank) if k not in axb]

    def fn(*idx):
        ks = [fresh("i") for _ in axa]
        ia = [None] * a.rank
        ib = [None] * b.rank
        for k, p in zip(ks, axa):
            ia[p] = k
        for k, p in zip(ks, axb):
            ib[p] = k
        it = iter(idx)
        for p in ra:
            ia[p] = next(it)
        for p in rb:
            ib[p] = next(it)
        e = a.at(*ia) * b.at(*ib)
        for k in ks:
            e = e.sum_over(k)
        return e
    if not ra and not rb:
        return fn()
    return Array.from_fn(len(ra) + len(rb), fn)


def a_trace(a):
    k = fresh("i")
    return a.at(k, k).sum_over(k)


def a_einsum(spec, *arrs):
    spec = spec.replace(" ", "")
    if "->" not in spec:
        raise ValueError("einsum without explicit output")
    lhs, out = spec.split("->")
    ins = lhs.split(",")
    if len(ins) != len(arrs):
        raise ValueError("einsum arity")

    def fn(*idx):
        mp = dict(zip(out, idx))
        summed = []
        for s in ins:
            for ch in s:
                if ch not in mp:
                    mp[ch] = fresh("i")
                    summed.append(mp[ch])
        e = Expr.const(1)
        for s, a in zip(ins, arrs):
            e = e * a.at(*[mp[ch] for ch in s])
        for k in summed:
            e = e.sum_over(k)
        return e
    if not out:
        return fn()
    return Array.from_fn(len(out), fn)


def a_binop(op, x, y):
    """elementwise + - * between arrays of equal rank or array and scalar."""
    xa, ya = isinstance(x, Array), isinstance(y, Array)
    if not xa and not ya:
        x, y = as_expr(x), as_expr(y)
        return {"+": x + y, "-": x - y, "*": x * y}[op]
    if xa and ya:
        if x.rank != y.rank:
            # broadcasting of a trailing-aligned lower-rank array is not in
            # the vocabulary
            raise ValueError("elementwise op on ranks %d,%d" % (x.rank, y.rank))
        r = x.rank
        return Array.from_fn(r, lambda *i: {"+": x.at(*i) + y.at(*i),
                                             "-": x.at(*i) - y.at(*i),
                                             "*": x.at(*i) * y.at(*i)}[op])
    if xa:
        s = as_expr(y)
        return Array.from_fn(x.rank, lambda *i: {"+": x.at(*i) + s, "-": x.at(*i) - s,
                                                  "*": x.at(*i) * s}[op])
    s = as_expr(x)
    return Array.from_fn(y.rank, lambda *i: {"+": s + y.at(*i), "-": s - y.at(*i),
                                              "*": s * y.at(*i)}[op])
