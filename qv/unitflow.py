"""Unit state of parameter dictionaries (bath functions).

The constructors of CorrelationFunction and SpectralDensity receive component parameters in the
energy units that are current for the caller, convert the energy-valued entries
(``energy_params``) to internal units into a second dictionary, and hand one of the two
dictionaries to a builder per component type.  A builder then either uses the entries as
internal-unit numbers (formulas evaluated against the internal-unit axis, ``self.lamb += ...``)
or hands the whole dictionary on to another constructor, which converts again from the units
that are current at that point.

Abstract domain for an energy-valued quantity: RAW (number in the caller's current units) or
INT (number in internal units).  Under an enclosing ``with energy_units("int")`` the current
units *are* internal, so a constructor called there expects INT.  The analysis assumes the
caller's units are not the internal ones (otherwise RAW = INT and nothing can go wrong) and
reports every use whose requirement does not match the state:

  sink                                            requires
  ----------------------------------------------  --------
  self.lamb = / += v                              INT
  v flows into the data handed to _add_me/_make_me INT
  Ctor(axis, D) inside   with energy_units("int")  D is INT
  Ctor(axis, D) outside  any int context           D is RAW
  self.convert_energy_2_internal_u(v)             v is RAW  -> result INT
"""
import ast

from .loader import norm, walk_no_nested, parents_map, call_name, const_value

CONVERTERS_RAW_TO_INT = ("convert_energy_2_internal_u",)
CTORS = ("SpectralDensity", "CorrelationFunction", "FTCorrelationFunction")


def energy_keys(prog, cls, _depth=0):
    for c in prog.mro(cls):
        if c is not None and "energy_params" in c.attrs:
            node = c.attrs["energy_params"]
            if isinstance(node, ast.Attribute) and node.attr == "energy_params" and isinstance(node.value, ast.Name) and _depth < 3:
                # the table of another class, by reference
                other = prog.resolve_in_module(c.module.name, node.value.id)
                if hasattr(other, "attrs"):
                    return energy_keys(prog, other, _depth + 1)
                return None
            try:
                v = const_value(node)
            except ValueError:
                return None
            if isinstance(v, (tuple, list)):
                return set(v)
            if isinstance(c.attrs["energy_params"], (ast.Tuple, ast.List)):
                return {e.value for e in c.attrs["energy_params"].elts if isinstance(e, ast.Constant)}
    return None


def in_int_context(pm, node):
    n = pm.get(node)
    while n is not None:
        if isinstance(n, ast.With):
            for it in n.items:
                if norm(it.context_expr) in ('energy_units("int")', "energy_units('int')"):
                    return True
        n = pm.get(n)
    return False


def dispatch_states(prog, cls, ekeys):
    """In __init__: which dictionaries are RAW / INT, and for every call self._make_X(D, ...) the state
    of D.  Returns [(builder name, state, call node)] and the list of problems met."""
    init = cls.methods["__init__"]
    pm = parents_map(init.node)
    conv = {}     # dict variable -> "INT" when filled by the conversion loop
    # pattern: D2[key] = self.convert_energy_2_internal_u(D1[key]) inside `if key in self.energy_params`
    for n in ast.walk(init.node):
        if isinstance(n, ast.Assign) and isinstance(n.targets[0], ast.Subscript) and isinstance(n.targets[0].value, ast.Name) \
                and isinstance(n.value, ast.Call) and call_name(n.value) in CONVERTERS_RAW_TO_INT:
            conv[n.targets[0].value.id] = "INT"
    out = []
    for n in ast.walk(init.node):
        if isinstance(n, ast.Call) and isinstance(n.func, ast.Attribute) and isinstance(n.func.value, ast.Name) \
                and n.func.value.id == "self" and n.func.attr.startswith("_make_") and n.args:
            a = n.args[0]
            st = None
            if isinstance(a, ast.Name):
                if a.id in conv:
                    st = "INT"
                else:
                    st = "INT" if in_int_context(pm, n) else "RAW"
            out.append((n.func.attr, st, n))
    return init, out


class BuilderFlow:
    """def-use of energy-valued entries of the parameter dictionary inside one builder"""

    def __init__(self, prog, f, ekeys, state):
        self.prog, self.f, self.ekeys, self.state = prog, f, ekeys, state
        self.pm = parents_map(f.node)
        args = [a.arg for a in f.node.args.args]
        self.dict = args[1] if len(args) > 1 else None
        self.problems = []      # (key, message, node)
        self.uses = 0

    def _energy_state(self, e, env):
        """state of an expression: 'INT'/'RAW' when it is (a product/ratio involving) an energy entry,
        None when it carries no energy entry"""
        if isinstance(e, ast.Subscript) and isinstance(e.value, ast.Name) and e.value.id == self.dict \
                and isinstance(e.slice, ast.Constant) and e.slice.value in self.ekeys:
            return self.state
        if isinstance(e, ast.Name):
            return env.get(e.id)
        if isinstance(e, ast.Call):
            cn = call_name(e)
            if cn in CONVERTERS_RAW_TO_INT and e.args:
                st = self._energy_state(e.args[0], env)
                if st == "INT":
                    self.problems.append(("double-conversion", "%s converts a value that is already in internal "
                                          "units" % norm(e)[:60], e))
                return "INT" if st is not None else None
            if cn == "iu_energy" and e.args:
                # explicit units: only as good as the units expression; treated as a conversion from RAW
                st = self._energy_state(e.args[0], env)
                return "INT" if st is not None else None
            sts = [self._energy_state(a, env) for a in e.args]
            sts = [s for s in sts if s]
            return ("RAW" if "RAW" in sts else "INT") if sts else None
        if isinstance(e, (ast.BinOp,)):
            sts = [self._energy_state(e.left, env), self._energy_state(e.right, env)]
            sts = [s for s in sts if s]
            return ("RAW" if "RAW" in sts else "INT") if sts else None
        if isinstance(e, ast.UnaryOp):
            return self._energy_state(e.operand, env)
        if isinstance(e, (ast.Tuple, ast.List)):
            sts = [self._energy_state(x, env) for x in e.elts]
            sts = [s for s in sts if s]
            return ("RAW" if "RAW" in sts else "INT") if sts else None
        if isinstance(e, ast.IfExp):
            sts = [self._energy_state(e.body, env), self._energy_state(e.orelse, env)]
            sts = [s for s in sts if s]
            return ("RAW" if "RAW" in sts else "INT") if sts else None
        if isinstance(e, ast.Subscript):
            return self._energy_state(e.value, env)
        return None

    def run(self):
        env = {}
        f = self.f
        data_names = set()
        # names that flow into the data handed to _add_me / _make_me (backward, flow-insensitive)
        for n in walk_no_nested(f.node):
            if isinstance(n, ast.Call) and call_name(n) in ("_add_me", "_make_me") and len(n.args) >= 2:
                for x in ast.walk(n.args[1]):
                    if isinstance(x, ast.Name):
                        data_names.add(x.id)
        changed = True
        assigns = [n for n in walk_no_nested(f.node) if isinstance(n, (ast.Assign, ast.AugAssign))]
        while changed:
            changed = False
            for n in assigns:
                tg = n.targets[0] if isinstance(n, ast.Assign) else n.target
                base = tg
                while isinstance(base, ast.Subscript):
                    base = base.value
                if isinstance(base, ast.Name) and base.id in data_names:
                    for x in ast.walk(n.value):
                        if isinstance(x, ast.Name) and x.id not in data_names:
                            data_names.add(x.id)
                            changed = True
        # forward pass in source order (builders are straight-line with try/if)
        for n in sorted(walk_no_nested(f.node), key=lambda x: (getattr(x, "lineno", 0), getattr(x, "col_offset", 0))):
            if isinstance(n, ast.Assign) and len(n.targets) == 1 and isinstance(n.targets[0], ast.Name):
                st = self._energy_state(n.value, env)
                nm = n.targets[0].id
                if st is not None:
                    env[nm] = st
                    if nm in data_names:
                        self.uses += 1
                        if st != "INT":
                            self.problems.append(("data", "%s enters the component's data while it is in the caller's "
                                                  "units (the axis and the stored data are in internal units)" % norm(n)[:70], n))
            if isinstance(n, (ast.Assign, ast.AugAssign)):
                tg = n.targets[0] if isinstance(n, ast.Assign) else n.target
                if norm(tg) == "self.lamb":
                    st = self._energy_state(n.value, env)
                    if st is not None:
                        self.uses += 1
                        if st != "INT":
                            self.problems.append(("lamb", "%s stores the reorganisation energy in the caller's units; "
                                                  "get_reorganization_energy() converts it from internal units" % norm(n)[:70], n))
            if isinstance(n, ast.Call) and call_name(n) in CTORS and len(n.args) >= 2:
                a = n.args[1]
                if isinstance(a, ast.Name) and a.id == self.dict:
                    self.uses += 1
                    want = "INT" if in_int_context(self.pm, n) else "RAW"
                    if self.state != want:
                        self.problems.append(("ctor", "%s re-interprets the dictionary in the units current at that "
                                              "point (%s), but its energy entries are %s" % (
                                                  norm(n)[:60], "internal, inside energy_units('int')" if want == "INT"
                                                  else "the caller's", "in the caller's units" if self.state == "RAW"
                                                  else "already internal"), n))
        return self.problems


# ----------------------------------------------------------------------
# units-managed properties read outside the method's own protection
def managed_attributes(prog, cls):
    out = set()
    for b in prog.mro(cls):
        if b is None:
            continue
        for nme, val in b.attrs.items():
            if isinstance(val, ast.Call) and norm(val.func).split(".")[-1].startswith("UnitsManaged"):
                out.add(nme)
    return out


def unprotected_managed_reads(prog, cls):
    """For every method of cls that contains a `with energy_units("int")` block (it intends to compute in
    internal units): the reads of units-managed properties of self that lie outside every such block.
    Returns [(FuncInfo, number of protected reads, [unprotected Attribute nodes])]."""
    managed = managed_attributes(prog, cls)
    out = []
    if not managed:
        return out
    for fn in cls.methods.values():
        if not any(isinstance(n, ast.With) and any(norm(it.context_expr) in ('energy_units("int")', "energy_units('int')")
                                                   for it in n.items) for n in ast.walk(fn.node)):
            continue
        pm = parents_map(fn.node)
        reads = [n for n in walk_no_nested(fn.node) if isinstance(n, ast.Attribute) and isinstance(n.ctx, ast.Load)
                 and isinstance(n.value, ast.Name) and n.value.id == "self" and n.attr in managed]
        outside = [n for n in reads if not in_int_context(pm, n)]
        out.append((fn, len(reads) - len(outside), outside))
    return out


def typed_unprotected_reads(prog, func, managed_class="FrequencyAxis"):
    """Reads of units-managed properties of an object that the code itself has established to be a
    `managed_class` instance (branch of `isinstance(x, managed_class)`), outside energy_units('int').
    Returns (number of typed reads examined, [unprotected Attribute nodes])."""
    cls = None
    for m_ in prog.modules.values():
        if managed_class in m_.classes:
            cls = m_.classes[managed_class]
    if cls is None:
        return 0, []
    managed = managed_attributes(prog, cls)
    pm = parents_map(func.node)
    total, bad = 0, []
    for n in walk_no_nested(func.node):
        if not (isinstance(n, ast.If) and isinstance(n.test, ast.Call) and call_name(n.test) == "isinstance"
                and len(n.test.args) == 2 and isinstance(n.test.args[0], ast.Name)
                and norm(n.test.args[1]).split(".")[-1] == managed_class):
            continue
        var = n.test.args[0].id
        names = {var: 0}         # name -> line from which it denotes the managed object
        ends = {}                # name -> line at which it is rebound to something else
        body_nodes = [x for st in n.body for x in ast.walk(st)]
        for x in sorted([y for y in body_nodes if isinstance(y, ast.Assign)], key=lambda y: y.lineno):
            for t_ in x.targets:
                if isinstance(t_, ast.Name):
                    if isinstance(x.value, ast.Name) and x.value.id in names and x.value.id not in ends:
                        names[t_.id] = x.lineno
                        ends.pop(t_.id, None)
                    elif t_.id in names and t_.id not in ends:
                        ends[t_.id] = x.lineno
        for x in body_nodes:
            if isinstance(x, ast.Attribute) and isinstance(x.ctx, ast.Load) and isinstance(x.value, ast.Name) \
                    and x.value.id in names and x.attr in managed:
                ln = x.lineno
                if ln < names[x.value.id] or (x.value.id in ends and ln > ends[x.value.id]):
                    continue
                total += 1
                if not in_int_context(pm, x):
                    bad.append(x)
    return total, bad


# ----------------------------------------------------------------------
# representation-dependent reads kept on self
def cached_managed_reads(prog, cls, managed=("data",), holders=None):
    """Attributes of self that keep the result of a basis-/units-managed read of another object
    (`self.A = self.ham.data`, `self.A = ham.data[...]`) and are loaded by a different method.  The
    managed read returns the representation current at that moment; used later, under another basis
    or units context, the kept array belongs to the wrong representation.
    Returns [(attr, storing FuncInfo, store node, [loading FuncInfo])]."""
    stores = {}
    for f in cls.methods.values():
        for n in walk_no_nested(f.node):
            if isinstance(n, ast.Assign):
                for t_ in n.targets:
                    if isinstance(t_, ast.Attribute) and isinstance(t_.value, ast.Name) and t_.value.id == "self":
                        reads = [x for x in ast.walk(n.value) if isinstance(x, ast.Attribute) and x.attr in managed
                                 and isinstance(x.ctx, ast.Load) and not (isinstance(x.value, ast.Name) and x.value.id == "self")]
                        if holders is not None:
                            reads = [x for x in reads if norm(x.value) in holders]
                        # a copy taken for bookkeeping of shapes etc. is not a representation: only array reads
                        reads = [x for x in reads if not isinstance(getattr(x, "_parent", None), ast.Attribute)]
                        if reads:
                            stores.setdefault(t_.attr, []).append((f, n))
    out = []
    for attr, sts in stores.items():
        loaders = []
        for f in cls.methods.values():
            if any(f is sf for sf, _ in sts):
                continue
            if any(isinstance(x, ast.Attribute) and isinstance(x.ctx, ast.Load) and x.attr == attr
                   and isinstance(x.value, ast.Name) and x.value.id == "self" for x in walk_no_nested(f.node)):
                loaders.append(f)
        for sf, n in sts:
            # `self.A = obj.data.shape[0]` and similar scalars are not representations
            v = n.value
            scalar = isinstance(v, ast.Subscript) and isinstance(v.value, ast.Attribute) and v.value.attr == "shape"
            if not scalar:
                out.append((attr, sf, n, loaders))
    return out


def constructor_loop_states(prog, cls, ekeys):
    """Energy entries added to self.lamb directly in __init__ (the branch taken when values are given):
    for every loop `for D in L` (also through zip) the dictionaries D are RAW when L collects the
    caller's dictionaries and INT when L collects the converted ones.  Returns
    [(loop variable, state, sink node)] for every `self.lamb = / +=  D[<energy key>]`."""
    init = cls.methods["__init__"]
    conv = set()
    for n in ast.walk(init.node):
        if isinstance(n, ast.Assign) and isinstance(n.targets[0], ast.Subscript) and isinstance(n.targets[0].value, ast.Name) \
                and isinstance(n.value, ast.Call) and call_name(n.value) in CONVERTERS_RAW_TO_INT:
            conv.add(n.targets[0].value.id)
    liststate = {}
    for n in ast.walk(init.node):
        if isinstance(n, ast.Call) and isinstance(n.func, ast.Attribute) and n.func.attr == "append" and n.args:
            lst = norm(n.func.value)
            v = n.args[0]
            if isinstance(v, ast.Name):
                st = "INT" if v.id in conv else "RAW"
                liststate[lst] = st if liststate.get(lst, st) == st else "MIXED"
    out = []
    pm = parents_map(init.node)
    for lp in [n for n in ast.walk(init.node) if isinstance(n, ast.For)]:
        pairs = []
        if isinstance(lp.iter, ast.Call) and call_name(lp.iter) == "zip" and isinstance(lp.target, ast.Tuple):
            pairs = list(zip(lp.target.elts, lp.iter.args))
        else:
            pairs = [(lp.target, lp.iter)]
        for tgt, it_ in pairs:
            if not isinstance(tgt, ast.Name):
                continue
            st = liststate.get(norm(it_))
            if st is None:
                continue
            if in_int_context(pm, lp) and st == "RAW":
                st = "INT"
            for n in ast.walk(lp):
                if isinstance(n, (ast.Assign, ast.AugAssign)):
                    t_ = n.targets[0] if isinstance(n, ast.Assign) else n.target
                    if norm(t_) == "self.lamb":
                        for x in ast.walk(n.value):
                            if isinstance(x, ast.Subscript) and isinstance(x.value, ast.Name) and x.value.id == tgt.id \
                                    and isinstance(x.slice, ast.Constant) and x.slice.value in ekeys:
                                out.append((tgt.id, st, n))
    return init, out


# ----------------------------------------------------------------------
# calculators compute in internal units
#
# A calculator (rate matrix, relaxation tensor, propagator, hierarchy) mixes energies with times in
# femtoseconds, Boltzmann factors with kB in internal units, and so on.  Every number it obtains through
# a units-converting accessor is in the units that are current *for its caller*; it is an internal-units
# number only under `with energy_units("int")`.  The classes of the package that get this right wrap
# their work in such a block (RedfieldRelaxationTensor.__init__, FoersterRelaxationTensor.initialize,
# AggregateBase.get_DensityMatrix ...).  The rule below demands the same of every calculator a property
# names: each converting read is lexically inside an internal-units block, or lies in a private helper
# all of whose call sites in the class hierarchy are protected in the same sense.
_factories_cache = {}


def property_factories(prog):
    key = id(prog)
    if key not in _factories_cache:
        _factories_cache[key] = (prog, _property_factories(prog))
    return _factories_cache[key][1]


def _property_factories(prog):
    """names (functions of utils.types and their partial aliases) that create a property whose getter
    returns self.convert_2_current_u(...)"""
    m = prog.module("quantarhei.utils.types")
    names = set()
    for fn in m.tree.body:
        if isinstance(fn, ast.FunctionDef):
            for inner in fn.body:
                if isinstance(inner, ast.FunctionDef) and any(norm(d) == "property" for d in inner.decorator_list):
                    if any(isinstance(r, ast.Return) and r.value is not None and any(
                            isinstance(c, ast.Call) and norm(c.func).endswith("convert_2_current_u")
                            for c in ast.walk(r.value)) for r in ast.walk(inner)):
                        names.add(fn.name)
    for st in m.tree.body:
        if isinstance(st, ast.Assign) and isinstance(st.value, ast.Call) and call_name(st.value) == "partial" \
                and st.value.args and isinstance(st.value.args[0], ast.Name) and st.value.args[0].id in names:
            for t_ in st.targets:
                if isinstance(t_, ast.Name):
                    names.add(t_.id)
    return names


def converted_attributes(prog, cls):
    """class attributes of cls (with bases) that are units-converting properties"""
    fac = property_factories(prog)
    out = set()
    for b in prog.mro(cls):
        if b is None:
            continue
        for nme, val in b.attrs.items():
            if isinstance(val, ast.Call) and norm(val.func).split(".")[-1] in fac:
                out.add(nme)
    return out


_CONVERT_CALLS = ("convert_energy_2_current_u", "convert_2_current_u")


_getters_cache = {}


def converting_getters(prog):
    key = id(prog)
    if key not in _getters_cache:
        _getters_cache[key] = (prog, _converting_getters(prog))
    return _getters_cache[key][1]


def _converting_getters(prog):
    """Method names every definition of which in the package returns an energy converted to the units
    current for the caller (directly, or by returning what another such getter returns)."""
    defs = {}
    for c in prog.all_classes():
        for nme, fn in c.methods.items():
            if nme.startswith("__") or nme in _CONVERT_CALLS:
                continue
            defs.setdefault(nme, []).append(fn)
    conv = set()

    managed_of = {}

    def returns_converted(fn):
        """the returned value is computed from a converted number: a convert call, a units-managed
        property of self, another converting getter, or a local that holds one of these"""
        if fn.cls not in managed_of:
            managed_of[fn.cls] = converted_attributes(prog, fn.cls) if fn.cls is not None else set()
        managed = managed_of[fn.cls]
        pm = parents_map(fn.node)
        tainted = set()

        def shape_only(n):
            p = pm.get(n)
            return isinstance(p, ast.Attribute) and p.attr in ("shape", "dtype", "ndim", "size")

        def dirty(e):
            for x in ast.walk(e):
                if isinstance(x, ast.Call) and _is_conv_call(x):
                    return True
                if isinstance(x, ast.Attribute) and isinstance(x.ctx, ast.Load) and isinstance(x.value, ast.Name) \
                        and x.value.id == "self" and x.attr in managed and not shape_only(x):
                    return True
                if isinstance(x, ast.Name) and isinstance(x.ctx, ast.Load) and x.id in tainted and not shape_only(x):
                    return True
            return False

        changed = True
        while changed:
            changed = False
            for n in walk_no_nested(fn.node):
                if isinstance(n, (ast.Assign, ast.AugAssign)) and dirty(n.value):
                    for t_ in (n.targets if isinstance(n, ast.Assign) else [n.target]):
                        while isinstance(t_, ast.Subscript):
                            t_ = t_.value
                        if isinstance(t_, ast.Name) and t_.id not in tainted:
                            tainted.add(t_.id)
                            changed = True
        return any(isinstance(n, ast.Return) and n.value is not None and dirty(n.value)
                   for n in walk_no_nested(fn.node))

    assume = set()

    def _is_conv_call(call):
        nm = call_name(call)
        return nm in _CONVERT_CALLS or (isinstance(call.func, ast.Attribute) and (nm in conv or nm in assume))

    changed = True
    while changed:
        changed = False
        for nme, fns in defs.items():
            if nme in conv:
                continue
            # a definition may hand on what the getter of the same name of another object returns
            assume.clear()
            direct = [f for f in fns if returns_converted(f)]
            if not direct:
                continue
            assume.add(nme)
            ok = all(returns_converted(f) for f in fns)
            assume.clear()
            if ok:
                conv.add(nme)
                changed = True
    return conv


def hamiltonian_fields(prog, cls):
    """(parameter names, field names) through which the class receives and keeps its Hamiltonian: the
    constructor parameter that is tested with isinstance(p, Hamiltonian) or is called ham/Ham by the
    package-wide convention, and the attributes of self it is stored in."""
    params, fields = set(), set()
    for b in prog.mro(cls):
        if b is None or "__init__" not in b.methods:
            continue
        init = b.methods["__init__"].node
        names = {a.arg for a in init.args.args + init.args.kwonlyargs}
        for n in ast.walk(init):
            if isinstance(n, ast.Call) and call_name(n) == "isinstance" and len(n.args) == 2 \
                    and isinstance(n.args[0], ast.Name) and norm(n.args[1]).split(".")[-1] == "Hamiltonian":
                params.add(n.args[0].id)
        params |= names & {"ham", "Ham", "hamiltonian", "Hamiltonian"}
        for n in ast.walk(init):
            if isinstance(n, ast.Assign) and isinstance(n.value, ast.Name) and n.value.id in params:
                for t_ in n.targets:
                    if isinstance(t_, ast.Attribute) and isinstance(t_.value, ast.Name) and t_.value.id == "self":
                        fields.add(t_.attr)
    return params, fields


# methods that hand out a function of frequency (its axis is units managed, so evaluating it at a point
# interprets the point in the units current for the caller)
FREQUENCY_DOMAIN_PRODUCERS = ("get_Fourier_transform", "get_FTCorrelationFunction", "get_EvenFTCorrelationFunction",
                              "get_OddFTCorrelationFunction", "get_SpectralDensity")

_all_hfields_cache = {}


def all_hamiltonian_fields(prog):
    key = id(prog)
    if key not in _all_hfields_cache:
        out = set()
        for c in prog.all_classes():
            out |= hamiltonian_fields(prog, c)[1]
        _all_hfields_cache[key] = (prog, out)
    return _all_hfields_cache[key][1]


class CalculatorReads:
    """Converting reads of a calculator class and how each is protected."""

    def __init__(self, prog, cls, extra_hamiltonian_exprs=()):
        self.prog, self.cls = prog, cls
        ham = None
        for m_ in prog.modules.values():
            if m_.name == "quantarhei.qm.hilbertspace.hamiltonian" and "Hamiltonian" in m_.classes:
                ham = m_.classes["Hamiltonian"]
        if ham is None:
            ham = prog.cls("quantarhei.qm.hilbertspace.hamiltonian.Hamiltonian")
        self.hattrs = converted_attributes(prog, ham)
        self.getters = converting_getters(prog)
        self.hparams, self.hfields = hamiltonian_fields(prog, cls)
        self.extra = set(extra_hamiltonian_exprs)
        self.all_hfields = all_hamiltonian_fields(prog)
        self.freq_axis_fields = set()
        self.fattrs = set()
        self.methods = {}
        for b in reversed([x for x in prog.mro(cls) if x is not None]):
            if b.module.name.startswith("quantarhei"):
                for nme, fn in b.methods.items():
                    self.methods[nme] = fn
        self._callers = None
        self.sites = []           # (FuncInfo, node, description, protection or None)
        # attributes of self that hold a frequency axis: assigned from X.get_FrequencyAxis() or FrequencyAxis(...)
        fa = None
        for m_ in prog.modules.values():
            if m_.name == "quantarhei.core.frequency" and "FrequencyAxis" in m_.classes:
                fa = m_.classes["FrequencyAxis"]
        if fa is not None:
            self.fattrs = converted_attributes(prog, fa)
            for fn in self.methods.values():
                for n in walk_no_nested(fn.node):
                    if isinstance(n, ast.Assign) and isinstance(n.value, ast.Call) \
                            and call_name(n.value) in ("get_FrequencyAxis", "FrequencyAxis"):
                        for t_ in n.targets:
                            if isinstance(t_, ast.Attribute) and isinstance(t_.value, ast.Name) and t_.value.id == "self":
                                self.freq_axis_fields.add(t_.attr)
        self._scan()

    # -- which expressions denote the Hamiltonian inside a method
    def _typed_names(self, fn):
        names = set()
        args = {a.arg for a in fn.node.args.args + fn.node.args.kwonlyargs}
        names |= args & self.hparams
        changed = True
        while changed:
            changed = False
            for n in walk_no_nested(fn.node):
                if isinstance(n, ast.Assign) and len(n.targets) == 1 and isinstance(n.targets[0], ast.Name) \
                        and n.targets[0].id not in names and self._is_ham(n.value, names):
                    names.add(n.targets[0].id)
                    changed = True
        # a name that is also bound to something else in the method is not trusted
        for n in walk_no_nested(fn.node):
            if isinstance(n, ast.Assign):
                for t_ in n.targets:
                    if isinstance(t_, ast.Name) and t_.id in names and not self._is_ham(n.value, names):
                        names.discard(t_.id)
        return names

    def _is_ham(self, e, names):
        if isinstance(e, ast.Name):
            return e.id in names
        if isinstance(e, ast.Call) and call_name(e) == "get_Hamiltonian" and isinstance(e.func, ast.Attribute):
            return True
        if isinstance(e, ast.Attribute):
            if norm(e) in self.extra:
                return True
            # self.ham, and the same field of a calculator this one holds (self.hy.ham)
            return e.attr in self.hfields or e.attr in self.all_hfields
        return False

    @staticmethod
    def _shape_only(pm, n):
        """X.data.shape / X.data.dtype / len(X.data): no number is read"""
        p = pm.get(n)
        if isinstance(p, ast.Attribute) and p.attr in ("shape", "dtype", "ndim", "size"):
            return True
        if isinstance(p, ast.Call) and call_name(p) == "len" and p.args and p.args[0] is n:
            return True
        return False

    def _local_shape_only(self, fn, pm, n):
        """`HH = X.data` where every use of HH in the method is HH.shape / len(HH)"""
        p = pm.get(n)
        if not (isinstance(p, ast.Assign) and p.value is n and len(p.targets) == 1 and isinstance(p.targets[0], ast.Name)):
            return False
        var = p.targets[0].id
        stores = [x for x in walk_no_nested(fn.node) if isinstance(x, ast.Name) and x.id == var
                  and isinstance(x.ctx, ast.Store)]
        if len(stores) != 1:
            return False
        uses = [x for x in walk_no_nested(fn.node) if isinstance(x, ast.Name) and x.id == var
                and isinstance(x.ctx, ast.Load)]
        return bool(uses) and all(self._shape_only(pm, x) for x in uses)

    def _reconverted(self, fn, pm, n):
        """the number read in the caller's units is handed straight back to convert_*_2_internal_u (directly,
        or through one local all of whose uses are arguments of such a call): a consistent use of the
        current units, not a calculation with them"""
        def in_conv(x):
            p = pm.get(x)
            while p is not None and not isinstance(p, ast.stmt):
                if isinstance(p, ast.Call) and (call_name(p) or "").endswith("2_internal_u"):
                    return True
                p = pm.get(p)
            return False
        if in_conv(n):
            return True
        p = pm.get(n)
        while p is not None and not isinstance(p, ast.stmt):
            p = pm.get(p)
        if isinstance(p, ast.Assign) and len(p.targets) == 1 and isinstance(p.targets[0], ast.Name):
            var = p.targets[0].id
            stores = [x for x in walk_no_nested(fn.node) if isinstance(x, ast.Name) and x.id == var
                      and isinstance(x.ctx, ast.Store)]
            uses = [x for x in walk_no_nested(fn.node) if isinstance(x, ast.Name) and x.id == var
                    and isinstance(x.ctx, ast.Load)]
            return len(stores) == 1 and bool(uses) and all(in_conv(x) or self._shape_only(pm, x) for x in uses)
        return False

    def _scan(self):
        for fn in self.methods.values():
            names = self._typed_names(fn)
            pm = parents_map(fn.node)
            freq = {t_.id for n in walk_no_nested(fn.node) if isinstance(n, ast.Assign) and isinstance(n.value, ast.Call)
                    and call_name(n.value) in FREQUENCY_DOMAIN_PRODUCERS for t_ in n.targets if isinstance(t_, ast.Name)}
            for n in walk_no_nested(fn.node):
                desc = None
                if isinstance(n, ast.Attribute) and isinstance(n.ctx, ast.Load) and n.attr in self.hattrs \
                        and self._is_ham(n.value, names):
                    if self._shape_only(pm, n) or self._local_shape_only(fn, pm, n):
                        continue
                    desc = norm(n)
                elif isinstance(n, ast.Attribute) and isinstance(n.ctx, ast.Load) and n.attr in self.fattrs \
                        and isinstance(n.value, ast.Attribute) and isinstance(n.value.value, ast.Name) \
                        and n.value.value.id == "self" and n.value.attr in self.freq_axis_fields:
                    if self._shape_only(pm, n) or self._local_shape_only(fn, pm, n):
                        continue
                    desc = norm(n)
                elif isinstance(n, ast.Call) and isinstance(n.func, ast.Attribute) and n.func.attr == "at" \
                        and isinstance(n.func.value, ast.Name) and n.func.value.id in freq:
                    desc = norm(n.func) + "()"
                elif isinstance(n, ast.Call) and isinstance(n.func, ast.Attribute) and n.func.attr in self.getters \
                        and not (isinstance(n.func.value, ast.Call) and call_name(n.func.value) == "super"):
                    desc = norm(n.func) + "()"
                if desc is None:
                    continue
                if not in_int_context(pm, n) and self._reconverted(fn, pm, n):
                    continue
                self.sites.append([fn, n, desc, in_int_context(pm, n)])
        for s in self.sites:
            if s[3] is True:
                s[3] = "block"
            else:
                s[3] = "callers" if self._protected_by_callers(s[0], set()) else None

    def callers(self):
        if self._callers is None:
            self._callers = {}
            for fn in self.methods.values():
                pm = parents_map(fn.node)
                for c in walk_no_nested(fn.node):
                    if isinstance(c, ast.Call) and isinstance(c.func, ast.Attribute) \
                            and isinstance(c.func.value, ast.Name) and c.func.value.id == "self":
                        tgt = demangle_name(fn, c.func.attr)
                        if tgt in self.methods:
                            self._callers.setdefault(tgt, []).append((fn, c, in_int_context(pm, c)))
        return self._callers

    def _protected_by_callers(self, fn, seen):
        """private helper, called at least once, every call site inside a block or in a helper that is
        itself protected by its callers"""
        if not fn.name.startswith("_") or (fn.name.startswith("__") and fn.name.endswith("__")):
            return False
        if fn.name in seen:
            return False
        cs = self.callers().get(fn.name, [])
        if not cs:
            return False
        for caller, call, inside in cs:
            if inside:
                continue
            if not self._protected_by_callers(caller, seen | {fn.name}):
                return False
        return True


def demangle_name(fn, attr):
    from .loader import demangle
    return demangle(fn, attr)


# ----------------------------------------------------------------------
# objects rebuilt from stored parameters
def stored_param_rebuilds(prog, cls):
    """Calls of a bath-function constructor, in any method of cls, whose parameter argument derives from the
    stored `.params` of an existing object (directly, through dictionary copies, or through a list the
    method fills from them).  Stored parameters are in internal units; the constructor converts from the
    units current at the call, so such a call is right only under energy_units('int').
    Returns [(FuncInfo, call node, inside internal units?, text of the argument)]."""
    out = []
    for fn in cls.methods.values():
        tainted = set()
        changed = True

        def dirty(e):
            for x in ast.walk(e):
                if isinstance(x, ast.Attribute) and x.attr == "params" and isinstance(x.ctx, ast.Load):
                    return True
                if isinstance(x, ast.Name) and isinstance(x.ctx, ast.Load) and x.id in tainted:
                    return True
            return False
        while changed:
            changed = False
            for n in walk_no_nested(fn.node):
                new = []
                if isinstance(n, ast.Assign) and dirty(n.value):
                    new = [t_.id for t_ in n.targets if isinstance(t_, ast.Name)]
                elif isinstance(n, ast.For) and dirty(n.iter):
                    new = [x.id for x in ast.walk(n.target) if isinstance(x, ast.Name)]
                elif isinstance(n, ast.Call) and isinstance(n.func, ast.Attribute) and n.func.attr in ("append", "extend") \
                        and isinstance(n.func.value, ast.Name) and n.args and dirty(n.args[0]):
                    new = [n.func.value.id]
                for v in new:
                    if v not in tainted:
                        tainted.add(v)
                        changed = True
        pm = parents_map(fn.node)
        for c in walk_no_nested(fn.node):
            if isinstance(c, ast.Call) and call_name(c) in CTORS and not (isinstance(c.func, ast.Attribute)
                                                                         and call_name(c) != norm(c.func).split(".")[-1]):
                args = list(c.args[1:2]) + [k.value for k in c.keywords if k.arg == "params"]
                src = [a for a in args if dirty(a)]
                if src:
                    out.append((fn, c, in_int_context(pm, c), norm(src[0])))
    return out
