"""Unit state of parameter dictionaries (bath functions).

The constructors of CorrelationFunction and SpectralDensity receive component parameters in the
energy units that are current for the caller, convert the energy-valued entries
(``energy_params``) to internal units into a second dictionary, and hand one of the two
dictionaries to a builder per component type.  A builder then either uses the entries as
internal-unit numbers (formulas evaluated against the internal-unit axis, ``self.lamb += ...``)
or hands the whole dictionary on to another constructor, which converts again from the units
that are current at that point.

Abstract domain for an energy-valued quantity: RAW (number in the caller's current units) or
INT (number in internal units).  Under an enclosing ``with energy_units("int")`` the current
units *are* internal, so a constructor called there expects INT.  The analysis assumes the
caller's units are not the internal ones (otherwise RAW = INT and nothing can go wrong) and
reports every use whose requirement does not match the state:

  sink                                            requires
  ----------------------------------------------  --------
  self.lamb = / += v                              INT
  v flows into the data handed to _add_me/_make_me INT
  Ctor(axis, D) inside   with energy_units("int")  D is INT
  Ctor(axis, D) outside  any int context           D is RAW
  self.convert_energy_2_internal_u(v)             v is RAW  -> result INT
"""
import ast

from .loader import norm, walk_no_nested, parents_map, call_name, const_value

CONVERTERS_RAW_TO_INT = ("convert_energy_2_internal_u",)
CTORS = ("SpectralDensity", "CorrelationFunction", "FTCorrelationFunction")


def energy_keys(prog, cls):
    for c in prog.mro(cls):
        if c is not None and "energy_params" in c.attrs:
            v = const_value(c.attrs["energy_params"])
            if isinstance(v, (tuple, list)):
                return set(v)
            if isinstance(c.attrs["energy_params"], (ast.Tuple, ast.List)):
                return {e.value for e in c.attrs["energy_params"].elts if isinstance(e, ast.Constant)}
    return None


def in_int_context(pm, node):
    n = pm.get(node)
    while n is not None:
        if isinstance(n, ast.With):
            for it in n.items:
                if norm(it.context_expr) in ('energy_units("int")', "energy_units('int')"):
                    return True
        n = pm.get(n)
    return False


def dispatch_states(prog, cls, ekeys):
    """In __init__: which dictionaries are RAW / INT, and for every call self._make_X(D, ...) the state
    of D.  Returns [(builder name, state, call node)] and the list of problems met."""
    init = cls.methods["__init__"]
    pm = parents_map(init.node)
    conv = {}     # dict variable -> "INT" when filled by the conversion loop
    # pattern: D2[key] = self.convert_energy_2_internal_u(D1[key]) inside `if key in self.energy_params`
    for n in ast.walk(init.node):
        if isinstance(n, ast.Assign) and isinstance(n.targets[0], ast.Subscript) and isinstance(n.targets[0].value, ast.Name) \
                and isinstance(n.value, ast.Call) and call_name(n.value) in CONVERTERS_RAW_TO_INT:
            conv[n.targets[0].value.id] = "INT"
    out = []
    for n in ast.walk(init.node):
        if isinstance(n, ast.Call) and isinstance(n.func, ast.Attribute) and isinstance(n.func.value, ast.Name) \
                and n.func.value.id == "self" and n.func.attr.startswith("_make_") and n.args:
            a = n.args[0]
            st = None
            if isinstance(a, ast.Name):
                if a.id in conv:
                    st = "INT"
                else:
                    st = "INT" if in_int_context(pm, n) else "RAW"
            out.append((n.func.attr, st, n))
    return init, out


class BuilderFlow:
    """def-use of energy-valued entries of the parameter dictionary inside one builder"""

    def __init__(self, prog, f, ekeys, state):
        self.prog, self.f, self.ekeys, self.state = prog, f, ekeys, state
        self.pm = parents_map(f.node)
        args = [a.arg for a in f.node.args.args]
        self.dict = args[1] if len(args) > 1 else None
        self.problems = []      # (key, message, node)
        self.uses = 0

    def _energy_state(self, e, env):
        """state of an expression: 'INT'/'RAW' when it is (a product/ratio involving) an energy entry,
        None when it carries no energy entry"""
        if isinstance(e, ast.Subscript) and isinstance(e.value, ast.Name) and e.value.id == self.dict \
                and isinstance(e.slice, ast.Constant) and e.slice.value in self.ekeys:
            return self.state
        if isinstance(e, ast.Name):
            return env.get(e.id)
        if isinstance(e, ast.Call):
            cn = call_name(e)
            if cn in CONVERTERS_RAW_TO_INT and e.args:
                st = self._energy_state(e.args[0], env)
                if st == "INT":
                    self.problems.append(("double-conversion", "%s converts a value that is already in internal "
                                          "units" % norm(e)[:60], e))
                return "INT" if st is not None else None
            if cn == "iu_energy" and e.args:
                # explicit units: only as good as the units expression; treated as a conversion from RAW
                st = self._energy_state(e.args[0], env)
                return "INT" if st is not None else None
            sts = [self._energy_state(a, env) for a in e.args]
            sts = [s for s in sts if s]
            return ("RAW" if "RAW" in sts else "INT") if sts else None
        if isinstance(e, (ast.BinOp,)):
            sts = [self._energy_state(e.left, env), self._energy_state(e.right, env)]
            sts = [s for s in sts if s]
            return ("RAW" if "RAW" in sts else "INT") if sts else None
        if isinstance(e, ast.UnaryOp):
            return self._energy_state(e.operand, env)
        if isinstance(e, (ast.Tuple, ast.List)):
            sts = [self._energy_state(x, env) for x in e.elts]
            sts = [s for s in sts if s]
            return ("RAW" if "RAW" in sts else "INT") if sts else None
        if isinstance(e, ast.IfExp):
            sts = [self._energy_state(e.body, env), self._energy_state(e.orelse, env)]
            sts = [s for s in sts if s]
            return ("RAW" if "RAW" in sts else "INT") if sts else None
        if isinstance(e, ast.Subscript):
            return self._energy_state(e.value, env)
        return None

    def run(self):
        env = {}
        f = self.f
        data_names = set()
        # names that flow into the data handed to _add_me / _make_me (backward, flow-insensitive)
        for n in walk_no_nested(f.node):
            if isinstance(n, ast.Call) and call_name(n) in ("_add_me", "_make_me") and len(n.args) >= 2:
                for x in ast.walk(n.args[1]):
                    if isinstance(x, ast.Name):
                        data_names.add(x.id)
        changed = True
        assigns = [n for n in walk_no_nested(f.node) if isinstance(n, (ast.Assign, ast.AugAssign))]
        while changed:
            changed = False
            for n in assigns:
                tg = n.targets[0] if isinstance(n, ast.Assign) else n.target
                base = tg
                while isinstance(base, ast.Subscript):
                    base = base.value
                if isinstance(base, ast.Name) and base.id in data_names:
                    for x in ast.walk(n.value):
                        if isinstance(x, ast.Name) and x.id not in data_names:
                            data_names.add(x.id)
                            changed = True
        # forward pass in source order (builders are straight-line with try/if)
        for n in sorted(walk_no_nested(f.node), key=lambda x: (getattr(x, "lineno", 0), getattr(x, "col_offset", 0))):
            if isinstance(n, ast.Assign) and len(n.targets) == 1 and isinstance(n.targets[0], ast.Name):
                st = self._energy_state(n.value, env)
                nm = n.targets[0].id
                if st is not None:
                    env[nm] = st
                    if nm in data_names:
                        self.uses += 1
                        if st != "INT":
                            self.problems.append(("data", "%s enters the component's data while it is in the caller's "
                                                  "units (the axis and the stored data are in internal units)" % norm(n)[:70], n))
            if isinstance(n, (ast.Assign, ast.AugAssign)):
                tg = n.targets[0] if isinstance(n, ast.Assign) else n.target
                if norm(tg) == "self.lamb":
                    st = self._energy_state(n.value, env)
                    if st is not None:
                        self.uses += 1
                        if st != "INT":
                            self.problems.append(("lamb", "%s stores the reorganisation energy in the caller's units; "
                                                  "get_reorganization_energy() converts it from internal units" % norm(n)[:70], n))
            if isinstance(n, ast.Call) and call_name(n) in CTORS and len(n.args) >= 2:
                a = n.args[1]
                if isinstance(a, ast.Name) and a.id == self.dict:
                    self.uses += 1
                    want = "INT" if in_int_context(self.pm, n) else "RAW"
                    if self.state != want:
                        self.problems.append(("ctor", "%s re-interprets the dictionary in the units current at that "
                                              "point (%s), but its energy entries are %s" % (
                                                  norm(n)[:60], "internal, inside energy_units('int')" if want == "INT"
                                                  else "the caller's", "in the caller's units" if self.state == "RAW"
                                                  else "already internal"), n))
        return self.problems


# ----------------------------------------------------------------------
# units-managed properties read outside the method's own protection
def managed_attributes(prog, cls):
    out = set()
    for b in prog.mro(cls):
        if b is None:
            continue
        for nme, val in b.attrs.items():
            if isinstance(val, ast.Call) and norm(val.func).split(".")[-1].startswith("UnitsManaged"):
                out.add(nme)
    return out


def unprotected_managed_reads(prog, cls):
    """For every method of cls that contains a `with energy_units("int")` block (it intends to compute in
    internal units): the reads of units-managed properties of self that lie outside every such block.
    Returns [(FuncInfo, number of protected reads, [unprotected Attribute nodes])]."""
    managed = managed_attributes(prog, cls)
    out = []
    if not managed:
        return out
    for fn in cls.methods.values():
        if not any(isinstance(n, ast.With) and any(norm(it.context_expr) in ('energy_units("int")', "energy_units('int')")
                                                   for it in n.items) for n in ast.walk(fn.node)):
            continue
        pm = parents_map(fn.node)
        reads = [n for n in walk_no_nested(fn.node) if isinstance(n, ast.Attribute) and isinstance(n.ctx, ast.Load)
                 and isinstance(n.value, ast.Name) and n.value.id == "self" and n.attr in managed]
        outside = [n for n in reads if not in_int_context(pm, n)]
        out.append((fn, len(reads) - len(outside), outside))
    return out


def typed_unprotected_reads(prog, func, managed_class="FrequencyAxis"):
    """Reads of units-managed properties of an object that the code itself has established to be a
    `managed_class` instance (branch of `isinstance(x, managed_class)`), outside energy_units('int').
    Returns (number of typed reads examined, [unprotected Attribute nodes])."""
    cls = None
    for m_ in prog.modules.values():
        if managed_class in m_.classes:
            cls = m_.classes[managed_class]
    if cls is None:
        return 0, []
    managed = managed_attributes(prog, cls)
    pm = parents_map(func.node)
    total, bad = 0, []
    for n in walk_no_nested(func.node):
        if not (isinstance(n, ast.If) and isinstance(n.test, ast.Call) and call_name(n.test) == "isinstance"
                and len(n.test.args) == 2 and isinstance(n.test.args[0], ast.Name)
                and norm(n.test.args[1]).split(".")[-1] == managed_class):
            continue
        var = n.test.args[0].id
        names = {var: 0}         # name -> line from which it denotes the managed object
        ends = {}                # name -> line at which it is rebound to something else
        body_nodes = [x for st in n.body for x in ast.walk(st)]
        for x in sorted([y for y in body_nodes if isinstance(y, ast.Assign)], key=lambda y: y.lineno):
            for t_ in x.targets:
                if isinstance(t_, ast.Name):
                    if isinstance(x.value, ast.Name) and x.value.id in names and x.value.id not in ends:
                        names[t_.id] = x.lineno
                        ends.pop(t_.id, None)
                    elif t_.id in names and t_.id not in ends:
                        ends[t_.id] = x.lineno
        for x in body_nodes:
            if isinstance(x, ast.Attribute) and isinstance(x.ctx, ast.Load) and isinstance(x.value, ast.Name) \
                    and x.value.id in names and x.attr in managed:
                ln = x.lineno
                if ln < names[x.value.id] or (x.value.id in ends and ln > ends[x.value.id]):
                    continue
                total += 1
                if not in_int_context(pm, x):
                    bad.append(x)
    return total, bad


# ----------------------------------------------------------------------
# representation-dependent reads kept on self
def cached_managed_reads(prog, cls, managed=("data",), holders=None):
    """Attributes of self that keep the result of a basis-/units-managed read of another object
    (`self.A = self.ham.data`, `self.A = ham.data[...]`) and are loaded by a different method.  The
    managed read returns the representation current at that moment; used later, under another basis
    or units context, the kept array belongs to the wrong representation.
    Returns [(attr, storing FuncInfo, store node, [loading FuncInfo])]."""
    stores = {}
    for f in cls.methods.values():
        for n in walk_no_nested(f.node):
            if isinstance(n, ast.Assign):
                for t_ in n.targets:
                    if isinstance(t_, ast.Attribute) and isinstance(t_.value, ast.Name) and t_.value.id == "self":
                        reads = [x for x in ast.walk(n.value) if isinstance(x, ast.Attribute) and x.attr in managed
                                 and isinstance(x.ctx, ast.Load) and not (isinstance(x.value, ast.Name) and x.value.id == "self")]
                        if holders is not None:
                            reads = [x for x in reads if norm(x.value) in holders]
                        # a copy taken for bookkeeping of shapes etc. is not a representation: only array reads
                        reads = [x for x in reads if not isinstance(getattr(x, "_parent", None), ast.Attribute)]
                        if reads:
                            stores.setdefault(t_.attr, []).append((f, n))
    out = []
    for attr, sts in stores.items():
        loaders = []
        for f in cls.methods.values():
            if any(f is sf for sf, _ in sts):
                continue
            if any(isinstance(x, ast.Attribute) and isinstance(x.ctx, ast.Load) and x.attr == attr
                   and isinstance(x.value, ast.Name) and x.value.id == "self" for x in walk_no_nested(f.node)):
                loaders.append(f)
        for sf, n in sts:
            # `self.A = obj.data.shape[0]` and similar scalars are not representations
            v = n.value
            scalar = isinstance(v, ast.Subscript) and isinstance(v.value, ast.Attribute) and v.value.attr == "shape"
            if not scalar:
                out.append((attr, sf, n, loaders))
    return out


def constructor_loop_states(prog, cls, ekeys):
    """Energy entries added to self.lamb directly in __init__ (the branch taken when values are given):
    for every loop `for D in L` (also through zip) the dictionaries D are RAW when L collects the
    caller's dictionaries and INT when L collects the converted ones.  Returns
    [(loop variable, state, sink node)] for every `self.lamb = / +=  D[<energy key>]`."""
    init = cls.methods["__init__"]
    conv = set()
    for n in ast.walk(init.node):
        if isinstance(n, ast.Assign) and isinstance(n.targets[0], ast.Subscript) and isinstance(n.targets[0].value, ast.Name) \
                and isinstance(n.value, ast.Call) and call_name(n.value) in CONVERTERS_RAW_TO_INT:
            conv.add(n.targets[0].value.id)
    liststate = {}
    for n in ast.walk(init.node):
        if isinstance(n, ast.Call) and isinstance(n.func, ast.Attribute) and n.func.attr == "append" and n.args:
            lst = norm(n.func.value)
            v = n.args[0]
            if isinstance(v, ast.Name):
                st = "INT" if v.id in conv else "RAW"
                liststate[lst] = st if liststate.get(lst, st) == st else "MIXED"
    out = []
    pm = parents_map(init.node)
    for lp in [n for n in ast.walk(init.node) if isinstance(n, ast.For)]:
        pairs = []
        if isinstance(lp.iter, ast.Call) and call_name(lp.iter) == "zip" and isinstance(lp.target, ast.Tuple):
            pairs = list(zip(lp.target.elts, lp.iter.args))
        else:
            pairs = [(lp.target, lp.iter)]
        for tgt, it_ in pairs:
            if not isinstance(tgt, ast.Name):
                continue
            st = liststate.get(norm(it_))
            if st is None:
                continue
            if in_int_context(pm, lp) and st == "RAW":
                st = "INT"
            for n in ast.walk(lp):
                if isinstance(n, (ast.Assign, ast.AugAssign)):
                    t_ = n.targets[0] if isinstance(n, ast.Assign) else n.target
                    if norm(t_) == "self.lamb":
                        for x in ast.walk(n.value):
                            if isinstance(x, ast.Subscript) and isinstance(x.value, ast.Name) and x.value.id == tgt.id \
                                    and isinstance(x.slice, ast.Constant) and x.slice.value in ekeys:
                                out.append((tgt.id, st, n))
    return init, out
