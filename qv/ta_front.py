"""Front end of the index algebra: an abstract interpreter that turns the
tensor-assembling statements of the package (loop nests over ``range``,
subscript loads/stores, dot/transpose/conj/tensordot/einsum/trace,
elementwise arithmetic, index-equality guards, scalar accumulators, calls
inlined through the resolver) into TA expressions.

Anything outside the vocabulary on a path that has to be interpreted raises
``AnalysisError`` (fail closed).
"""
import ast

from .loader import walk_no_nested, AnalysisError, FuncInfo, ClassInfo, Module, norm, dotted
from . import ta
from .ta import Expr, Array, C


class Index:
    """A loop index symbol."""
    __slots__ = ("name", "range_text")

    def __init__(self, name, range_text=""):
        self.name = name
        self.range_text = range_text

    def __repr__(self):
        return "Index(%s)" % self.name


class IndexPlus:
    """index + positive integer offset (only as the start of a range)."""
    __slots__ = ("index", "k")

    def __init__(self, index, k):
        self.index = index
        self.k = k


class IndexTable:
    """An integer-valued lookup table used to compute positions
    (hierarchy link tables): a subscript yields an opaque index symbol."""

    def __init__(self, name):
        self.name = name


class Unknown:
    __slots__ = ("why",)

    def __init__(self, why):
        self.why = why

    def __repr__(self):
        return "Unknown(%s)" % self.why


class Obj:
    """Symbolic object: attribute dictionary, optional class for method
    resolution, and a provider for attributes not yet set."""

    def __init__(self, name, cls=None, attrs=None, provider=None, alias=None):
        self.name = name
        self.cls = cls
        self.attrs = dict(attrs or {})
        self.provider = provider
        self.alias = dict(alias or {})

    def set(self, attr, val):
        self.attrs[self.alias.get(attr, attr)] = val

    def get(self, attr):
        attr = self.alias.get(attr, attr)
        if attr in self.attrs:
            return self.attrs[attr]
        if self.provider is not None:
            v = self.provider(self, attr)
            if v is not None:
                self.attrs[attr] = v
                return v
        return Unknown("%s.%s" % (self.name, attr))

    def __repr__(self):
        return "Obj(%s)" % self.name


class Slice:
    def __repr__(self):
        return ":"


FULL = Slice()


class _Return(Exception):
    def __init__(self, value):
        self.value = value


class LoopFrame:
    def __init__(self, index):
        self.index = index
        self.arr_before = {}     # id(array) -> (array, template before first write in loop)
        self.arr_writes = {}     # id(array) -> list of position tuples where loop index was used
        self.name_before = {}    # scalar name -> value before loop (for accumulators)
        self.name_aug = set()
        self.name_assigned = set()


NOOP_CALLS = {"print", "log_detail", "log_quick", "log_report", "log_urgent", "log_info",
              "start_parallel_region", "close_parallel_region", "allreduce",
              "printlog", "log_to_file"}


class Interp:
    def __init__(self, prog, inline_depth=4, branch_oracle=None, call_hook=None,
                 on_call=None, lenient=False):
        self.prog = prog
        self.lenient = lenient
        self.havoced = {}               # opaque name -> dtype_real
        self.havoc_log = []
        self.inline_depth = inline_depth
        self.branch_oracle = branch_oracle
        self.call_hook = call_hook      # (interp, func, call, callee_name, args, kwargs) -> value or NotImplemented
        self.loops = []
        self.trace = []                 # interpreted statements (evidence)
        self.loop_ranges = []           # (index name, range text)
        self.stack = []                 # FuncInfo being interpreted
        self.assumptions = set()
        self.noop_seen = []
        self.stores = 0
        self.coverage_gaps = []         # loops that fill an axis allocated with a different extent
        self.base_facts = ta.Facts()
        self.opaque_elems = {}          # opaque element name -> rhs text
        self.fn_args = {}               # opaque function factor -> (fn, argument, indices)

    # ------------------------------------------------------------------
    def err(self, node, msg):
        f = self.stack[-1] if self.stack else None
        where = f.loc(node) if f is not None and node is not None else "?"
        raise AnalysisError("TA front end: %s at %s: %s" % (
            msg, where, norm(node)[:120] if node is not None else ""))

    # ------------------------------------------------------------------
    def call_function(self, func, args, kwargs=None, self_obj=None):
        """Interpret ``func`` (FuncInfo) with positional args (values)."""
        if len(self.stack) >= self.inline_depth + 1:
            raise AnalysisError("inlining bound exceeded at %s" % func.qualname)
        a = func.node.args
        params = [p.arg for p in a.args]
        env = {}
        vals = list(args)
        if self_obj is not None:
            vals = [self_obj] + vals
        if len(vals) > len(params):
            raise AnalysisError("too many arguments for %s" % func.qualname)
        for p, v in zip(params, vals):
            env[p] = v
        kwargs = dict(kwargs or {})
        defaults = a.defaults
        first_default = len(params) - len(defaults)
        for i, p in enumerate(params):
            if p in env:
                continue
            if p in kwargs:
                env[p] = kwargs.pop(p)
            elif i >= first_default:
                env[p] = self.eval_const_default(defaults[i - first_default])
            else:
                raise AnalysisError("missing argument %s for %s" % (p, func.qualname))
        for ka, kd in zip(a.kwonlyargs, a.kw_defaults):
            if ka.arg in kwargs:
                env[ka.arg] = kwargs.pop(ka.arg)
            elif kd is not None:
                env[ka.arg] = self.eval_const_default(kd)
        if kwargs:
            raise AnalysisError("unexpected keyword(s) %s for %s" % (sorted(kwargs), func.qualname))
        self.stack.append(func)
        outer_loops = self.loops
        try:
            try:
                self.exec_body(func.node.body, env)
            except _Return as r:
                return r.value
            return None
        finally:
            self.stack.pop()
            self.loops = outer_loops

    def eval_const_default(self, node):
        try:
            return ast.literal_eval(node)
        except Exception:
            return Unknown("default " + norm(node))

    # ------------------------------------------------------------------
    def exec_body(self, body, env):
        for st in body:
            self.exec_stmt(st, env)

    def exec_stmt(self, st, env):
        if not self.lenient:
            return self.exec_stmt_strict(st, env)
        nloops = len(self.loops)
        nguards = len(self.guard_stack)
        try:
            try:
                return self.exec_stmt_strict(st, env)
            except (TypeError, ValueError, IndexError, KeyError) as e:
                raise AnalysisError("TA front end: %s: %s" % (type(e).__name__, e))
        except AnalysisError as e:
            del self.loops[nloops:]
            del self.guard_stack[nguards:]
            self.havoc_stmt(st, env, str(e))

    def havoc_array(self, arr, why=""):
        base = (arr.name or "arr").split("~")[0]
        name = "%s~%d" % (base, next(ta._counter))
        arr.template = Expr.factor(name, tuple(Array.ph(k) for k in range(arr.rank)))
        arr.name = name
        arr.havoc_gen = getattr(arr, "havoc_gen", 0) + 1
        self.havoced[name] = bool(arr.dtype_real)

    def havoc_stmt(self, st, env, why):
        f = self.stack[-1]
        names = set()
        assigned = set()

        def base_names(e):
            for n in ast.walk(e):
                if isinstance(n, ast.Name):
                    names.add(n.id)
        for n in ast.walk(st):
            if isinstance(n, ast.Name) and isinstance(n.ctx, ast.Store):
                assigned.add(n.id)
                names.add(n.id)
            elif isinstance(n, (ast.Assign, ast.AugAssign)):
                for t in (n.targets if isinstance(n, ast.Assign) else [n.target]):
                    base_names(t)
            elif isinstance(n, ast.Call):
                # a call may mutate its receiver and its arguments, unless it
                # is a (pure) numpy/scipy function
                ext = self.prog.external_name(f, n.func)
                if ext is not None and ext.split(".")[0] in ("numpy", "scipy") \
                        and not any(k.arg == "out" for k in n.keywords):
                    continue
                if _callname(n) in NOOP_CALLS or _callname(n) in ("print", "len", "range", "isinstance"):
                    continue
                if isinstance(n.func, ast.Attribute):
                    base_names(n.func.value)
                for a in n.args:
                    base_names(a)
                for k in n.keywords:
                    base_names(k.value)
        done = []
        seen = set()

        def hv(v):
            if isinstance(v, Array) and id(v) not in seen:
                seen.add(id(v))
                self.havoc_array(v)
                done.append(v.name)
            elif isinstance(v, Obj) and id(v) not in seen:
                seen.add(id(v))
                for a in list(v.attrs.values()):
                    hv(a)
            elif isinstance(v, (tuple, list)):
                for x in v:
                    hv(x)
        for nm in sorted(names):
            hv(env.get(nm))
        for nm in assigned:
            if not isinstance(env.get(nm), Array) or nm in assigned:
                env[nm] = Unknown("assigned by an uninterpreted statement")
        self.havoc_log.append("%s: %s  [%s] havoc=%s" % (
            f.loc(st), norm(st)[:70], why[:110], ",".join(done)))

    def exec_stmt_strict(self, st, env):
        f = self.stack[-1]
        if isinstance(st, ast.Expr):
            if isinstance(st.value, ast.Constant):
                return          # docstring
            if isinstance(st.value, ast.Call):
                self.eval(st.value, env)
                return
            return
        if isinstance(st, (ast.Import, ast.ImportFrom, ast.Pass, ast.Global)):
            return
        self.trace.append("%s: %s" % (f.loc(st), norm(st)[:100]))
        if isinstance(st, ast.Assign):
            val = self.eval(st.value, env)
            for t in st.targets:
                self.assign(t, val, env, st)
            return
        if isinstance(st, ast.AugAssign):
            self.augassign(st, env)
            return
        if isinstance(st, ast.For):
            self.exec_for(st, env)
            return
        if isinstance(st, ast.If):
            self.exec_if(st, env)
            return
        if isinstance(st, ast.Return):
            raise _Return(self.eval(st.value, env) if st.value is not None else None)
        if isinstance(st, ast.With):
            for it in st.items:
                if it.optional_vars is not None:
                    self.assign(it.optional_vars, Unknown("with-target"), env, st)
            self.exec_body(st.body, env)
            return
        if isinstance(st, ast.Raise):
            self.err(st, "raise on an interpreted path")
        if isinstance(st, ast.Try):
            self.exec_body(st.body, env)
            self.exec_body(st.orelse, env)
            self.exec_body(st.finalbody, env)
            return
        if isinstance(st, ast.Delete):
            return
        self.err(st, "statement kind %s not in vocabulary" % type(st).__name__)

    # ------------------------------------------------------------------
    def exec_if(self, st, env):
        cond = self.eval_cond(st.test, env)
        if cond is True:
            self.exec_body(st.body, env)
            return
        if cond is False:
            self.exec_body(st.orelse, env)
            return
        # cond is an Expr weight in {0,1} (index equality structure)
        w = cond
        self.guard_stack.append(w)
        try:
            self.exec_body(st.body, env)
        finally:
            self.guard_stack.pop()
        if st.orelse:
            self.guard_stack.append(Expr.const(1) - w)
            try:
                self.exec_body(st.orelse, env)
            finally:
                self.guard_stack.pop()

    @property
    def guard_stack(self):
        if not hasattr(self, "_guards"):
            self._guards = []
        return self._guards

    def guard(self):
        g = Expr.const(1)
        for w in self.guard_stack:
            g = g * w
        return g

    def eval_cond(self, test, env):
        """True / False / Expr weight."""
        if self.branch_oracle is not None:
            r = self.branch_oracle(self, test, env)
            if r is not None:
                return r
        if isinstance(test, ast.Constant):
            return bool(test.value)
        if isinstance(test, ast.UnaryOp) and isinstance(test.op, ast.Not):
            c = self.eval_cond(test.operand, env)
            if c is True or c is False:
                return not c
            return Expr.const(1) - c
        if isinstance(test, ast.BoolOp):
            vals = [self.eval_cond(v, env) for v in test.values]
            if isinstance(test.op, ast.And):
                if any(v is False for v in vals):
                    return False
                vals = [v for v in vals if v is not True]
                if not vals:
                    return True
                w = Expr.const(1)
                for v in vals:
                    w = w * v
                return w
            else:
                if any(v is True for v in vals):
                    return True
                vals = [v for v in vals if v is not False]
                if not vals:
                    return False
                # a or b = 1 - (1-a)(1-b)
                w = Expr.const(1)
                for v in vals:
                    w = w * (Expr.const(1) - v)
                return Expr.const(1) - w
        if isinstance(test, ast.Compare) and len(test.ops) == 1:
            l = self.eval(test.left, env)
            r = self.eval(test.comparators[0], env)
            op = test.ops[0]
            if isinstance(l, Index) and isinstance(r, Index):
                if isinstance(op, ast.Eq):
                    return Expr.delta(l.name, r.name)
                if isinstance(op, ast.NotEq):
                    return Expr.const(1) - Expr.delta(l.name, r.name)
                self.err(test, "ordering comparison of indices")
            if _is_pyconst(l) and _is_pyconst(r):
                try:
                    if isinstance(op, ast.Eq):
                        return l == r
                    if isinstance(op, ast.NotEq):
                        return l != r
                    if isinstance(op, ast.Is):
                        return l is r
                    if isinstance(op, ast.IsNot):
                        return l is not r
                    if isinstance(op, ast.Gt):
                        return l > r
                    if isinstance(op, ast.Lt):
                        return l < r
                    if isinstance(op, ast.GtE):
                        return l >= r
                    if isinstance(op, ast.LtE):
                        return l <= r
                except TypeError:
                    pass
            if isinstance(op, (ast.Is, ast.IsNot)) and _is_pyconst(r) and r is None:
                if isinstance(l, (Array, Expr, Obj, Index)):
                    return isinstance(op, ast.IsNot)
        else:
            v = self.eval(test, env)
            if _is_pyconst(v):
                return bool(v)
        self.err(test, "undecidable branch condition")

    # ------------------------------------------------------------------
    def exec_for(self, st, env):
        it = st.iter
        if not (isinstance(it, ast.Call) and _callname(it) in ("range", "block_distributed_range")):
            self.err(st, "for-loop not over range()")
        args = it.args
        if len(args) == 1:
            start, stop = None, args[0]
        elif len(args) == 2:
            start, stop = args
        else:
            self.err(st, "range with step")
        lower = None
        if start is not None:
            sv = self.eval(start, env)
            if isinstance(sv, IndexPlus) and sv.k == 1:
                lower = sv.index
            elif not (_is_pyconst(sv) and sv == 0):
                self.err(st, "range not starting at 0")
        if st.orelse:
            self.err(st, "for-else")
        if not isinstance(st.target, ast.Name):
            self.err(st, "loop target")
        name = st.target.id
        sym = "%s@%d" % (name, next(ta._counter))
        idx = Index(sym, norm(stop))
        self.loop_ranges.append((name, norm(stop), self.stack[-1].short))
        frame = LoopFrame(idx)
        saved = env.get(name, None)
        env[name] = idx
        self.loops.append(frame)
        if lower is not None:
            # for v in range(u+1, N): the body runs under the guard u < v
            self.guard_stack.append(Expr.factor("#lt", (lower.name, sym)))
        try:
            self.exec_body(st.body, env)
        finally:
            self.loops.pop()
            if lower is not None:
                self.guard_stack.pop()
        self.close_loop(frame, env)
        # the loop variable leaks its last value: not representable
        env[name] = Unknown("leaked loop variable %s" % name)

    def close_loop(self, frame, env):
        v = frame.index.name
        for key, (arr, before, gen) in frame.arr_before.items():
            if getattr(arr, "havoc_gen", 0) != gen:
                self.havoc_array(arr)
                continue
            delta = arr.template - before
            arr.template = before + _sum_out(delta, v)
            # propagate bookkeeping to the enclosing loop
            if self.loops:
                outer = self.loops[-1]
                if key not in outer.arr_before:
                    outer.arr_before[key] = (arr, before, gen)
        for nm in frame.name_assigned:
            if nm in frame.name_aug and nm in frame.name_before:
                pass
            elif isinstance(env.get(nm), (Expr, Array)) and nm not in frame.name_before:
                env[nm] = Unknown("loop temporary %s used after loop" % nm)
        for nm in frame.name_aug:
            if nm in frame.name_assigned and nm not in frame.name_before:
                continue
            before = frame.name_before.get(nm)
            now = env.get(nm)
            if before is None:
                continue
            if isinstance(now, Array) and isinstance(before, tuple):
                # array accumulated by rebinding (ven += ...): before = (rank, template)
                delta = now.template - before[1]
                now.template = before[1] + _sum_out(delta, v)
                if self.loops:
                    outer = self.loops[-1]
                    if nm not in outer.name_before:
                        outer.name_before[nm] = before
                        outer.name_aug.add(nm)
            elif isinstance(now, Array) and not isinstance(before, tuple):
                b = ta.as_expr(before)
                now.template = b + _sum_out(now.template - b, v)
            elif isinstance(now, Expr):
                b = ta.as_expr(before)
                env[nm] = b + _sum_out(now - b, v)
                if self.loops:
                    outer = self.loops[-1]
                    if nm not in outer.name_before and nm not in outer.name_assigned:
                        outer.name_before[nm] = before
                        outer.name_aug.add(nm)

    # ------------------------------------------------------------------
    def note_array_write(self, arr, positions_by_loop, idxnames=None, guard=None):
        loopvars = [fr.index.name for fr in self.loops]
        for fr in self.loops:
            k = id(arr)
            if k not in fr.arr_before:
                fr.arr_before[k] = (arr, arr.template, getattr(arr, "havoc_gen", 0))
            fr.arr_writes.setdefault(k, []).append((idxnames, guard, loopvars))

    def check_array_read(self, arr, idx_vals, node):
        """Reads inside a loop that already wrote ``arr`` are sound only when
        the read addresses the current iteration's own element."""
        for depth, fr in enumerate(self.loops):
            k = id(arr)
            if k not in fr.arr_writes:
                continue
            v = fr.index.name
            for (widx, wguard, wloops) in fr.arr_writes[k]:
                if widx is None:
                    self.err(node, "read of an array with a whole-array write pending in loop "
                                   "'%s'" % v)
                # another iteration v' != v of this loop (and any iteration of
                # the loops nested inside it) wrote element widx' under guard
                # wguard'; it aliases this read iff all index pairs coincide
                ren = {}
                for lv in wloops[wloops.index(v):] if v in wloops else [v]:
                    ren[lv] = ta.fresh("w")
                cond = (wguard if wguard is not None else Expr.const(1)).subst(ren)
                for wp, rp in zip(widx, idx_vals):
                    if wp is None or rp is FULL:
                        continue
                    cond = cond * Expr.delta(ren.get(wp, wp), _idxname(rp))
                cond = cond * (Expr.const(1) - Expr.delta(ren[v], v))
                cond = cond * self.guard()
                if ta.normal(cond, self.base_facts):
                    self.err(node, "read may alias an element written by another iteration "
                                   "of loop '%s' (loop-carried dependence not representable)"
                                   % v.split("@")[0])

    # ------------------------------------------------------------------
    def assign(self, target, val, env, st):
        if isinstance(target, ast.Name):
            for fr in self.loops:
                fr.name_assigned.add(target.id)
            if isinstance(val, Array) and val.name is None:
                val.name = target.id
            env[target.id] = val
            return
        if isinstance(target, ast.Tuple):
            if isinstance(val, (tuple, list)) and len(val) == len(target.elts):
                for t, v in zip(target.elts, val):
                    self.assign(t, v, env, st)
                return
            for t in target.elts:
                self.assign(t, Unknown("tuple unpack of " + repr(val)[:40]), env, st)
            return
        if isinstance(target, ast.Attribute):
            obj = self.eval(target.value, env)
            if isinstance(obj, Obj):
                obj.set(target.attr, val)
                return
            self.err(st, "attribute store on non-object")
        if isinstance(target, ast.Subscript):
            self.store(target, val, env, st, mode="=")
            return
        self.err(st, "assignment target")

    def augassign(self, st, env):
        op = {ast.Add: "+", ast.Sub: "-", ast.Mult: "*"}.get(type(st.op))
        if op is None:
            self.err(st, "augmented operator")
        rhs = self.eval(st.value, env)
        t = st.target
        if isinstance(t, ast.Subscript):
            if op == "*":
                self.err(st, "in-place multiplication of an element")
            self.store(t, rhs, env, st, mode=op)
            return
        if isinstance(t, (ast.Name, ast.Attribute)):
            cur = self.eval(t, env)
            if isinstance(cur, Array):
                # in-place on the array object
                if op == "*":
                    new = ta.a_binop("*", cur, rhs)
                    self._note_name_aug(t, cur, env)
                    self.note_array_write(cur, {})
                    cur.template = new.template
                    return
                g = self.guard()
                contrib = ta.a_binop("*", rhs, g) if not g_is_one(g) else rhs
                new = ta.a_binop(op, cur, contrib)
                self.note_array_write(cur, {})
                cur.template = new.template
                self.stores += 1
                return
            if isinstance(cur, (Expr, int, float, complex)) and isinstance(rhs, (Expr, int, float, complex)):
                if isinstance(t, ast.Name):
                    for fr in self.loops:
                        if t.id not in fr.name_assigned and t.id not in fr.name_before:
                            fr.name_before[t.id] = cur
                        fr.name_aug.add(t.id)
                g = self.guard()
                r = ta.as_expr(rhs) * g if not g_is_one(g) else ta.as_expr(rhs)
                new = ta.a_binop(op, ta.as_expr(cur), r)
                if isinstance(t, ast.Name):
                    env[t.id] = new
                else:
                    self.assign(t, new, env, st)
                return
            if isinstance(cur, (Expr, int, float, complex)) and isinstance(rhs, Array) \
                    and isinstance(t, ast.Name) and op in "+-":
                for fr in self.loops:
                    if t.id not in fr.name_assigned and t.id not in fr.name_before:
                        fr.name_before[t.id] = cur
                    fr.name_aug.add(t.id)
                g = self.guard()
                r = ta.a_binop("*", rhs, g) if not g_is_one(g) else rhs
                env[t.id] = ta.a_binop(op, ta.as_expr(cur), r)
                return
            self.err(st, "augmented assignment on %r" % (cur,))
        self.err(st, "augmented assignment target")

    def _note_name_aug(self, t, cur, env):
        pass

    def store(self, target, val, env, st, mode):
        arr = self.eval(target.value, env)
        if not isinstance(arr, Array):
            self.err(st, "subscript store into non-array %r" % (arr,))
        if getattr(arr, "is_view", False):
            self.err(st, "store through a view")
        subs = self.eval_subscript(target.slice, env)
        if len(subs) < arr.rank:
            subs = subs + [FULL] * (arr.rank - len(subs))
        if len(subs) != arr.rank:
            self.err(st, "store rank mismatch (array rank %d)" % arr.rank)
        # rhs element
        slice_pos = [k for k, s in enumerate(subs) if s is FULL]
        virt = [ta.fresh("s") for _ in slice_pos]
        if isinstance(val, Array):
            if val.rank != len(slice_pos):
                self.err(st, "store of rank-%d value into %d sliced dims" % (val.rank, len(slice_pos)))
            rhs = val.at(*virt)
        elif isinstance(val, (Expr, int, float, complex)):
            rhs = ta.as_expr(val)
        elif isinstance(val, Unknown) and self.lenient and getattr(st, "value", None) is not None \
                and norm(target.value) not in {norm(n) for n in ast.walk(st.value)
                                               if isinstance(n, (ast.Name, ast.Attribute))}:
            # value not in the algebra: an opaque element that may depend on
            # every active loop index (and on the sliced positions)
            nm = "?%s" % norm(st.value)[:60]
            self.opaque_elems[nm] = norm(st.value)
            if arr.dtype_real:
                self.havoced[nm] = True
            rhs = Expr.factor(nm, tuple([fr.index.name for fr in self.loops] + virt))
        else:
            self.err(st, "store of non-algebraic value %r" % (val,))
        w = Expr.const(1)
        idxnames = []
        vi = iter(virt)
        positions = {}
        for k, s in enumerate(subs):
            if s is FULL:
                nm = next(vi)
            elif isinstance(s, Index):
                nm = s.name
                positions.setdefault(nm, []).append(k)
            elif isinstance(s, int):
                nm = "#%d" % s
            else:
                self.err(st, "store subscript %r" % (s,))
            idxnames.append(nm)
            w = w * Expr.delta(Array.ph(k), nm)
        self._check_coverage(arr, subs, target, st)
        g = self.guard()
        if mode == "=":
            old = arr.at(*idxnames)
            contrib = w * g * (rhs - old)
        elif mode == "+":
            contrib = w * g * rhs
        else:
            contrib = w * g * (-rhs)
        for v in virt:
            contrib = contrib.sum_over(v)
        widx = [None if s_ is FULL else nm_ for s_, nm_ in zip(subs, idxnames)]
        self.note_array_write(arr, {k: tuple(v) for k, v in positions.items()}, widx, g)
        arr.template = arr.template + contrib
        if len(arr.template.terms) > 24:
            arr.template = ta.simplify(arr.template, self.base_facts)
        arr.written = True
        self.stores += 1

    # ------------------------------------------------------------------
    def _canon_extent(self, expr, func, depth=0):
        """set of source expressions a length expression can stand for in `func`, following plain
        bindings name = name/attribute (flow-insensitive; both arms of a conditional count)"""
        def binds(text):
            out = []
            for n in walk_no_nested(func.node):
                if isinstance(n, ast.Assign):
                    for t_ in n.targets:
                        if norm(t_) == text:
                            out.append(n.value)
            return out
        if isinstance(expr, (ast.Name, ast.Attribute)) and depth < 5:
            bs = binds(norm(expr))
            if bs:
                res = set()
                for b in bs:
                    res |= self._canon_extent(b, func, depth + 1)
                return res
        return {norm(expr)}

    def _check_coverage(self, arr, subs, target, st):
        """The algebra sums a stored contribution over the whole range of the loop index and treats it
        as covering the axis it addresses.  That is only right when the loop runs over the length the
        axis was allocated with; record every axis filled by a loop with a different bound."""
        ext = getattr(arr, "extent_nodes", None)
        if ext is None or getattr(arr, "alloc_func", None) is not self.stack[-1]:
            return
        func = self.stack[-1]
        for k, s_ in enumerate(subs):
            if not isinstance(s_, Index) or s_.name.startswith("#") or not s_.range_text:
                continue
            try:
                bound = ast.parse(s_.range_text, mode="eval").body
            except SyntaxError:
                continue
            a, b = self._canon_extent(ext[k], func), self._canon_extent(bound, func)
            if a != b:
                self.coverage_gaps.append({"array": norm(target.value), "axis": k, "allocated": sorted(a),
                                           "loop_bound": sorted(b), "loc": func.loc(st), "function": func.short})

    # ------------------------------------------------------------------
    def eval_subscript(self, sl, env):
        elts = sl.elts if isinstance(sl, ast.Tuple) else [sl]
        out = []
        for e in elts:
            if isinstance(e, ast.Slice):
                if e.lower is None and e.upper is None and e.step is None:
                    out.append(FULL)
                elif e.lower is None and e.step is None and isinstance(e.upper, ast.Name):
                    # a leading part `:N` of an axis: the element-wise statements interpreted here hold for each index
                    # of that axis separately, so the part is treated like the whole axis (recorded as an assumption)
                    self.partial_slices = getattr(self, "partial_slices", [])
                    self.partial_slices.append(norm(e.upper))
                    out.append(FULL)
                else:
                    self.err(e, "partial slice")
            else:
                v = self.eval(e, env)
                if isinstance(v, Index) or (isinstance(v, int) and not isinstance(v, bool)):
                    out.append(v)
                elif v is Ellipsis:
                    self.err(e, "ellipsis subscript")
                elif isinstance(v, (Unknown, Expr, float)) and not self._depends_on_index(e, env):
                    # loop-invariant position (e.g. Nt-1): a symbolic constant
                    out.append(Index("#" + norm(e)))
                else:
                    self.err(e, "subscript value %r" % (v,))
        return out

    def _depends_on_index(self, e, env):
        for n in ast.walk(e):
            if isinstance(n, ast.Name) and isinstance(env.get(n.id), (Index, IndexPlus)):
                return True
        return False

    def load_subscript(self, node, env):
        base = self.eval(node.value, env)
        if isinstance(base, (tuple, list)):
            i = self.eval(node.slice, env)
            if isinstance(i, int):
                return base[i]
            return Unknown("tuple subscript")
        if isinstance(base, Unknown):
            return Unknown("subscript of %s" % base.why)
        if isinstance(base, IndexTable):
            subs = self.eval_subscript(node.slice, env)
            return Index("#%s[%s]" % (base.name, ",".join(_idxname(x) for x in subs)))
        if not isinstance(base, Array):
            return Unknown("subscript of %r" % (base,))
        subs = self.eval_subscript(node.slice, env)
        if len(subs) < base.rank:
            subs = subs + [FULL] * (base.rank - len(subs))
        if len(subs) != base.rank:
            self.err(node, "load rank mismatch (array rank %d)" % base.rank)
        self.check_array_read(base, subs, node)
        slice_pos = [k for k, s in enumerate(subs) if s is FULL]
        if not slice_pos:
            return base.at(*[_idxname(s) for s in subs])

        def fn(*free):
            it = iter(free)
            return base.at(*[next(it) if s is FULL else _idxname(s) for s in subs])
        view = Array.from_fn(len(slice_pos), fn)
        view.is_view = True
        view.dtype_real = base.dtype_real
        return view

    # ------------------------------------------------------------------
    def eval(self, node, env):
        if isinstance(node, ast.Constant):
            return node.value
        if isinstance(node, ast.Name):
            if node.id in env:
                return env[node.id]
            if node.id in ("True", "False", "None"):
                return {"True": True, "False": False, "None": None}[node.id]
            f = self.stack[-1]
            r = self.prog.resolve_name(f.module, node.id, f)
            if isinstance(r, tuple) and r[0] == "const":
                try:
                    return ast.literal_eval(r[2])
                except Exception:
                    return Unknown("module constant " + node.id)
            if r is not None:
                return r
            return Unknown("name " + node.id)
        if isinstance(node, ast.Attribute):
            if node.attr == "T":
                b = self.eval(node.value, env)
                if isinstance(b, Array):
                    return ta.a_transpose(b)
            base = self.eval(node.value, env)
            if isinstance(base, Obj):
                return base.get(node.attr)
            if isinstance(base, Array):
                if node.attr in ("shape", "ndim", "dtype"):
                    if node.attr == "ndim":
                        return base.rank
                    if node.attr == "shape":
                        return ("shape", base.rank)
                    return Unknown("dtype")
                if node.attr == "real":
                    return _real(base)
                if node.attr == "imag":
                    return _imag(base)
            if isinstance(base, Module):
                r = self.prog.resolve_in_module(base.name, node.attr)
                if r is not None:
                    return r
            if isinstance(base, tuple) and len(base) == 2 and base[0] == "external":
                return ("external", base[1] + "." + node.attr)
            if isinstance(base, ClassInfo):
                a = self.prog.find_class_attr(base, node.attr)
                if a is not None:
                    try:
                        return ast.literal_eval(a[1])
                    except Exception:
                        pass
            return Unknown("attribute %s" % norm(node))
        if isinstance(node, ast.Subscript):
            return self.load_subscript(node, env)
        if isinstance(node, ast.Tuple):
            return tuple(self.eval(e, env) for e in node.elts)
        if isinstance(node, ast.List):
            return [self.eval(e, env) for e in node.elts]
        if isinstance(node, ast.UnaryOp):
            v = self.eval(node.operand, env)
            if isinstance(node.op, ast.USub):
                if isinstance(v, Array):
                    return v.map(lambda e: -e)
                if isinstance(v, Expr):
                    return -v
                if _is_num(v):
                    return -v
            if isinstance(node.op, ast.UAdd):
                return v
            if isinstance(node.op, ast.Not):
                c = self.eval_cond(node, env)
                return c
            return Unknown("unary op")
        if isinstance(node, ast.BinOp):
            return self.eval_binop(node, env)
        if isinstance(node, ast.Call):
            return self.eval_call(node, env)
        if isinstance(node, ast.Compare) or isinstance(node, ast.BoolOp):
            try:
                return self.eval_cond(node, env)
            except AnalysisError:
                return Unknown("comparison")
        if isinstance(node, ast.IfExp):
            c = self.eval_cond(node.test, env)
            if c is True:
                return self.eval(node.body, env)
            if c is False:
                return self.eval(node.orelse, env)
            self.err(node, "conditional expression on index condition")
        if isinstance(node, ast.JoinedStr):
            return Unknown("f-string")
        if isinstance(node, ast.Dict):
            return Unknown("dict")
        return Unknown("expression kind %s" % type(node).__name__)

    def eval_binop(self, node, env):
        l = self.eval(node.left, env)
        r = self.eval(node.right, env)
        op = node.op
        if _is_num(l) and _is_num(r):
            try:
                if isinstance(op, ast.Add):
                    return l + r
                if isinstance(op, ast.Sub):
                    return l - r
                if isinstance(op, ast.Mult):
                    return l * r
                if isinstance(op, ast.Div):
                    return l / r
                if isinstance(op, ast.FloorDiv):
                    return l // r
                if isinstance(op, ast.Pow):
                    return l ** r
                if isinstance(op, ast.Mod):
                    return l % r
            except Exception:
                return Unknown("arithmetic")
        if isinstance(op, ast.Add) and isinstance(l, Index) and isinstance(r, int) and r >= 1:
            return IndexPlus(l, r)
        if isinstance(op, ast.Mod) and isinstance(l, str):
            return Unknown("string formatting")
        if isinstance(op, ast.Add) and isinstance(l, str):
            return Unknown("string concat")
        alg = lambda x: isinstance(x, (Array, Expr)) or _is_num(x)
        if alg(l) and alg(r):
            if isinstance(op, ast.Add):
                return ta.a_binop("+", l, r)
            if isinstance(op, ast.Sub):
                return ta.a_binop("-", l, r)
            if isinstance(op, ast.Mult):
                return ta.a_binop("*", l, r)
            if isinstance(op, ast.MatMult):
                if isinstance(l, Array) and isinstance(r, Array):
                    return ta.a_dot(l, r)
            if isinstance(op, ast.Div):
                inv = self.invert(r, node)
                return ta.a_binop("*", l, inv)
            if isinstance(op, ast.Pow) and _is_num(r) and isinstance(r, int) and r >= 0 and isinstance(l, Expr):
                e = Expr.const(1)
                for _ in range(r):
                    e = e * l
                return e
        if isinstance(l, Unknown) or isinstance(r, Unknown):
            return Unknown("binop with unknown operand (%s)" % norm(node)[:60])
        return Unknown("binop %s" % norm(node)[:60])

    def invert(self, r, node):
        if _is_num(r):
            return Expr.const(C.of(r).inv())
        if isinstance(r, Expr):
            if len(r.terms) == 1 and not r.terms[0].sums and not r.terms[0].deltas:
                t = r.terms[0]
                if all(not f.idx for f in t.factors):
                    return Expr([ta.Term(t.coeff.inv(),
                                         [ta.F(f.name, (), f.conj, -f.pow) for f in t.factors])])
            # opaque inverse of a normalised expression
            nf = ta.normal(r)
            if not nf:
                self.err(node, "division by zero expression")
            free = sorted(r.free())
            name = "inv{" + ";".join(ta.show_normal(nf, limit=50)) + "}"
            return Expr.factor(name, tuple(free))
        self.err(node, "division by non-scalar")

    # ------------------------------------------------------------------
    def eval_call(self, node, env):
        f = self.stack[-1]
        fn = node.func
        cname = _callname(node)
        # keyword / positional evaluation is lazy for no-op calls
        if cname in NOOP_CALLS:
            self.noop_seen.append("%s: %s" % (f.loc(node), norm(node.func)))
            return None
        ext = None
        callee = None
        recv = None
        if isinstance(fn, ast.Attribute):
            basev = self.eval(fn.value, env)
            if isinstance(basev, (Array, Expr)) or _is_num(basev):
                return self.array_method(basev, fn.attr, node, env)
            if isinstance(basev, Obj):
                recv = basev
                if basev.cls is not None:
                    callee = self.prog.find_method(basev.cls, fn.attr)
                if callee is None:
                    v = basev.get(fn.attr)
                    if isinstance(v, FuncInfo):
                        callee = v
            elif isinstance(basev, tuple) and len(basev) == 2 and basev[0] == "external":
                ext = basev[1] + "." + fn.attr
            elif isinstance(basev, Module):
                r = self.prog.resolve_in_module(basev.name, fn.attr)
                if isinstance(r, FuncInfo):
                    callee = r
                elif isinstance(r, ClassInfo):
                    callee = r
                elif isinstance(r, tuple) and r[0] == "external":
                    ext = r[1]
            elif isinstance(basev, ClassInfo):
                callee = self.prog.find_method(basev, fn.attr)
            elif (isinstance(fn.value, ast.Call) and isinstance(fn.value.func, ast.Name)
                  and fn.value.func.id == "super" and f.cls is not None):
                callee = self.prog.find_method(f.cls, fn.attr, after=f.cls)
                recv = env.get("self")
        elif isinstance(fn, ast.Name):
            v = env.get(fn.id)
            if v is None:
                v = self.prog.resolve_name(f.module, fn.id, f)
            if isinstance(v, (FuncInfo, ClassInfo)):
                callee = v
            elif isinstance(v, tuple) and len(v) == 2 and v[0] == "external":
                ext = v[1]
            elif fn.id in ("len", "int", "float", "complex", "abs", "isinstance", "str", "type",
                           "super", "max", "min", "list", "tuple", "range", "hasattr", "getattr"):
                if fn.id in ("float", "complex", "int") and len(node.args) == 1:
                    a = self.eval(node.args[0], env)
                    if isinstance(a, (Expr,)) or _is_num(a):
                        return a
                return Unknown("builtin %s" % fn.id)
        args = [self.eval(a, env) for a in node.args]
        kwargs = {k.arg: self.eval(k.value, env) for k in node.keywords if k.arg}
        if self.call_hook is not None:
            r = self.call_hook(self, f, node, ext or (callee.qualname if callee is not None else cname),
                               args, kwargs)
            if r is not NotImplemented:
                return r
        if ext is not None:
            return self.external_call(ext, args, kwargs, node)
        if isinstance(callee, FuncInfo):
            if callee.cls is not None and recv is not None:
                return self.call_function(callee, args, kwargs, self_obj=recv)
            if callee.cls is not None and recv is None:
                # unbound call through class: first arg is self
                return self.call_function(callee, args, kwargs)
            return self.call_function(callee, args, kwargs)
        if isinstance(callee, ClassInfo):
            return Unknown("instance of %s" % callee.name)
        return Unknown("call %s" % norm(node.func)[:50])

    def array_method(self, base, attr, node, env):
        if attr == "astype" and isinstance(base, Array):
            # same values in another element type (the index algebra works over the complex numbers)
            return base.copy()
        args = [self.eval(a, env) for a in node.args]
        if attr in ("conj", "conjugate") and not args:
            return ta.a_conj(base) if isinstance(base, Array) else _conj_s(base)
        if attr == "copy" and isinstance(base, Array):
            return base.copy()
        if attr == "transpose" and isinstance(base, Array) and not args:
            return ta.a_transpose(base)
        if attr == "dot" and isinstance(base, Array) and len(args) == 1:
            return ta.a_dot(base, args[0])
        if attr == "trace" and isinstance(base, Array):
            return ta.a_trace(base)
        if attr == "fill" and isinstance(base, Array) and len(args) == 1 and _is_num(args[0]):
            self.note_array_write(base, {})
            base.template = Expr.const(args[0]) if args[0] != 0 else Expr.zero()
            return None
        return Unknown("array method %s" % attr)

    def external_call(self, ext, args, kwargs, node):
        name = ext
        short = name.split(".")[-1]
        if not (name.startswith("numpy.") or name.startswith("scipy.")):
            if name.split(".")[0] in ("copy",) and short in ("copy", "deepcopy") and args:
                a = args[0]
                if isinstance(a, Array):
                    return a.copy()
                if isinstance(a, Obj):
                    return Obj(a.name + "'", a.cls, a.attrs, a.provider)
            return Unknown("external call " + name)
        A = lambda k: args[k] if k < len(args) else None
        isarr = lambda x: isinstance(x, Array)
        if short not in ("zeros", "zeros_like", "empty") and \
                any(isinstance(a, Unknown) for a in list(args) + list(kwargs.values())):
            return Unknown("external call %s with unknown argument" % name)
        if short in ("zeros", "zeros_like", "empty"):
            rank = None
            s = A(0)
            if short == "zeros_like" and isarr(s):
                rank = s.rank
            elif isinstance(s, tuple) and len(s) == 2 and s[0] == "shape":
                rank = s[1]
            elif isinstance(s, (tuple, list)):
                rank = len(s)
            elif s is not None and not isinstance(s, Unknown) or isinstance(s, Unknown):
                # a scalar size (int, Expr, Unknown dimension) -> rank 1
                if not isinstance(s, (tuple, list)):
                    rank = 1
            if rank is None:
                self.err(node, "cannot determine rank of allocation")
            arr = Array.zeros(rank)
            # remember how long each axis was declared (source expressions), for the coverage check
            sh = node.args[0] if node.args else None
            if short != "zeros_like" and isinstance(sh, ast.Tuple) and len(sh.elts) == rank:
                arr.extent_nodes = list(sh.elts)
                arr.alloc_func = self.stack[-1]
            elif short != "zeros_like" and sh is not None and rank == 1 and not isinstance(sh, ast.Tuple):
                arr.extent_nodes = [sh]
                arr.alloc_func = self.stack[-1]
            dtn = None
            for kw in node.keywords:
                if kw.arg == "dtype":
                    dtn = kw.value
            if dtn is None and len(node.args) > 1:
                dtn = node.args[1]
            arr.dtype_text = norm(dtn) if dtn is not None else "(default float64)"
            arr.dtype_real = dtn is None or arr.dtype_text in (
                "numpy.float64", "REAL", "float", "numpy.float32", "numpy.float", "qr.REAL",
                "'float64'", "numpy.double")
            if short == "zeros_like" and isarr(s):
                arr.dtype_real = s.dtype_real
            return arr
        if short == "dot" and len(args) == 2 and (isarr(args[0]) or isarr(args[1])):
            if isarr(args[0]) and isarr(args[1]):
                return ta.a_dot(args[0], args[1])
            return ta.a_binop("*", args[0], args[1])
        if short == "matmul" and len(args) == 2 and isarr(args[0]) and isarr(args[1]):
            return ta.a_dot(args[0], args[1])
        if short == "transpose" and len(args) == 1 and isarr(args[0]) and not kwargs:
            return ta.a_transpose(args[0])
        if short == "transpose" and isarr(args[0]) and (len(args) == 2 or "axes" in kwargs):
            axes = args[1] if len(args) == 2 else kwargs["axes"]
            a = args[0]
            if isinstance(axes, (tuple, list)) and sorted(axes) == list(range(a.rank)):
                axes = list(axes)
                # B[i_0 .. i_{r-1}] = A[j_0 .. j_{r-1}] with j[axes[n]] = i[n]
                return Array.from_fn(a.rank, lambda *idx: a.at(*[idx[axes.index(k)] for k in range(a.rank)]))
            self.err(node, "transpose with axes that are not a permutation of the array's axes")
        if short in ("conj", "conjugate") and len(args) == 1:
            return ta.a_conj(args[0]) if isarr(args[0]) else _conj_s(args[0])
        if short in ("multiply", "add", "subtract") and len(args) == 2 and not kwargs and \
                all(isinstance(x, (Array, Expr)) or _is_num(x) for x in args):
            return ta.a_binop({"multiply": "*", "add": "+", "subtract": "-"}[short], args[0], args[1])
        if short == "tensordot" and len(args) >= 2 and isarr(args[0]) and isarr(args[1]):
            axes = kwargs.get("axes", A(2))
            if axes is None:
                axes = 2
            if isinstance(axes, (tuple, list)) and len(axes) == 2 and \
                    all(isinstance(x, (tuple, list)) and all(isinstance(y, int) for y in x) for x in axes):
                return ta.a_tensordot_axes(args[0], args[1], list(axes[0]), list(axes[1]))
            if not isinstance(axes, int):
                self.err(node, "tensordot with non-integer axes")
            return ta.a_tensordot(args[0], args[1], axes)
        if short == "einsum" and args and isinstance(args[0], str):
            return ta.a_einsum(args[0], *args[1:])
        if short == "trace" and len(args) == 1 and isarr(args[0]):
            a = args[0]
            ax1, ax2 = kwargs.get("axis1", 0), kwargs.get("axis2", 1)
            if a.rank == 2 and (ax1, ax2) == (0, 1):
                return ta.a_trace(a)
            if isinstance(ax1, int) and isinstance(ax2, int) and a.rank > 2:
                def fn(*rest):
                    k = ta.fresh("i")
                    it_ = iter(rest)
                    full = [k if p in (ax1, ax2) else next(it_) for p in range(a.rank)]
                    return a.at(*full).sum_over(k)
                return Array.from_fn(a.rank - 2, fn)
        if short == "real" and len(args) == 1:
            return _real(args[0])
        if short == "imag" and len(args) == 1:
            return _imag(args[0])
        if short == "copy" and len(args) == 1 and isarr(args[0]):
            return args[0].copy()
        if short in ("array", "asarray") and len(args) >= 1 and isarr(args[0]):
            return args[0].copy()
        if short == "diag" and len(args) == 1 and isarr(args[0]):
            a = args[0]
            if a.rank == 2:
                return Array.from_fn(1, lambda i: a.at(i, i))
            if a.rank == 1:
                return Array.from_fn(2, lambda i, j: Expr.delta(i, j) * a.at(i))
        if short == "sum" and args and isarr(args[0]) and len(args) <= 2 and \
                isinstance(kwargs.get("axis", args[1] if len(args) == 2 else None), int) and \
                not isinstance(kwargs.get("axis", args[1] if len(args) == 2 else None), bool) and \
                set(kwargs) <= {"axis"} and args[0].rank >= 1:
            # sum over one axis: the result has one index fewer, the summed position carries a bound index
            a = args[0]
            ax = kwargs.get("axis", args[1] if len(args) == 2 else None)
            if not -a.rank <= ax < a.rank:
                self.err(node, "sum over an axis the array does not have")
            ax = ax % a.rank

            def fn_sum(*rest):
                k = ta.fresh("i")
                full = list(rest[:ax]) + [k] + list(rest[ax:])
                return a.at(*full).sum_over(k)
            if a.rank == 1:
                return fn_sum()
            return Array.from_fn(a.rank - 1, fn_sum)
        if short == "sum" and len(args) == 1 and isarr(args[0]) and not kwargs:
            a = args[0]
            ks = [ta.fresh("i") for _ in range(a.rank)]
            e = a.at(*ks)
            for k in ks:
                e = e.sum_over(k)
            return e
        if short == "eye" or short == "identity":
            return Array.from_fn(2, lambda i, j: Expr.delta(i, j))
        if short in ("sqrt", "exp", "abs", "tanh", "cos", "sin", "log") and len(args) == 1:
            a = args[0]
            if _is_num(a):
                nm = "%s{%r}" % (short, a)
                self.fn_args[nm] = (short, a, ())
                if not isinstance(a, complex):
                    self.havoced[nm] = True     # real argument -> real value (sqrt of a non-negative literal)
                return Expr.factor(nm)
            if isinstance(a, Expr):
                nf = ta.normal(a)
                free = sorted(a.free())
                nm = "%s{%s}" % (short, ";".join(ta.show_normal(nf, 50)))
                self.fn_args[nm] = (short, a, tuple(free))
                return Expr.factor(nm, tuple(free))
            if isinstance(a, Array):
                # elementwise function of an array: opaque per element
                nfk = ta.normal(a.template)
                nm = "%s{%s}" % (short, ";".join(ta.show_normal(nfk, 50)))
                phs = tuple(Array.ph(k) for k in range(a.rank))
                amb = tuple(sorted(a.template.free() - set(phs)))
                self.fn_args[nm] = (short, a, phs + amb)
                return Array(a.rank, Expr.factor(nm, phs + amb), origin="computed")
        if short == "inv" and len(args) == 1:
            return Unknown("matrix inverse")
        return Unknown("external call " + name)


# ----------------------------------------------------------------------
def _sum_out(expr, v):
    """Sum the contributions made inside a loop over its index."""
    out = Expr.zero()
    for t in expr.terms:
        e = Expr((t,))
        if v in t.free():
            out = out + e.sum_over(v)
        else:
            # contribution does not depend on the loop index: executed once
            # per iteration -> multiplied by the (symbolic) trip count
            out = out + e * Expr.factor("#trip")
    return out


def g_is_one(g):
    return len(g.terms) == 1 and not g.terms[0].factors and not g.terms[0].deltas \
        and g.terms[0].coeff == C(1)


def _idxname(s):
    if isinstance(s, Index):
        return s.name
    if isinstance(s, int):
        return "#%d" % s
    raise AnalysisError("index value %r" % (s,))


def _is_num(x):
    return isinstance(x, (int, float, complex)) and not isinstance(x, bool)


def _is_pyconst(x):
    return x is None or isinstance(x, (bool, int, float, complex, str))


def _callname(call):
    fn = call.func
    if isinstance(fn, ast.Name):
        return fn.id
    if isinstance(fn, ast.Attribute):
        return fn.attr
    return None


def _conj_s(x):
    if isinstance(x, Expr):
        return x.conj()
    if _is_num(x):
        return complex(x).conjugate() if isinstance(x, complex) else x
    return Unknown("conj of %r" % (x,))


def _real(x):
    half = Expr.const(C(ta.Fraction(1, 2)))
    if isinstance(x, Array):
        return Array(x.rank, (x.template + x.template.conj()) * half, origin="computed")
    if isinstance(x, Expr):
        return (x + x.conj()) * half
    if _is_num(x):
        return complex(x).real
    return Unknown("real of %r" % (x,))


def _imag(x):
    c = Expr.const(C(0, ta.Fraction(-1, 2)))
    if isinstance(x, Array):
        return Array(x.rank, (x.template - x.template.conj()) * c, origin="computed")
    if isinstance(x, Expr):
        return (x - x.conj()) * c
    if _is_num(x):
        return complex(x).imag
    return Unknown("imag of %r" % (x,))
