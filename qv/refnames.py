"""Reference naming of local variables (alpha-normalisation).

Many rules recognise a protocol by the normalised text of statements, which contains the
names of local variables.  Renaming a local variable does not change behaviour, so it must
not change a verdict.  This module makes every rule independent of such renamings at the
level of the loader: when a function's set of local names differs from the one recorded for
it (qv/refnames.json.gz, generated from the tree the rules were confirmed on), the function's
statements are aligned with the recorded ones *with the local names blanked out*, and a
renaming of the current locals towards the recorded names is read off the aligned pairs.

Soundness does not depend on how good the alignment is: whatever map is found is applied only
if it is an injective renaming of plain local variables to names that are free in the
function, i.e. only if the renamed function is alpha-equivalent to the one in /repo.  The rules
then analyse an alpha-equivalent program.  When no such map is found the function is analysed
as it is.

    python -m qv.refnames --build      regenerates the reference from /repo (maintenance only;
                                       never run by a check)
"""
import ast
import copy
import difflib
import gzip
import json
import os
import sys

from .alpha import _local_names

REF_PATH = os.path.join(os.path.dirname(os.path.abspath(__file__)), "refnames.json.gz")
_BLANK = "§"
_ref_cache = None


def load_ref():
    global _ref_cache
    if _ref_cache is None:
        if os.path.exists(REF_PATH):
            with gzip.open(REF_PATH, "rt", encoding="utf-8") as fh:
                _ref_cache = json.load(fh)
        else:
            _ref_cache = {}
    return _ref_cache


def functions_of(tree):
    """(qualified path, node) of every function, including methods and nested functions"""
    out = []

    def rec(node, prefix):
        for ch in ast.iter_child_nodes(node):
            if isinstance(ch, (ast.FunctionDef, ast.AsyncFunctionDef)):
                q = prefix + ch.name
                # setters/getters sharing a name: disambiguate by order of appearance
                k = sum(1 for x, _ in out if x == q or x.startswith(q + "#"))
                out.append((q if k == 0 else "%s#%d" % (q, k), ch))
                rec(ch, q + ".")
            elif isinstance(ch, ast.ClassDef):
                rec(ch, prefix + ch.name + ".")
            else:
                rec(ch, prefix)
    rec(tree, "")
    return out


class _Blank(ast.NodeTransformer):
    def __init__(self, names):
        self.names = names
        self.seq = []

    def visit_Name(self, node):
        if node.id in self.names:
            self.seq.append(node.id)
            return ast.copy_location(ast.Name(id=_BLANK, ctx=node.ctx), node)
        return node

    def visit_FunctionDef(self, node):
        return node

    visit_AsyncFunctionDef = visit_FunctionDef
    visit_Lambda = visit_FunctionDef
    visit_ClassDef = visit_FunctionDef


def _header(st):
    """the part of a statement that is its own (compound statements: the header only)"""
    if isinstance(st, ast.If):
        return "if", [st.test]
    if isinstance(st, ast.While):
        return "while", [st.test]
    if isinstance(st, (ast.For, ast.AsyncFor)):
        return "for", [st.target, st.iter]
    if isinstance(st, (ast.With, ast.AsyncWith)):
        return "with", [x for it in st.items for x in ((it.context_expr, it.optional_vars) if it.optional_vars
                                                       else (it.context_expr,))]
    if isinstance(st, ast.Try):
        return "try", []
    return None, None


def statements(fn):
    out = []

    def rec(body):
        for st in body:
            if isinstance(st, (ast.FunctionDef, ast.AsyncFunctionDef, ast.ClassDef)):
                continue
            out.append(st)
            for fld in ("body", "orelse", "finalbody"):
                b = getattr(st, fld, None)
                if isinstance(b, list) and b and isinstance(b[0], ast.stmt):
                    rec(b)
            for h in getattr(st, "handlers", []) or []:
                rec(h.body)
    rec(fn.body)
    return out


def abstract(fn, names):
    """[(blanked text, [local names in order of occurrence])] for every statement of fn"""
    recs = []
    for st in statements(fn):
        kw, parts = _header(st)
        b = _Blank(names)
        if kw is None:
            node = b.visit(copy.deepcopy(st))
            try:
                txt = ast.unparse(node)
            except Exception:
                txt = type(st).__name__
        else:
            txt = kw + " " + " ; ".join(ast.unparse(b.visit(copy.deepcopy(p))) for p in parts)
        recs.append((txt, b.seq))
    return recs


def rename_map(fn, ref_rec):
    names = _local_names(fn)
    ref_names = set(ref_rec["names"])
    if not names or names == ref_names:
        return {}
    cur = abstract(fn, names)
    ref = ref_rec["stmts"]
    sm = difflib.SequenceMatcher(a=[t for t, _ in cur], b=[t for t, _ in ref], autojunk=False)
    votes = {}
    for blk in sm.get_matching_blocks():
        for k in range(blk.size):
            cs, rs = cur[blk.a + k][1], ref[blk.b + k][1]
            if len(cs) != len(rs):
                continue
            for c, r in zip(cs, rs):
                votes.setdefault(c, {}).setdefault(r, 0)
                votes[c][r] += 1
    cand = sorted(((n, c, r) for c, d in votes.items() for r, n in d.items()), key=lambda x: (-x[0], x[1], x[2]))
    mp, used = {}, set()
    for n, c, r in cand:
        if c in mp or r in used:
            continue
        mp[c] = r
        used.add(r)
    mp = {c: r for c, r in mp.items() if c != r}
    if not mp:
        return {}
    # alpha-equivalence: targets must be free in the function once the renamed names are gone
    all_ids = set()
    for n in ast.walk(fn):
        if isinstance(n, ast.Name):
            all_ids.add(n.id)
        elif isinstance(n, ast.arg):
            all_ids.add(n.arg)
    changed = True
    while changed:
        changed = False
        for c, r in list(mp.items()):
            if r in all_ids and r not in mp:      # r is still in use under its own name
                del mp[c]
                changed = True
    return mp


def apply_to_tree(tree, relpath, log=None):
    ref = load_ref().get(relpath)
    if not ref:
        return 0
    total = 0
    for q, fn in functions_of(tree):
        rec = ref.get(q)
        if rec is None:
            continue
        mp = rename_map(fn, rec)
        if not mp:
            continue

        def visit(node):
            for ch in ast.iter_child_nodes(node):
                if isinstance(ch, (ast.FunctionDef, ast.AsyncFunctionDef, ast.Lambda, ast.ClassDef)):
                    continue
                if isinstance(ch, ast.Name) and ch.id in mp:
                    ch.id = mp[ch.id]
                visit(ch)
        visit(fn)
        total += len(mp)
        if log is not None:
            log.append((relpath, q, dict(mp)))
    return total


def build(repo, relpaths):
    out = {}
    for rel in sorted(relpaths):
        path = os.path.join(repo, rel)
        with open(path, encoding="utf-8", errors="replace") as fh:
            tree = ast.parse(fh.read())
        d = {}
        for q, fn in functions_of(tree):
            names = _local_names(fn)
            if not names:
                continue
            d[q] = {"names": sorted(names), "stmts": [[t, s] for t, s in abstract(fn, names)]}
        out[rel] = d
    return out


if __name__ == "__main__":
    if sys.argv[1:2] == ["--build"]:
        from . import REPO
        from .loader import Program
        import importlib
        from .report import Run
        os.environ["QV_NO_EVIDENCE"] = "1"
        files = set()
        import io
        import contextlib
        for i in range(1, 21):
            pid = "C%02d" % i
            prog = Program(REPO)
            run = Run(pid, "quick", 0)
            run.only = None
            with contextlib.redirect_stdout(io.StringIO()):
                importlib.import_module("qv.rules.%s" % pid.lower()).check(run, prog, "quick")
            files |= set(prog.consulted)
        ref = build(REPO, files)
        with gzip.open(REF_PATH, "wt", encoding="utf-8") as fh:
            json.dump(ref, fh, separators=(",", ":"), sort_keys=True)
        print("reference naming: %d files, %d functions, %d bytes" % (
            len(ref), sum(len(v) for v in ref.values()), os.path.getsize(REF_PATH)))
