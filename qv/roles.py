"""Axis roles: which axis of an array counts site-basis states and which counts eigenstates.

    hD, SS = numpy.linalg.eigh(H)        SS[n, a]: coefficient of site-basis state n in eigenstate a   -> (site, exc)
                                         hD[a]                                                         -> (exc,)
    v[ii] = sbi.CC.get_...(ii-1, ii-1)   filled from the bath of site ii                               -> (site,)

Element-wise operations keep the roles, `.T` / transpose / inv (of a unitary matrix) exchange them, numpy.dot contracts
the last axis of the first factor with the first axis of the second - the two must have the same role - and an index
variable of a loop nest has one role: the one of every axis it subscripts.  |SS|**4 is symmetric for dimers, so a
transposed weight shows only with three or more molecules; the roles show it for every size.
"""
import ast

from .loader import norm, walk_no_nested, parents_map, call_name

SITE, EXC = "site", "exc"
_ELEMENTWISE = ("abs", "absolute", "real", "imag", "conj", "conjugate", "square", "sqrt", "copy", "array", "asarray", "exp")
_SITE_GETTERS = ("get_coft", "get_reorganization_energy", "get_correlation_time", "get_temperature", "get_goft", "get_hoft")


def _full(sl):
    return isinstance(sl, ast.Slice) and sl.lower is None and sl.upper is None and sl.step is None


class Roles:
    def __init__(self, fnode):
        self.f = fnode
        self.pm = parents_map(fnode)
        self.env = {}              # array name -> tuple of roles
        self.findings = []         # (node, message)
        self.checked = 0

    # ---------------------------------------------------------------- expressions
    def rexpr(self, e):
        """tuple of roles of the value of e, or None"""
        if isinstance(e, ast.Name):
            return self.env.get(e.id)
        if isinstance(e, ast.Attribute):
            if e.attr == "T":
                r = self.rexpr(e.value)
                return tuple(reversed(r)) if r else None
            return self.env.get(norm(e))
        if isinstance(e, ast.BinOp):
            a, b = self.rexpr(e.left), self.rexpr(e.right)
            if isinstance(e.op, ast.Pow):
                return a
            if isinstance(e.op, ast.MatMult):
                return self.contract(e, a, b)
            if a and b:
                if len(a) == len(b) and a != b and None not in a and None not in b:
                    self.checked += 1
                    self.findings.append((e, "`%s` combines element by element an array indexed %s with one indexed %s"
                                          % (norm(e)[:60], list(a), list(b))))
                return a
            return a or b
        if isinstance(e, ast.UnaryOp):
            return self.rexpr(e.operand)
        if isinstance(e, ast.Subscript):
            r = self.rexpr(e.value)
            if not r:
                return None
            sl = e.slice.elts if isinstance(e.slice, ast.Tuple) else [e.slice]
            out = []
            for k, role in enumerate(r):
                if k >= len(sl) or _full(sl[k]) or isinstance(sl[k], ast.Slice):
                    out.append(role)
            return tuple(out)
        if isinstance(e, ast.Call):
            fn = (call_name(e) or "").split(".")[-1]
            if fn in _ELEMENTWISE and e.args:
                return self.rexpr(e.args[0])
            if fn in ("transpose",):
                r = self.rexpr(e.args[0] if e.args else e.func.value)
                return tuple(reversed(r)) if r and len(r) == 2 else None
            if fn == "inv" and e.args:
                r = self.rexpr(e.args[0])
                return tuple(reversed(r)) if r and len(r) == 2 else None
            if fn in ("dot", "matmul") and len(e.args) == 2:
                return self.contract(e, self.rexpr(e.args[0]), self.rexpr(e.args[1]))
            if fn == "dot" and isinstance(e.func, ast.Attribute) and len(e.args) == 1 \
                    and norm(e.func.value).split(".")[0] not in ("numpy", "np"):
                return self.contract(e, self.rexpr(e.func.value), self.rexpr(e.args[0]))
            if fn == "einsum" and e.args and isinstance(e.args[0], ast.Constant) and isinstance(e.args[0].value, str):
                return self.einsum(e)
            if fn == "diag" and e.args:
                r = self.rexpr(e.args[0])
                return (r[0], r[0]) if r and len(r) == 1 else None
        return None

    def contract(self, node, a, b):
        if not a or not b:
            return None
        ra, rb = a[-1], b[0]
        if ra is not None and rb is not None:
            self.checked += 1
            if ra != rb:
                self.findings.append((node, "`%s` sums the %s index of the first factor against the %s index of the second"
                                      % (norm(node)[:70], {SITE: "site", EXC: "eigenstate"}[ra], {SITE: "site", EXC: "eigenstate"}[rb])))
        return tuple(a[:-1]) + tuple(b[1:])

    def einsum(self, e):
        spec = e.args[0].value.replace(" ", "")
        if "->" not in spec:
            return None
        ins, out = spec.split("->")
        ins = ins.split(",")
        ops = e.args[1:]
        if len(ins) != len(ops):
            return None
        letter = {}
        for sub, op in zip(ins, ops):
            r = self.rexpr(op)
            if not r or len(r) != len(sub):
                continue
            for ch, role in zip(sub, r):
                if role is None:
                    continue
                if ch in letter and letter[ch] != role:
                    self.checked += 1
                    self.findings.append((e, "`%s` uses the letter %s for a site index and for an eigenstate index" % (norm(e)[:70], ch)))
                letter.setdefault(ch, role)
                self.checked += 1
        return tuple(letter.get(ch) for ch in out)

    # ---------------------------------------------------------------- statements
    def seed(self):
        for st in walk_no_nested(self.f):
            if isinstance(st, ast.Assign) and isinstance(st.value, ast.Call) and norm(st.value.func).endswith("linalg.eigh") \
                    and isinstance(st.targets[0], ast.Tuple) and len(st.targets[0].elts) == 2 \
                    and all(isinstance(x, ast.Name) for x in st.targets[0].elts):
                self.env[st.targets[0].elts[0].id] = (EXC,)
                self.env[st.targets[0].elts[1].id] = (SITE, EXC)
        return bool(self.env)

    def site_loop_vars(self, loop):
        """loop variables handed (plus or minus a constant) to a per-site getter of the bath inside this loop"""
        out = set()
        for c in ast.walk(loop):
            if isinstance(c, ast.Call) and isinstance(c.func, ast.Attribute) and c.func.attr in _SITE_GETTERS \
                    and any(k in norm(c.func.value) for k in ("CC", "sbi", "cfm", "SystemBathInteraction")):
                for a in c.args:
                    b_ = a.left if isinstance(a, ast.BinOp) and isinstance(a.right, ast.Constant) else a
                    if isinstance(b_, ast.Name):
                        out.add(b_.id)
        return out

    def run(self):
        if not self.seed():
            return self
        self.block(self.f.body)
        return self

    def block(self, stmts):
        for st in stmts:
            if isinstance(st, (ast.For, ast.While)):
                self.nest(st)
            elif isinstance(st, ast.If):
                self.block(st.body)
                self.block(st.orelse)
            elif isinstance(st, ast.With):
                self.block(st.body)
            elif isinstance(st, ast.Try):
                self.block(st.body)
                for h in st.handlers:
                    self.block(h.body)
                self.block(st.orelse)
                self.block(st.finalbody)
            elif isinstance(st, ast.Assign):
                r = self.rexpr(st.value)
                for t_ in st.targets:
                    if isinstance(t_, ast.Name):
                        if r and None not in r:
                            self.env[t_.id] = r
                        elif t_.id in self.env and not (isinstance(st.value, ast.Call)
                                                        and norm(st.value.func).endswith("linalg.eigh")):
                            self.env.pop(t_.id, None)
            elif isinstance(st, (ast.Expr, ast.AugAssign, ast.Return)):
                v = st.value
                if v is not None:
                    self.rexpr(v)

    def nest(self, loop):
        """One outermost loop: every index variable has one role."""
        sitevars = self.site_loop_vars(loop)
        var_roles = {}          # name -> {role: first node}
        for v in sitevars:
            var_roles.setdefault(v, {})[SITE] = loop
        subs = []
        for x in ast.walk(loop):
            if isinstance(x, ast.Subscript) and not isinstance(self.pm.get(x), ast.Subscript):
                base = x.value
                r = self.env.get(base.id) if isinstance(base, ast.Name) else self.env.get(norm(base))
                if not r:
                    continue
                sl = x.slice.elts if isinstance(x.slice, ast.Tuple) else [x.slice]
                for k, s_ in enumerate(sl[:len(r)]):
                    if isinstance(s_, ast.Name) and r[k] is not None:
                        var_roles.setdefault(s_.id, {}).setdefault(r[k], x)
                        subs.append((x, s_.id, r[k]))
        for v, rr in var_roles.items():
            if len(rr) > 1:
                node = rr[EXC] if isinstance(rr.get(EXC), ast.Subscript) else rr.get(SITE)
                both = [x for x, name, _r in subs if name == v]
                self.findings.append((both[0] if both else loop,
                                      "the loop index `%s` counts site-basis states in `%s` and eigenstates in `%s`"
                                      % (v, norm(rr[SITE])[:40] if isinstance(rr[SITE], ast.Subscript) else "the call of the bath getter",
                                         norm(rr[EXC])[:40])))
        self.checked += len(subs)
        # arrays filled in this nest take the role of the index they are filled by
        for st in ast.walk(loop):
            if isinstance(st, (ast.Assign, ast.AugAssign)):
                tg = st.targets if isinstance(st, ast.Assign) else [st.target]
                for t_ in tg:
                    if isinstance(t_, ast.Subscript) and isinstance(t_.value, ast.Name) and t_.value.id not in self.env:
                        sl = t_.slice.elts if isinstance(t_.slice, ast.Tuple) else [t_.slice]
                        roles = []
                        for s_ in sl:
                            if isinstance(s_, ast.Name) and len(var_roles.get(s_.id, {})) == 1:
                                roles.append(next(iter(var_roles[s_.id])))
                            else:
                                roles.append(None)
                        if any(r is not None for r in roles):
                            self.env[t_.value.id] = tuple(roles)
        # plain statements inside the nest (dot products and the like)
        for st in ast.walk(loop):
            if isinstance(st, (ast.Assign, ast.AugAssign, ast.Expr)) and st.value is not None:
                self.rexpr(st.value)


def analyse(fnode):
    return Roles(fnode).run()
