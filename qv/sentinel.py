"""Sentinel conflation: `None` stands for 'not given / not there yet' while a falsy value (0, 0.0, False, an empty
array) is a legitimate value of the same name.  A truthiness test (`if not x`, `if x`, `x or y`, `x and y`) cannot tell
the two apart; only `is None` / `is not None` can.

Two users:
 * parameters with default None for which the property names a falsy value as a legitimate input (temperature 0 K);
 * attributes set to None by the constructor and to a boolean (or an unknown value) by the initialiser, where the test
   decides whether the initialiser runs again (replacing what the object holds).
"""
import ast

from .loader import norm, walk_no_nested


def truthiness_uses(node, is_subject):
    """All places under `node` (nested functions excluded) where an expression e with is_subject(e) is used for its truth
    value: test of if/while/ifexp/assert/comprehension-if, operand of `not`, operand of `and`/`or`.  Returns the list of
    (using node, subject node)."""
    out = []

    def as_truth(e, user):
        if is_subject(e):
            out.append((user, e))
        elif isinstance(e, ast.UnaryOp) and isinstance(e.op, ast.Not):
            as_truth(e.operand, user)
        elif isinstance(e, ast.BoolOp):
            for v in e.values:
                as_truth(v, user)

    for x in walk_no_nested(node):
        if isinstance(x, (ast.If, ast.While, ast.IfExp, ast.Assert)):
            as_truth(x.test, x)
        elif isinstance(x, ast.comprehension):
            for c in x.ifs:
                as_truth(c, x)
        elif isinstance(x, ast.BoolOp):
            # value position (x = a or b): the operands but the last are used for their truth value
            for v in x.values[:-1]:
                if is_subject(v):
                    out.append((x, v))
    # de-duplicate (a BoolOp inside an if test is seen twice)
    seen, res = set(), []
    for u, s in out:
        if id(s) not in seen:
            seen.add(id(s))
            res.append((u, s))
    return res


def none_default_params(fnode, names=None):
    """Parameters of the function with default None (restricted to `names` if given)."""
    a = fnode.args
    out = []
    pos = a.posonlyargs + a.args
    for p, d in zip(pos[len(pos) - len(a.defaults):], a.defaults):
        if isinstance(d, ast.Constant) and d.value is None and (names is None or p.arg in names):
            out.append(p.arg)
    for p, d in zip(a.kwonlyargs, a.kw_defaults):
        if d is not None and isinstance(d, ast.Constant) and d.value is None and (names is None or p.arg in names):
            out.append(p.arg)
    return out


def rebinding_lines(fnode, name):
    """Lines at which the local `name` is re-bound (after such a line the name no longer carries the None default)."""
    ls = []
    for x in walk_no_nested(fnode):
        if isinstance(x, (ast.Assign, ast.AugAssign, ast.AnnAssign)):
            tg = x.targets if isinstance(x, ast.Assign) else [x.target]
            for t_ in tg:
                for n_ in ast.walk(t_):
                    if isinstance(n_, ast.Name) and n_.id == name:
                        ls.append(x.lineno)
    return ls


def attr_values(cls_nodes, attr):
    """Classification of everything assigned to self.<attr> in the given class bodies:
    returns (set of kinds, list of (node, kind)); kinds: 'none', 'falsy', 'truthy', 'unknown'."""
    kinds, sites = set(), []
    for c in cls_nodes:
        for x in ast.walk(c):
            if isinstance(x, ast.Assign):
                for t_ in x.targets:
                    if isinstance(t_, ast.Attribute) and t_.attr == attr and norm(t_.value) == "self":
                        v = x.value
                        if isinstance(v, ast.Constant):
                            k = "none" if v.value is None else ("truthy" if v.value else "falsy")
                        else:
                            k = "unknown"
                        kinds.add(k)
                        sites.append((x, k))
    return kinds, sites


def yielding_uses(fnode, name):
    """Blocks `if <name> is not None:` of the function and, in each, the uses of <name> that let a value already there
    win over it: the default of `d.setdefault(k, <name>)` / `d.get(k, <name>)`, a later operand of `x or <name>`.
    A value given explicitly replaces what is stored; only the None default leaves it.  Returns (blocks, [(node, why)])."""
    blocks, bad = [], []
    for x in walk_no_nested(fnode):
        if not isinstance(x, ast.If):
            continue
        t_, neg = x.test, False
        while isinstance(t_, ast.UnaryOp) and isinstance(t_.op, ast.Not):
            t_, neg = t_.operand, not neg
        if not (isinstance(t_, ast.Compare) and len(t_.ops) == 1 and isinstance(t_.left, ast.Name) and t_.left.id == name
                and isinstance(t_.comparators[0], ast.Constant) and t_.comparators[0].value is None):
            continue
        given = isinstance(t_.ops[0], ast.IsNot) != neg
        body = x.body if given else x.orelse
        if not any(isinstance(n_, ast.Name) and n_.id == name for st in body for n_ in ast.walk(st)):
            continue
        blocks.append(x)
        for st in body:
            for c in ast.walk(st):
                if isinstance(c, ast.Call) and isinstance(c.func, ast.Attribute) and c.func.attr in ("setdefault", "get") \
                        and len(c.args) == 2 and isinstance(c.args[1], ast.Name) and c.args[1].id == name:
                    bad.append((c, "`.%s(key, %s)` keeps the stored value when there is one" % (c.func.attr, name)))
                if isinstance(c, ast.BoolOp) and isinstance(c.op, ast.Or):
                    for v in c.values[1:]:
                        if isinstance(v, ast.Name) and v.id == name:
                            bad.append((c, "`... or %s` takes %s only when what stands before it is falsy" % (name, name)))
    return blocks, bad
