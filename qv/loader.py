"""Loader and resolver: parse /repo/quantarhei, build module / import / class
tables with C3 MRO, resolve names and calls.

Everything is derived from the source text on every run.
"""
import ast
import hashlib
import os

from . import REPO, PKG


class AnalysisError(Exception):
    """The analysis itself cannot be carried out (anchor vanished, construct
    outside the vocabulary of a rule).  Fail closed: exit 2, never a pass and
    never a VIOLATION."""


class FuncInfo:
    def __init__(self, name, module, cls, node):
        self.name = name
        self.module = module
        self.cls = cls
        self.node = node

    @property
    def qualname(self):
        if self.cls is not None:
            return "%s.%s.%s" % (self.module.name, self.cls.name, self.name)
        return "%s.%s" % (self.module.name, self.name)

    @property
    def short(self):
        if self.cls is not None:
            return "%s.%s" % (self.cls.name, self.name)
        return self.name

    @property
    def relpath(self):
        return self.module.relpath

    def loc(self, node=None):
        n = node if node is not None else self.node
        return "%s:%d" % (self.module.relpath, getattr(n, "lineno", 0))

    def __repr__(self):
        return "<Func %s>" % self.qualname


class ClassInfo:
    def __init__(self, name, module, node):
        self.name = name
        self.module = module
        self.node = node
        self.methods = {}
        self.attrs = {}      # class-level assignments name -> value node
        self.bases = []      # resolved ClassInfo or None (external)
        self.base_exprs = list(node.bases)
        self._mro = None

    @property
    def qualname(self):
        return "%s.%s" % (self.module.name, self.name)

    def __repr__(self):
        return "<Class %s>" % self.qualname


class Module:
    def __init__(self, name, path, relpath, src, tree, is_pkg):
        self.name = name
        self.path = path
        self.relpath = relpath
        self.src = src
        self.tree = tree
        self.is_pkg = is_pkg
        self.imports = {}    # local name -> ("module", modname) | ("object", modname, attr)
        self.functions = {}
        self.classes = {}
        self.assigns = {}    # module-level name -> value node (last assignment)
        self.star_imports = []

    def __repr__(self):
        return "<Module %s>" % self.name


def _modname_from_path(root, path):
    rel = os.path.relpath(path, root)
    parts = rel[:-3].split(os.sep)
    is_pkg = parts[-1] == "__init__"
    if is_pkg:
        parts = parts[:-1]
    return ".".join(parts), is_pkg


def resolve_relative(modname, is_pkg, level, target):
    """Absolute module name for ``from <level dots><target> import``."""
    if level == 0:
        return target
    parts = modname.split(".")
    if not is_pkg:
        parts = parts[:-1]
    if level > 1:
        parts = parts[:len(parts) - (level - 1)]
    if target:
        parts = parts + target.split(".")
    return ".".join(parts)


def collect_imports(body, modname, is_pkg, out, star=None, deep=False):
    """Collect import bindings from a list of statements (not descending into
    functions/classes unless deep)."""
    for st in body:
        if isinstance(st, ast.Import):
            for al in st.names:
                if al.asname:
                    out[al.asname] = ("module", al.name)
                else:
                    top = al.name.split(".")[0]
                    out[top] = ("module", top)
        elif isinstance(st, ast.ImportFrom):
            src = resolve_relative(modname, is_pkg, st.level, st.module or "")
            for al in st.names:
                if al.name == "*":
                    if star is not None:
                        star.append(src)
                    continue
                out[al.asname or al.name] = ("object", src, al.name)
        elif isinstance(st, (ast.If, ast.Try, ast.With)):
            for fld in ("body", "orelse", "finalbody"):
                collect_imports(getattr(st, fld, []) or [], modname, is_pkg, out, star, deep)
            for h in getattr(st, "handlers", []) or []:
                collect_imports(h.body, modname, is_pkg, out, star, deep)
        elif deep and isinstance(st, (ast.For, ast.While)):
            collect_imports(st.body, modname, is_pkg, out, star, deep)
            collect_imports(st.orelse, modname, is_pkg, out, star, deep)


class Program:
    def __init__(self, repo=REPO, pkg=PKG):
        self.repo = repo
        self.pkg = pkg
        self.modules = {}
        self.unparsed = {}
        self.consulted = set()
        self.renamed = []     # (relpath, function, {current local name: reference name})
        self._load()
        self._index()

    # ------------------------------------------------------------------
    def _load(self):
        root = self.repo
        pkgdir = os.path.join(root, self.pkg)
        if not os.path.isdir(pkgdir):
            raise AnalysisError("package directory %s not found" % pkgdir)
        for dp, dns, fns in os.walk(pkgdir):
            dns[:] = sorted(d for d in dns if d != "__pycache__")
            for fn in sorted(fns):
                if not fn.endswith(".py"):
                    continue
                path = os.path.join(dp, fn)
                relpath = os.path.relpath(path, root)
                with open(path, "r", encoding="utf-8", errors="replace") as fh:
                    src = fh.read()
                name, is_pkg = _modname_from_path(root, path)
                try:
                    tree = ast.parse(src, filename=path)
                except SyntaxError as e:
                    self.unparsed[relpath] = str(e)
                    continue
                # locals renamed towards the reference naming (alpha-equivalent; see refnames.py)
                from . import refnames
                refnames.apply_to_tree(tree, relpath, self.renamed)
                self.modules[name] = Module(name, path, relpath, src, tree, is_pkg)

    def _index(self):
        for m in self.modules.values():
            collect_imports(m.tree.body, m.name, m.is_pkg, m.imports, m.star_imports)
            self._index_body(m, m.tree.body)
        # resolve bases
        for m in self.modules.values():
            for c in m.classes.values():
                c.bases = [self._resolve_expr_to_class(m, b) for b in c.base_exprs]

    def _index_body(self, m, body):
        for st in body:
            if isinstance(st, (ast.FunctionDef, ast.AsyncFunctionDef)):
                m.functions[st.name] = FuncInfo(st.name, m, None, st)
            elif isinstance(st, ast.ClassDef):
                ci = ClassInfo(st.name, m, st)
                m.classes[st.name] = ci
                for cs in st.body:
                    if isinstance(cs, (ast.FunctionDef, ast.AsyncFunctionDef)):
                        # property setters share the name: keep getter under
                        # name, setter under name + ".setter"
                        key = cs.name
                        for d in cs.decorator_list:
                            if isinstance(d, ast.Attribute) and d.attr == "setter":
                                key = cs.name + ".setter"
                        ci.methods[key] = FuncInfo(cs.name, m, ci, cs)
                    elif isinstance(cs, ast.Assign):
                        for t in cs.targets:
                            if isinstance(t, ast.Name):
                                ci.attrs[t.id] = cs.value
            elif isinstance(st, ast.Assign):
                for t in st.targets:
                    if isinstance(t, ast.Name):
                        m.assigns[t.id] = st.value
            elif isinstance(st, (ast.If, ast.Try)):
                for fld in ("body", "orelse", "finalbody"):
                    self._index_body(m, getattr(st, fld, []) or [])
                for h in getattr(st, "handlers", []) or []:
                    self._index_body(m, h.body)

    # ------------------------------------------------------------------
    def digest(self, relpaths=None):
        h = hashlib.sha256()
        mods = sorted(self.modules.values(), key=lambda m: m.relpath)
        n = 0
        for m in mods:
            if relpaths is not None and m.relpath not in relpaths:
                continue
            h.update(m.relpath.encode())
            h.update(m.src.encode("utf-8", "replace"))
            n += 1
        return n, h.hexdigest()

    def module(self, name):
        m = self.modules.get(name)
        if m is None:
            raise AnalysisError("module %s not found in %s" % (name, self.repo))
        self.consulted.add(m.relpath)
        return m

    def module_by_path(self, relpath):
        for m in self.modules.values():
            if m.relpath == relpath:
                self.consulted.add(m.relpath)
                return m
        raise AnalysisError("file %s not found / not parsed" % relpath)

    def cls(self, qual):
        modname, _, cname = qual.rpartition(".")
        m = self.module(modname)
        c = m.classes.get(cname)
        if c is None:
            raise AnalysisError("class %s not found" % qual)
        return c

    def func(self, qual):
        """'pkg.mod.func' or 'pkg.mod.Class.method' (append '.setter' for a
        property setter)."""
        parts = qual.split(".")
        setter = False
        if parts[-1] == "setter":
            setter = True
            parts = parts[:-1]
        # try module.func
        modname = ".".join(parts[:-1])
        if modname in self.modules:
            m = self.module(modname)
            f = m.functions.get(parts[-1])
            if f is not None:
                return f
        modname = ".".join(parts[:-2])
        if modname in self.modules:
            m = self.module(modname)
            c = m.classes.get(parts[-2])
            if c is not None:
                key = parts[-1] + (".setter" if setter else "")
                f = c.methods.get(key)
                if f is not None:
                    return f
        raise AnalysisError("function %s not found (anchor vanished)" % qual)

    def has_func(self, qual):
        try:
            self.func(qual)
            return True
        except AnalysisError:
            return False

    # ------------------------------------------------------------------
    def resolve_in_module(self, modname, attr, _seen=None):
        """Resolve ``attr`` in the namespace of module ``modname`` following
        imports and re-exports.  Returns Module | ClassInfo | FuncInfo |
        ("const", module, node) | ("external", dotted) | None."""
        if _seen is None:
            _seen = set()
        key = (modname, attr)
        if key in _seen:
            return None
        _seen.add(key)
        m = self.modules.get(modname)
        if m is None:
            if modname.split(".")[0] != self.pkg:
                return ("external", modname + "." + attr)
            return None
        if attr in m.classes:
            return m.classes[attr]
        if attr in m.functions:
            return m.functions[attr]
        if attr in m.imports:
            b = m.imports[attr]
            if b[0] == "module":
                if b[1] in self.modules:
                    return self.modules[b[1]]
                return ("external", b[1])
            r = self.resolve_in_module(b[1], b[2], _seen)
            if r is not None:
                return r
            sub = b[1] + "." + b[2]
            if sub in self.modules:
                return self.modules[sub]
            if b[1].split(".")[0] != self.pkg:
                return ("external", sub)
            return None
        if attr in m.assigns:
            return ("const", m, m.assigns[attr])
        sub = modname + "." + attr
        if m.is_pkg and sub in self.modules:
            return self.modules[sub]
        for s in m.star_imports:
            r = self.resolve_in_module(s, attr, _seen)
            if r is not None:
                return r
        return None

    def local_imports(self, func):
        c = self.__dict__.setdefault("_li_cache", {})
        k = id(func.node)
        if k not in c:
            c[k] = self._local_imports(func)
        return c[k]

    def _local_imports(self, func):
        out = {}
        for n in ast.walk(func.node):
            if isinstance(n, (ast.Import, ast.ImportFrom)):
                collect_imports([n], func.module.name, func.module.is_pkg, out)
        return out

    def resolve_name(self, module, name, func=None):
        if func is not None:
            li = self.local_imports(func)
            if name in li:
                b = li[name]
                if b[0] == "module":
                    return self.modules.get(b[1], ("external", b[1]))
                r = self.resolve_in_module(b[1], b[2])
                if r is None and (b[1] + "." + b[2]) in self.modules:
                    r = self.modules[b[1] + "." + b[2]]
                return r
        return self.resolve_in_module(module.name, name)

    def resolve_expr(self, module, expr, func=None):
        """Resolve a Name / dotted Attribute expression to a program object."""
        if isinstance(expr, ast.Name):
            return self.resolve_name(module, expr.id, func)
        if isinstance(expr, ast.Attribute):
            base = self.resolve_expr(module, expr.value, func)
            if isinstance(base, Module):
                return self.resolve_in_module(base.name, expr.attr)
            if isinstance(base, tuple) and base[0] == "external":
                return ("external", base[1] + "." + expr.attr)
            if isinstance(base, ClassInfo):
                f = self.find_method(base, expr.attr)
                if f is not None:
                    return f
                a = self.find_class_attr(base, expr.attr)
                if a is not None:
                    return ("const", a[0].module, a[1])
            return None
        return None

    def _resolve_expr_to_class(self, module, expr):
        r = self.resolve_expr(module, expr)
        return r if isinstance(r, ClassInfo) else None

    # ------------------------------------------------------------------
    def mro(self, c):
        if c._mro is not None:
            return c._mro
        c._mro = [c]  # guard against cycles
        seqs = [list(self.mro(b)) for b in c.bases if b is not None]
        seqs.append([b for b in c.bases if b is not None])
        res = [c]
        seqs = [s for s in seqs if s]
        while seqs:
            cand = None
            for s in seqs:
                h = s[0]
                if not any(h in t[1:] for t in seqs):
                    cand = h
                    break
            if cand is None:
                # inconsistent hierarchy: fall back to DFS order
                for s in seqs:
                    for x in s:
                        if x not in res:
                            res.append(x)
                break
            res.append(cand)
            seqs = [[x for x in s if x is not cand] for s in seqs]
            seqs = [s for s in seqs if s]
        c._mro = res
        return res

    def find_method(self, c, name, after=None):
        mro = self.mro(c)
        if after is not None and after in mro:
            mro = mro[mro.index(after) + 1:]
        for k in mro:
            if name in k.methods:
                return k.methods[name]
        return None

    def find_class_attr(self, c, name):
        for k in self.mro(c):
            if name in k.attrs:
                return (k, k.attrs[name])
        return None

    def is_subclass(self, c, base_name):
        return any(k.name == base_name for k in self.mro(c))

    def all_classes(self):
        for m in self.modules.values():
            for c in m.classes.values():
                yield c

    def all_functions(self):
        for m in self.modules.values():
            for f in m.functions.values():
                yield f
            for c in m.classes.values():
                for f in c.methods.values():
                    yield f

    def subclasses_of(self, base_name):
        return [c for c in self.all_classes() if self.is_subclass(c, base_name)]

    # ------------------------------------------------------------------
    def resolve_call(self, func, call, may=True):
        """Targets (list of FuncInfo) of ``call`` made inside ``func``.
        Exact where possible; for unknown receivers the set of all methods of
        that name (only when may=True)."""
        f = call.func
        m = func.module
        if isinstance(f, ast.Name):
            r = self.resolve_name(m, f.id, func)
            return self._callable_targets(r)
        if isinstance(f, ast.Attribute):
            v = f.value
            name = demangle(func, f.attr)
            if isinstance(v, ast.Name) and v.id in ("self", "cls") and func.cls is not None:
                t = self.find_method(func.cls, name)
                return [t] if t is not None else []
            if (isinstance(v, ast.Call) and isinstance(v.func, ast.Name)
                    and v.func.id == "super" and func.cls is not None):
                t = self.find_method(func.cls, name, after=func.cls)
                return [t] if t is not None else []
            r = self.resolve_expr(m, f, func)
            if r is not None and not (isinstance(r, tuple) and r[0] == "external"):
                return self._callable_targets(r)
            if isinstance(r, tuple) and r[0] == "external":
                return []
            base = self.resolve_expr(m, v, func)
            if isinstance(base, tuple) and base[0] == "external":
                return []
            if may:
                out = []
                for c in self.all_classes():
                    if name in c.methods:
                        out.append(c.methods[name])
                return out
        return []

    def _callable_targets(self, r):
        if isinstance(r, FuncInfo):
            return [r]
        if isinstance(r, ClassInfo):
            t = self.find_method(r, "__init__")
            return [t] if t is not None else []
        return []

    def external_name(self, func, expr):
        """Dotted external name ('numpy.fft.fftshift') of an expression, or
        None."""
        r = self.resolve_expr(func.module, expr, func)
        if isinstance(r, tuple) and r[0] == "external":
            return r[1]
        return None


def demangle(func, attr):
    """self.__x inside class C is stored as _C__x; methods are indexed by
    their source name, so map back."""
    if func.cls is not None and attr.startswith("_" + func.cls.name + "__"):
        return attr[len(func.cls.name) + 1:]
    return attr


# ----------------------------------------------------------------------
# small AST helpers shared by rules

def norm(node):
    """Normalised text of a node (position independent)."""
    if isinstance(node, list):
        return "; ".join(norm(n) for n in node)
    return " ".join(ast.unparse(node).split())


def dotted(expr):
    """'a.b.c' for Name/Attribute chains, else None."""
    parts = []
    while isinstance(expr, ast.Attribute):
        parts.append(expr.attr)
        expr = expr.value
    if isinstance(expr, ast.Name):
        parts.append(expr.id)
        return ".".join(reversed(parts))
    return None


def walk_no_nested(node):
    """ast.walk that does not descend into nested function/class defs
    (the root itself may be a def)."""
    stack = list(ast.iter_child_nodes(node))
    while stack:
        n = stack.pop()
        yield n
        if isinstance(n, (ast.FunctionDef, ast.AsyncFunctionDef, ast.ClassDef, ast.Lambda)):
            continue
        stack.extend(ast.iter_child_nodes(n))


def calls_in(node):
    return [n for n in walk_no_nested(node) if isinstance(n, ast.Call)]


def call_name(call):
    f = call.func
    if isinstance(f, ast.Name):
        return f.id
    if isinstance(f, ast.Attribute):
        return f.attr
    return None


def const_value(node):
    """Python value of a literal expression (numbers, strings, tuples, lists,
    dicts, unary minus, simple arithmetic), else raises ValueError."""
    try:
        return ast.literal_eval(node)
    except Exception:
        pass
    if isinstance(node, ast.BinOp):
        l = const_value(node.left)
        r = const_value(node.right)
        op = node.op
        if isinstance(op, ast.Add):
            return l + r
        if isinstance(op, ast.Sub):
            return l - r
        if isinstance(op, ast.Mult):
            return l * r
        if isinstance(op, ast.Div):
            return l / r
        if isinstance(op, ast.Pow):
            return l ** r
    if isinstance(node, ast.UnaryOp) and isinstance(node.op, ast.USub):
        return -const_value(node.operand)
    raise ValueError("not a constant: %s" % ast.dump(node)[:80])


def parents_map(root):
    pm = {}
    for n in ast.walk(root):
        for c in ast.iter_child_nodes(n):
            pm[c] = n
    return pm


def enclosing(pm, node, kinds):
    n = pm.get(node)
    while n is not None:
        if isinstance(n, kinds):
            return n
        n = pm.get(n)
    return None


def enclosing_all(pm, node, kinds):
    out = []
    n = pm.get(node)
    while n is not None:
        if isinstance(n, kinds):
            out.append(n)
        n = pm.get(n)
    return out


def protocol_body(prog, cls, name, _depth=0):
    """The method that carries the protocol of the public entry `name`, and its statements.

    An entry may run its work in internal units in one of two forms, both of which leave the protocol
    itself unchanged:  the whole body (after the docstring) is one `with energy_units("int"):` block,
    or it is such a block whose only statement returns `self._helper(<the entry's own parameters>)`.
    Returns (FuncInfo of the method holding the statements, list of statements)."""
    f = prog.find_method(cls, name)
    if f is None:
        raise AnalysisError("%s has no method %s" % (cls.name, name))
    body = list(f.node.body)
    if body and isinstance(body[0], ast.Expr) and isinstance(body[0].value, ast.Constant) \
            and isinstance(body[0].value.value, str):
        body = body[1:]
    if len(body) == 1 and isinstance(body[0], ast.With) and len(body[0].items) == 1 \
            and norm(body[0].items[0].context_expr) in ('energy_units("int")', "energy_units('int')"):
        body = list(body[0].body)
        if len(body) == 1 and isinstance(body[0], ast.Return) and isinstance(body[0].value, ast.Call) and _depth < 2:
            c = body[0].value
            params = [a.arg for a in f.node.args.args[1:]]
            passed = [norm(a) for a in c.args] + [norm(k.value) for k in c.keywords]
            if isinstance(c.func, ast.Attribute) and isinstance(c.func.value, ast.Name) and c.func.value.id == "self" \
                    and sorted(passed) == sorted(params) and all(k.arg == norm(k.value) for k in c.keywords):
                return protocol_body(prog, cls, c.func.attr, _depth + 1)
    # third form: locals are saved, the work is one call of self._helper(<own parameters>) inside try, and the
    # finally clause restores what was saved
    # (handlers that put saved values back and raise again - the last statement is a bare `raise` - change nothing on
    # the path on which the helper succeeds)
    if body and isinstance(body[-1], ast.Try) and body[-1].finalbody and len(body[-1].body) == 1 and _depth < 2 \
            and all(h.body and isinstance(h.body[-1], ast.Raise) and h.body[-1].exc is None for h in body[-1].handlers):
        pre, tr = body[:-1], body[-1]
        st = tr.body[0]
        c = st.value if isinstance(st, (ast.Expr, ast.Return)) else None

        def local_only(n):
            if isinstance(n, ast.Assign):
                return all(isinstance(t_, ast.Name) for t_ in n.targets)
            if isinstance(n, ast.If):
                return all(local_only(x) for x in n.body + n.orelse)
            return False
        if isinstance(c, ast.Call) and isinstance(c.func, ast.Attribute) and isinstance(c.func.value, ast.Name) \
                and c.func.value.id == "self" and all(local_only(x) for x in pre):
            params = [a.arg for a in f.node.args.args[1:]]
            passed = [norm(a) for a in c.args] + [norm(k.value) for k in c.keywords]
            if sorted(passed) == sorted(params) and all(k.arg == norm(k.value) for k in c.keywords):
                return protocol_body(prog, cls, c.func.attr, _depth + 1)
    return f, body
