"""Affine typing of axis arithmetic: points and displacements.

The points of an axis (start, data[k], min, max, a value looked up on the axis) live in an affine space: shifting the
axis and the value by the same amount must not change any index that is computed.  That holds exactly when points enter
only through differences:

    P - P = V      P + V = P      P - V = P      V + V = V     V * S = V     V / V = S     V / S = V

(P point, V displacement - step, difference of points -, S pure number - length, index, ratio of displacements).  Adding
two points, multiplying a point, taking the modulus of a point, comparing a point with a displacement are ill-typed:
`abs(val - k*step)` measures the distance of val from the k-th point of an axis *that starts at zero*.

Numeric literals are polymorphic (K): they combine with V and S and compare with anything.
"""
import ast

from .loader import norm

P, V, S, K, U = "P", "V", "S", "K", "U"


class IllTyped(Exception):
    def __init__(self, node, why):
        Exception.__init__(self, why)
        self.node, self.why = node, why


class AffineTyper:
    def __init__(self, attr_types, param_types):
        self.attr = dict(attr_types)          # 'self.start' -> P ...
        self.env = dict(param_types)
        self.errors = []                      # (node, why)
        self.nchecked = 0

    def err(self, node, why):
        self.errors.append((node, why))
        return U

    def ev(self, e):
        if isinstance(e, ast.Constant):
            return K
        if isinstance(e, ast.Name):
            return self.env.get(e.id, U)
        if isinstance(e, ast.Attribute):
            return self.attr.get(norm(e), U)
        if isinstance(e, ast.Subscript):
            b = self.ev(e.value)
            # an element of an array of points is a point; the index must be a number
            return b
        if isinstance(e, ast.UnaryOp):
            t = self.ev(e.operand)
            if isinstance(e.op, ast.USub) and t == P:
                return self.err(e, "the negative of a point")
            return t
        if isinstance(e, ast.BinOp):
            a, b = self.ev(e.left), self.ev(e.right)
            self.nchecked += 1
            if U in (a, b):
                return U
            if isinstance(e.op, ast.Sub):
                if a == P and b == P:
                    return V
                if a == P and b in (V,):
                    return P
                if a == P and b in (K, S):
                    return self.err(e, "a pure number subtracted from a point")
                if b == P:
                    return self.err(e, "a point subtracted from a %s" % {V: "displacement", S: "pure number", K: "constant"}[a])
                if V in (a, b):
                    if S in (a, b):
                        return self.err(e, "a displacement and a pure number subtracted")
                    return V
                return S if S in (a, b) else K
            if isinstance(e.op, ast.Add):
                if a == P and b == P:
                    return self.err(e, "two points added")
                if P in (a, b):
                    o = b if a == P else a
                    if o == V:
                        return P
                    return self.err(e, "a pure number added to a point")
                if V in (a, b):
                    if S in (a, b):
                        return self.err(e, "a displacement and a pure number added")
                    return V
                return S if S in (a, b) else K
            if isinstance(e.op, ast.Mult):
                if P in (a, b):
                    return self.err(e, "a point multiplied")
                if a == V and b == V:
                    return U
                if V in (a, b):
                    return V
                return S if S in (a, b) else K
            if isinstance(e.op, (ast.Div, ast.FloorDiv, ast.Mod)):
                if P in (a, b):
                    return self.err(e, "a point divided (or divided by)")
                if a == V and b == V:
                    return S
                if a == V:
                    return V
                if b == V:
                    return U
                return S if S in (a, b) else K
            return U
        if isinstance(e, ast.Call):
            fn = e.func.attr if isinstance(e.func, ast.Attribute) else (e.func.id if isinstance(e.func, ast.Name) else "")
            args = [self.ev(a) for a in e.args]
            if fn in ("abs", "absolute", "fabs"):
                self.nchecked += 1
                if args and args[0] == P:
                    return self.err(e, "the modulus of a point (a distance is the modulus of a difference of points)")
                return args[0] if args else U
            if fn in ("floor", "ceil", "round", "int", "rint", "float", "real"):
                if args and args[0] == P:
                    return self.err(e, "a point rounded to an index (an index is the rounded ratio of displacements)")
                if args and args[0] == V:
                    return self.err(e, "a displacement rounded to an index (an index is the rounded ratio of displacements)")
                return S if args and args[0] in (S, K) else U
            if fn in ("min", "max", "minimum", "maximum"):
                ts = {a for a in args if a != K}
                if len(ts) > 1 and P in ts:
                    return self.err(e, "a point compared with a %s" % sorted(ts - {P})[0])
                return next(iter(ts)) if len(ts) == 1 else U
            if fn == "len":
                return S
            return U
        if isinstance(e, ast.Compare):
            ts = [self.ev(e.left)] + [self.ev(c) for c in e.comparators]
            self.nchecked += 1
            if any(isinstance(o, (ast.In, ast.NotIn, ast.Is, ast.IsNot)) for o in e.ops):
                return S
            for a, b in zip(ts, ts[1:]):
                if U in (a, b) or K in (a, b):
                    continue
                if (a == P) != (b == P):
                    return self.err(e, "a point compared with a %s" % ("displacement" if V in (a, b) else "pure number"))
                if (a == V) != (b == V):
                    return self.err(e, "a displacement compared with a pure number")
            return S
        if isinstance(e, ast.BoolOp):
            for v in e.values:
                self.ev(v)
            return S
        if isinstance(e, ast.IfExp):
            self.ev(e.test)
            a, b = self.ev(e.body), self.ev(e.orelse)
            return a if a == b else U
        if isinstance(e, (ast.Tuple, ast.List)):
            for x in e.elts:
                self.ev(x)
            return U
        return U

    def block(self, stmts):
        for st in stmts:
            if isinstance(st, ast.Assign):
                t = self.ev(st.value)
                for t_ in st.targets:
                    if isinstance(t_, ast.Name):
                        self.env[t_.id] = t
            elif isinstance(st, ast.AugAssign):
                self.ev(ast.BinOp(left=st.target, op=st.op, right=st.value))
            elif isinstance(st, ast.If):
                self.ev(st.test)
                self.block(st.body)
                self.block(st.orelse)
            elif isinstance(st, (ast.For, ast.While)):
                if isinstance(st, ast.While):
                    self.ev(st.test)
                self.block(st.body)
                self.block(st.body)
                self.block(st.orelse)
            elif isinstance(st, ast.Return) and st.value is not None:
                self.ev(st.value)
            elif isinstance(st, ast.Expr):
                self.ev(st.value)
            elif isinstance(st, ast.With):
                self.block(st.body)
            elif isinstance(st, ast.Try):
                self.block(st.body)
                for h in st.handlers:
                    self.block(h.body)
                self.block(st.finalbody)
